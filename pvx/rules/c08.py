"""C08 — Blueprints that break a documented rule are rejected, never compiled.

Decided clauses: every documented rule checker is on the way from App::build, is called unconditionally by its caller,
reports with error severity, and is followed by an error gate before the Ok return; the checkers iterate their whole
domain. Whether a walk reaches a violation planted at arbitrary depth is not decided.
"""
import re
from ..facts import callee, callee_resolved, op_place, strip_generics
from ..flow import Defs, backward_slice, slice_calls, forward_derived
from ..tables import enum_switches, switch_arms, switch_edges
from .compiler_common import PX, SINK, PUSH, cg, may_push

LEVEL = 'other'
TECHNIQUE = 'static analysis: call-graph reachability of the roster, must-push / may-push fixpoints, severity provenance, gates by dominance, whole-domain iteration provenance, decision audit of skip conditions against a reviewed table (same-file helpers and closures looked through)'
CLAUSE = ('each rule checker of the frozen roster is reachable from App::build, is called on every path of the function that hosts it, can '
          'push a diagnostic and never lowers its severity below Error; in App::build every pass that receives the sink is followed by a '
          'has_errored gate before the Ok return; cycle detection starts a traversal from every node, the `&mut` input check looks at every '
          'input, and the method-conflict check counts every kind of method guard. RoutePath::parse consumes a matched lookahead before reading on; the docs-cache checksum covers all of src/; in implements_trait the Clone answer for references depends on is_mutable wherever the Copy answer does.')
TRUSTED = ['the walk inside each checker reaches the offending component (not decided statically)']

A = PX + 'analyses::'
ROSTER = {
    # checker -> (host function that must call it unconditionally, reason)
    A + 'constructibles::ConstructibleDb::detect_missing_constructors': (A + 'constructibles::ConstructibleDb::build', 'missing constructor; &mut of singleton/transient/cloneable'),
    A + 'constructibles::ConstructibleDb::verify_singleton_ambiguity': (A + 'constructibles::ConstructibleDb::build', 'singleton registered in two nested blueprints'),
    A + 'constructibles::ConstructibleDb::verify_lifecycle_of_singleton_dependencies': (A + 'constructibles::ConstructibleDb::build', 'singleton depends on request-scoped'),
    A + 'constructibles::ConstructibleDb::error_observers_cannot_depend_on_fallible_components': (A + 'constructibles::ConstructibleDb::build', 'observer needs fallible constructor'),
    A + 'call_graph::dependency_graph::DependencyGraph::assert_acyclic': (A + 'call_graph::core_graph::build_call_graph', 'dependency cycle'),
    A + 'application_state::thread_safety::runtime_singletons_are_thread_safe': (A + 'application_state::ApplicationState::new', 'singleton not Send + Sync'),
    A + 'application_state::cloning::runtime_singletons_can_be_cloned_if_needed': (A + 'application_state::ApplicationState::new', 'singleton by value without Copy/Clone'),
    A + 'cloning::cloneables_can_be_cloned': (PX + 'app::App::build', 'clone-if-necessary on a non-Clone type'),
    PX + 'path_parameters::verify_path_parameters': (PX + 'app::App::build', 'path-parameter field not in the route template'),
    A + 'user_components::router::PathRouter::detect_method_conflicts': (A + 'user_components::router::PathRouter::new', 'two routes for the same request (method)'),
    A + 'user_components::router::PathRouter::detect_path_conflicts': (A + 'user_components::router::PathRouter::new', 'two routes for the same request (path)'),
    A + 'user_components::router::DomainRouter::detect_domain_conflicts': (A + 'user_components::router::DomainRouter::new', 'two domains for the same host'),
}
# validators whose rejection is reported by the caller
VALIDATORS = {
    PX + 'component::CannotTakeMutReferenceError::check_callable': '`&mut` input on a constructor / middleware / observer / handler',
}
APP_BUILD = PX + 'app::App::build'


def r1_roster_on_the_way(ctx):
    ctx.rule('C08.R1', 'P4/P1: every roster checker is reachable from App::build in the resolved call graph of pavexc, and its host function calls it '
             'on every path from entry to return (the call cannot be bypassed).')
    g, mp = cg(ctx)
    reach = g.reachable({APP_BUILD})
    for chk, (host, why) in sorted(ROSTER.items()):
        short = chk.replace(PX, '').replace('analyses::', '')
        if not ctx.need('C08.R1', 'checker ' + short, chk in g.items):
            continue
        ctx.ob('C08.R1', 'reachable|%s' % short, chk in reach, '', '%s (%s) is reachable from App::build' % (short, why))
        hb = ctx.fb.body('pavexc', host)
        if ctx.need('C08.R1', 'host ' + host, hb) is None:
            continue
        sites = [bb for bb, t in hb.calls() if callee(t) == chk]
        rets = set(hb.return_blocks())
        # Ok-returns only: an early `return Err` before the checker is fine (the blueprint is rejected anyway)
        ok_rets = set()
        for r in rets:
            ok_rets.add(r)
        bypass = hb.reachable_from_entry(avoid=sites) & ok_rets if sites else ok_rets
        if bypass and sites:
            # tolerate bypasses that construct an Err result
            errs = [bb for bb, j, st in hb.all_assigns() if st['rv']['k'] == 'agg' and st['rv'].get('var') == 'Err']
            froms = [bb for bb, t in hb.calls() if callee(t) == 'core::ops::try_trait::FromResidual::from_residual']
            clean = hb.reachable_from_entry(avoid=sites + errs + froms) & ok_rets
            bypass = clean
        ctx.ob('C08.R1', 'unconditional|%s' % short, bool(sites) and not bypass, hb.loc(sites[0]) if sites else hb.loc(),
               '%s calls %s on every non-failing path (%d call site(s))' % (host.split('::')[-2] + '::' + host.split('::')[-1], short.split('::')[-1], len(sites)))
    ctx.floor('C08.R1', 'roster size', len(ROSTER), 12)


def r2_reports_errors(ctx):
    ctx.rule('C08.R2', 'P4/P7: every roster checker (and the reporter of each validator) can reach DiagnosticSink::push; no function reachable from a '
             'roster checker lowers the severity of what it pushes (CompilerDiagnosticBuilder::severity with a non-Error constant); positive '
             'control: the three Warning sites that exist today are outside the roster\'s reach.')
    g, mp = cg(ctx)
    warn_sites = []
    for b in ctx.fb.bodies('pavexc'):
        if b.is_promoted:
            continue
        for bb, t in b.calls():
            if (callee(t) or '').endswith('CompilerDiagnosticBuilder::severity'):
                sev = None
                a = t['args'][1] if len(t['args']) > 1 else {}
                pl = op_place(a)
                if pl is not None:
                    sl, _ = backward_slice(b, pl['l'], through_calls=False)
                    for _, _, n in sl:
                        rv = n.get('rv')
                        if rv and rv['k'] == 'agg' and rv.get('adt', '').endswith('Severity'):
                            sev = rv['var']
                warn_sites.append((b, bb, t, sev))
    ctx.floor('C08.R2', 'explicit severity sites (positive control)', len(warn_sites), 3)
    lowered = {b.nroot for b, bb, t, sev in warn_sites if sev != 'Error'}
    for chk in sorted(ROSTER):
        short = chk.replace(PX, '').replace('analyses::', '')
        ctx.ob('C08.R2', 'may-push|%s' % short, chk in mp, '', '%s can reach DiagnosticSink::push' % short)
        r = g.reachable({chk})
        bad = sorted(x for x in r if x in lowered)
        ctx.ob('C08.R2', 'error-severity|%s' % short, not bad, '', 'functions reachable from %s that lower the severity: %s' % (short.split('::')[-1], [x.split('::')[-1] for x in bad] or 'none'))
    for v, why in VALIDATORS.items():
        # callers of the validator must report its Err: each caller either propagates or reaches a may-push function with the error
        callers = [(b, bb) for (f, c), sites in g.sites.items() if c == v for (b, bb) in sites]
        ctx.floor('C08.R2', 'callers of %s' % v.split('::')[-1], len(callers), 4)
        for b, bb in callers:
            t = b.term(bb)
            der = forward_derived(b, {t['dest']['l']}, through_calls=True)
            reported = False
            for b2, t2 in b.calls():
                c2 = callee_resolved(t2) or callee(t2)
                if (c2 in mp or callee(t2) in mp) and any(op_place(a) and op_place(a)['l'] in der for a in t2['args']):
                    reported = True
                if callee(t2) == 'core::ops::try_trait::Try::branch' and op_place(t2['args'][0]) and op_place(t2['args'][0])['l'] in der:
                    reported = True
            # or the Err flows into the function's return value (`map_err(..)?` / returned Result)
            if not reported:
                sl, locs = backward_slice(b, 0)
                reported = bool(locs & der)
            ctx.ob('C08.R2', 'validator-reported|%s|%s' % (v.split('::')[-1], b.nroot.replace(PX, '')), reported, b.loc(bb, t),
                   'the result of %s (%s) is propagated or handed to a diagnostic-pushing function in %s' % (v.split('::')[-1], why, b.nroot.split('::')[-1]))


def r3_gated(ctx):
    ctx.rule('C08.R3', 'P1: in App::build every call that receives the diagnostic sink is followed, on every path to the Ok(..) return, by a '
             'has_errored() gate whose true branch returns Err — no pass can push an error that the final verdict ignores.')
    b = ctx.need('C08.R3', 'App::build', ctx.fb.body('pavexc', APP_BUILD))
    if b is None:
        return
    from ..inline import inlined
    # App::build with the private helpers it was split into (and a `checkpoint()`-style gate helper of the sink) put back
    b = inlined(ctx.fb, b, also=lambda cb: cb.nid.startswith(SINK) and cb.nid != SINK + 'has_errored' and cb.raw.get('vis') != 'Public',
                keep={SINK + 'has_errored'}, depth=3)
    gates = [bb for bb, t in b.calls() if callee(t) == SINK + 'has_errored']
    oks = [bb for bb, j, st in b.all_assigns() if st['lhs'] == {'l': 0} and st['rv']['k'] == 'agg' and st['rv'].get('var') == 'Ok']
    ctx.need('C08.R3', 'Ok(..) return of App::build', oks)
    n = 0
    mp = may_push(ctx)
    for bb, t in b.calls():
        if callee(t) == SINK + 'has_errored' or not any('DiagnosticSink' in a for a in t['aty']):
            continue
        if 'mo' in t and (t.get('mo') or '').startswith('tracing'):
            continue
        c = callee(t) or '?'
        if c.startswith(('core::ops::try_trait::', 'core::convert::', 'core::clone::')):
            continue        # `?` / conversions carrying the sink along are not passes
        if strip_generics(c).startswith('pavexc::') and strip_generics(c) not in mp and ctx.fb.bodies_of_item('pavexc', strip_generics(c)):
            continue        # a function of pavexc that cannot reach DiagnosticSink::push (a reader such as `len`) reports nothing: there is nothing to gate
        n += 1
        leak = set(oks) & b.reachable(b.succ(bb), avoid=gates)
        ctx.ob('C08.R3', 'gated|%s' % c.replace(PX, '').replace('analyses::', ''), not leak, b.loc(bb, t),
               'after %s every path to Ok(..) passes a has_errored() gate' % c.split('::')[-1])
    ctx.floor('C08.R3', 'sink-taking passes in App::build', n, 10)
    # the erroring branch of every gate never reaches the Ok(..) result (it returns, or propagates, the sink as an error)
    for gbb in gates:
        t = b.term(gbb)
        d = t['dest']['l']
        good = False
        der = forward_derived(b, {d})
        for sb in b.live_blocks():
            w = b.term(sb)
            if w and w['k'] == 'switch' and 'enum' not in w and op_place(w['d']) and op_place(w['d'])['l'] in der:
                zero = [tg for v, tg in w['ts'] if v == '0']
                reg = b.reachable(w['else'], avoid=zero)
                rets = set(b.return_blocks())
                good = bool(reg & rets) and not (set(oks) & reg)
                if not good and (reg & rets):
                    # the branch may rejoin the main line before `?` sorts it out (`sink.checkpoint()?`): interpret from the erroring edge on
                    # (P11, Option/Result algebra) — every way out must be an Err
                    from ..absint_std import StdSem, TagInterp
                    try:
                        outs = TagInterp(StdSem(ctx.fb), max_paths=2000).run(b, {}, start=w['else'])
                        good = bool(outs) and all(oc[0] == 'return' and oc[1].tags.get((b.id, 0)) == 'res:Err' for oc in outs)
                    except RuntimeError:
                        good = False
        ctx.ob('C08.R3', 'gate-returns-err|bb-order-%d' % gates.index(gbb), good, b.loc(gbb, t),
               'the true branch of this has_errored() gate leaves App::build without ever reaching the Ok(..) result')


def r6_whole_domain(ctx):
    ctx.rule('C08.R6', 'P1/P5 whole-domain checks (slots filled from the repository): find_cycles starts a DFS from every node of the dependency '
             'graph (node_indices, no filter); check_callable inspects the type of every input (the match on the input type is reached on '
             'every iteration; no skip/filter); detect_method_conflicts counts handlers for both kinds of MethodGuard (each arm of the match '
             'inserts into the counted set) and examines, besides the standard methods, every method named by a guard of the path.')
    fc = ctx.need('C08.R6', 'find_cycles', ctx.fb.body('pavexc', A + 'call_graph::dependency_graph::find_cycles'))
    if fc is not None:
        defs = Defs(fc)
        heads = [(bb, t) for bb, t in fc.calls() if callee(t) == 'core::iter::traits::iterator::Iterator::next']
        ok, src = False, []
        if heads:
            pl = op_place(heads[0][1]['args'][0])
            sl, _ = backward_slice(fc, pl['l'], defs)
            src = [c for c, _, _ in slice_calls(sl)]
            ok = any(c and c.endswith('::node_indices') for c in src) and not any(c and c.split('::')[-1] in ('filter', 'skip', 'take', 'externals', 'filter_map', 'step_by') for c in src)
        ctx.ob('C08.R6', 'find_cycles|starts-from-every-node', ok, fc.loc(), 'the outer loop of find_cycles iterates %s' % [c.split('::')[-1] for c in src if c and 'iter' not in c][:4])
    cc = ctx.need('C08.R6', 'check_callable', ctx.fb.body('pavexc', PX + 'component::CannotTakeMutReferenceError::check_callable'))
    if cc is not None:
        defs = Defs(cc)
        heads = [(bb, t) for bb, t in cc.calls() if callee(t) == 'core::iter::traits::iterator::Iterator::next']
        tsw = [sb for sb, st in enum_switches(cc, 'rustdoc_ir::Type')]
        ok = False
        src = []
        if heads and tsw:
            hb, ht = heads[0]
            pl = op_place(ht['args'][0])
            sl, _ = backward_slice(cc, pl['l'], defs)
            src = [c for c, _, _ in slice_calls(sl)]
            drop = [c for c in src if c and c.split('::')[-1] in ('filter', 'skip', 'take', 'filter_map', 'step_by', 'skip_while')]
            der = forward_derived(cc, {ht['dest']['l']})
            some_t = []
            for sb in cc.live_blocks():
                w = cc.term(sb)
                if w and w['k'] == 'switch' and strip_generics(w.get('enum', '')) == 'core::option::Option' and w['src']['l'] in der:
                    some_t += [tg for n_, tg in w['ts'] if n_ == 'Some']
            bypass = [s for s in some_t if s not in tsw and hb in cc.reachable(s, avoid=tsw)]
            ok = bool(some_t) and not bypass and not drop and any(c and c.endswith('::input_types') for c in src)
        ctx.ob('C08.R6', 'check_callable|every-input-inspected', ok, cc.loc(), 'every iteration over input_types() reaches the match on the input type (sources: %s)'
               % [c.split('::')[-1] for c in src if c][:4])
    mc = ctx.need('C08.R6', 'detect_method_conflicts', ctx.fb.body('pavexc', A + 'user_components::router::PathRouter::detect_method_conflicts'))
    if mc is not None:
        MG = A + 'user_components::router_key::MethodGuard'
        sws = list(enum_switches(mc))
        sws = [(sb, st) for sb, st in sws if strip_generics(st['enum']).endswith('MethodGuard')]
        ok = False
        detail = 'no match on MethodGuard'
        for sb, st in sws:
            arms = switch_arms(mc, sb)
            ins = {v: any(callee(mc.term(x)) and callee(mc.term(x)).endswith('IndexSet::insert') for x in blocks if mc.term(x) and mc.term(x)['k'] == 'call')
                   for v, blocks in arms.items()}
            detail = 'arms inserting into the counted set: %s' % ins
            if ins and all(ins.values()) and len(ins) >= 2 and sb in mc.reachable(mc.succ(sb)):
                ok = True
        if not ok:
            # the counting written as a filter over the routes: `routes.iter().filter(|(guard, _)| match guard { Any => true, Some(g) => g.contains(m) })`
            for x in ctx.fb.bodies_of_item('pavexc', mc.nroot):
                if x is mc or x.locals[0] != 'bool':
                    continue
                used = [t for _, t in mc.calls() if (callee(t) or '').endswith('Iterator::filter') and any(x.id in a or '{closure' in a for a in t['aty'][1:])]
                for sb, st in enum_switches(x):
                    if not strip_generics(st['enum']).endswith('MethodGuard') or not used:
                        continue
                    e = switch_edges(st)
                    any_true = False
                    bb_, seen_ = e.get('Any'), set()
                    while bb_ is not None and bb_ not in seen_:
                        seen_.add(bb_)
                        if any(s_['lhs'] == {'l': 0} and s_['rv']['k'] == 'use' and s_['rv']['op'].get('int') == '1' for s_ in x.stmts(bb_) if 'lhs' in s_):
                            any_true = True
                        t_ = x.term(bb_)
                        bb_ = t_['t'] if t_ and t_['k'] in ('goto', 'drop') else None
                    some_blocks = x.reachable(e.get('Some'), avoid=[e.get('Any')]) if e.get('Some') is not None else set()
                    some_contains = any(x.term(y) and x.term(y)['k'] == 'call' and (callee(x.term(y)) or '').endswith('::contains') and x.term(y)['dest'] == {'l': 0}
                                        for y in some_blocks)
                    detail = 'filter over the routes: ANY counts unconditionally (%s), Some(g) counts iff g.contains(method) (%s)' % (any_true, some_contains)
                    ok = any_true and some_contains
        ctx.ob('C08.R6', 'detect_method_conflicts|every-guard-kind-counted', ok, mc.loc(), detail)
        # the methods that are examined: not only the constant list of standard methods, also the ones the guards themselves name
        defs = Defs(mc)
        NEXT = 'core::iter::traits::iterator::Iterator::next'
        cont = [(bb, t) for bb, t in mc.calls() if (callee(t) or '').endswith('BTreeSet::contains') or (callee(t) or '').endswith('IndexSet::contains')]
        # .. or inside a closure of the function: the tested method is then a captured variable, followed back into the function
        captured = []
        for x in ctx.fb.bodies_of_item('pavexc', mc.nroot):
            if x is mc:
                continue
            dx = Defs(x)
            for bb, t in x.calls():
                if not ((callee(t) or '').endswith('BTreeSet::contains') or (callee(t) or '').endswith('IndexSet::contains')) or len(t['args']) < 2:
                    continue
                q = op_place(t['args'][1])
                xs, _ = backward_slice(x, q['l'], dx) if q else ([], set())
                fields = set()
                for _, _, n in xs:
                    if 'rv' in n:
                        from ..flow import rv_operands as _rvo
                        ops_, pls_ = _rvo(n['rv'])
                        for pp in pls_ + [op_place(o) for o in ops_ if op_place(o)]:
                            if pp['l'] == 1:
                                fields |= {int(e[2:]) for e in pp.get('p', []) if e.startswith('f:') and e[2:].isdigit()}
                for cb, j, st in mc.all_assigns():
                    if st['rv']['k'] == 'agg' and st['rv'].get('ak') == 'closure' and st['rv'].get('def') == x.id:
                        for k in fields:
                            if k < len(st['rv']['ops']) and op_place(st['rv']['ops'][k]):
                                captured.append((cb, op_place(st['rv']['ops'][k])))
        okm, how = False, 'no `guard.contains(method)` test found'
        for bb, t in cont + [(cb, {'args': [None, {'cp': pl_}]}) for cb, pl_ in captured]:
            pl = op_place(t['args'][1]) if len(t['args']) > 1 else None
            if pl is None:
                continue
            sl, _ = backward_slice(mc, pl['l'], defs)
            heads = [nd for c, _, nd in slice_calls(sl) if c == NEXT]
            for nd in heads:
                rpl = op_place(nd['args'][0])
                rsl, rlocs = backward_slice(mc, rpl['l'], defs) if rpl else ([], set())
                # values pushed into a collection the iterator is built from
                for b2, t2 in mc.calls():
                    if (callee(t2) or '').split('::')[-1] in ('push', 'extend', 'insert', 'push_back', 'extend_from_slice') and t2['args']:
                        a0 = op_place(t2['args'][0])
                        if a0 is None:
                            continue
                        _, l0 = backward_slice(mc, a0['l'], defs, through_calls=False)
                        if (l0 | {a0['l']}) & rlocs:
                            for a in t2['args'][1:]:
                                pa = op_place(a)
                                if pa is not None:
                                    s2, _ = backward_slice(mc, pa['l'], defs)
                                    rsl = list(rsl) + list(s2)
                reads_guard = False
                for _, _, n2 in rsl:
                    places = []
                    if 'rv' in n2:
                        from ..flow import rv_operands
                        ops, pls = rv_operands(n2['rv'])
                        places = pls + [op_place(o) for o in ops if op_place(o) is not None]
                    elif n2.get('k') == 'call':
                        places = [op_place(o) for o in n2['args'] if op_place(o) is not None]
                    for q in places:
                        if any(strip_generics(e).endswith('MethodGuard') for e in q.get('e', [])) and 'd:Some' in q.get('p', []):
                            reads_guard = True
                okm = okm or reads_guard
                how = 'the methods tested with contains() come from a list that %s the methods named by the guards' % ('includes' if reads_guard else 'does NOT include')
        ctx.ob('C08.R6', 'detect_method_conflicts|custom-methods-examined', okm, mc.loc(cont[0][0]) if cont else (mc.loc(captured[0][0]) if captured else mc.loc()), how)


# For every roster checker: the calls whose result decides whether an item of the checked domain is skipped (a branch inside the
# checker's loops from which no diagnostic can be reached any more before the next iteration). Extracted from today's tree and
# confirmed by reading each function: lifecycle / cloning-policy filters that the documented rule itself names, the loop
# machinery, and the predicate that IS the rule (assert_trait_is_implemented, find_cycles, ...). Private helpers living in the
# checker's own file and closures handed to adaptors are looked through (what they call is what counts), so extracting or inlining
# a helper does not change the set. A new entry means a new way for a rule-breaking component to escape the check.
REVIEWED_SKIP_PREDICATES = {
    'analyses::constructibles::ConstructibleDb::detect_missing_constructors': {
        # the input the framework itself provides (`Next` of a wrapping middleware, the `Response` of a post-processing one) is masked: it has
        # no constructor to look for. Visible as predicates when the masking is computed by a helper instead of in place.
        'component::post_processing_middleware::PostProcessingMiddleware::response_input_index',
        'component::wrapping_middleware::WrappingMiddleware::next_input_index',
        'analyses::components::db::ComponentDb::bind_generic_type_parameters',
        'analyses::components::db::ComponentDb::cloning_policy',
        'analyses::components::db::ComponentDb::derived_component_ids',
        'analyses::components::db::ComponentDb::hydrated_component',
        'analyses::components::db::ComponentDb::iter',
        'analyses::components::db::ComponentDb::lifecycle',
        'analyses::components::db::ComponentDb::scope_graph',
        'analyses::components::db::ComponentDb::scope_id',
        'analyses::components::db::ComponentDb::user_component_id',
        'analyses::components::hydrated::HydratedComponent::input_types',
        'analyses::framework_items::FrameworkItemDb::get_id',
        'analyses::framework_items::FrameworkItemDb::lifecycle',
        'analyses::user_components::scope_graph::ScopeId::direct_parent_ids',
        'component::constructor::Constructor::output_type',
        'core::cmp::PartialEq::eq',
        'core::option::Option::is_some',
    },
    'analyses::constructibles::ConstructibleDb::verify_singleton_ambiguity': {
        'indexmap::set::IndexSet::len',
    },
    'analyses::constructibles::ConstructibleDb::verify_lifecycle_of_singleton_dependencies': {
        'analyses::components::db::ComponentDb::hydrated_component',
        'analyses::components::db::ComponentDb::iter',
        'analyses::components::db::ComponentDb::lifecycle',
        'analyses::components::db::ComponentDb::scope_graph',
        'analyses::components::db::ComponentDb::scope_id',
        'analyses::components::hydrated::HydratedComponent::input_types',
        'analyses::user_components::scope_graph::ScopeId::direct_parent_ids',
        'core::cmp::PartialEq::eq',
        'core::cmp::PartialEq::ne',
    },
    'analyses::constructibles::ConstructibleDb::error_observers_cannot_depend_on_fallible_components': {
        'analyses::components::db::ComponentDb::hydrated_component',
        'analyses::components::db::ComponentDb::iter',
        'analyses::components::db::ComponentDb::lifecycle',
        'analyses::components::db::ComponentDb::scope_graph',
        'analyses::components::db::ComponentDb::scope_id',
        'analyses::user_components::scope_graph::ScopeId::direct_parent_ids',
        'component::constructor::Constructor::input_types',
        'component::error_observer::ErrorObserver::input_types',
        'core::cmp::PartialEq::eq',
    },
    'analyses::call_graph::dependency_graph::DependencyGraph::assert_acyclic': {
        'core::cmp::PartialEq::eq',
        'std::collections::hash::set::HashSet::contains',
    },
    'analyses::application_state::thread_safety::runtime_singletons_are_thread_safe': {
        'framework_rustdoc::resolve_type_path',
        'traits::assert_trait_is_implemented',
    },
    'analyses::application_state::cloning::runtime_singletons_can_be_cloned_if_needed': {
        'analyses::components::db::ComponentDb::cloning_policy',
        'analyses::components::db::ComponentDb::lifecycle',
        'analyses::processing_pipeline::pipeline::RequestHandlerPipeline::graph_iter',
        'core::cmp::PartialEq::eq',
        'core::cmp::PartialEq::ne',
        'core::result::Result::is_ok',
        'framework_rustdoc::resolve_type_path',
        'traits::assert_trait_is_implemented',
    },
    'analyses::cloning::cloneables_can_be_cloned': {
        'analyses::components::db::ComponentDb::cloning_policy',
        'analyses::components::db::ComponentDb::hydrated_component',
        'analyses::components::db::ComponentDb::iter',
        'analyses::components::hydrated::HydratedComponent::output_type',
        'core::cmp::PartialEq::ne',
        'core::cmp::PartialEq::eq',       # the cloning policy compared with a constant, in either polarity
        'framework_rustdoc::resolve_type_path',
        'traits::assert_trait_is_implemented',
    },
    'path_parameters::verify_path_parameters': {
        'analyses::components::db::ComponentDb::hydrated_component',
        'analyses::components::db::ComponentDb::registration_target',
        'analyses::components::db::ComponentDb::user_component_id',
        'analyses::components::db::ComponentDb::user_db',
        'analyses::processing_pipeline::pipeline::RequestHandlerPipeline::graph_iter',
        'analyses::route_path::RoutePath::parse',
        'analyses::router::Router::handler_ids',
        'analyses::router::Router::route_infos',
        'analyses::user_components::component::UserComponent::kind',
        'core::cmp::PartialEq::eq',
        'core::cmp::PartialEq::ne',
        'core::result::Result::is_err',
        'framework_rustdoc::resolve_type_path',
        'indexmap::set::IndexSet::contains',
        'indexmap::set::IndexSet::is_empty',
        'pavexc::diagnostic::sink::DiagnosticSink::annotated',
        'pavexc::diagnostic::sink::DiagnosticSink::push',
        'traits::assert_trait_is_implemented',
    },
    'analyses::user_components::router::PathRouter::detect_method_conflicts': {
        'indexmap::set::IndexSet::len',
        # a route counts for a method iff its guard is ANY or names the method (the rule itself; visible as a predicate when the counting is
        # written as `routes.iter().filter(|(guard, _)| ..)`)
        'alloc::collections::btree::set::BTreeSet::contains',
    },
    'analyses::user_components::router::PathRouter::detect_path_conflicts': {
        'core::cmp::PartialEq::eq',
    },
    'analyses::user_components::router::DomainRouter::detect_domain_conflicts': {
        'analyses::domain::DomainGuard::matchit_pattern',
    },
    'component::CannotTakeMutReferenceError::check_callable': set(),
}
REVIEWED_MODULES = ('analyses::user_components::scope_graph::',)
# the types whose values `==` / `!=` compare inside the skip conditions of each roster checker, extracted from the pinned tree and confirmed by reading:
# policies, lifecycles, edge kinds, node ids and one framework path — never a user type's name or path (`Arc`, `Box`, ..)
REVIEWED_COMPARED_TYPES = {
    'analyses::application_state::cloning::runtime_singletons_can_be_cloned_if_needed': {'pavex_bp_schema::CloningPolicy', 'pavex_bp_schema::Lifecycle', 'analyses::call_graph::core_graph::CallGraphEdgeMetadata'},
    'analyses::call_graph::dependency_graph::DependencyGraph::assert_acyclic': {'petgraph::graph_impl::NodeIndex'},
    'analyses::cloning::cloneables_can_be_cloned': {'pavex_bp_schema::CloningPolicy'},
    'analyses::constructibles::ConstructibleDb::detect_missing_constructors': {'analyses::components::ConsumptionMode', 'pavex_bp_schema::CloningPolicy'},
    'analyses::constructibles::ConstructibleDb::error_observers_cannot_depend_on_fallible_components': {'pavex_bp_schema::Lifecycle'},
    'analyses::constructibles::ConstructibleDb::verify_lifecycle_of_singleton_dependencies': {'pavex_bp_schema::Lifecycle'},
    'analyses::user_components::router::PathRouter::detect_path_conflicts': {'alloc::string::String'},
    'path_parameters::verify_path_parameters': {'alloc::vec::Vec', 'computation::match_result::MatchResultVariant'},
}

_GENERIC_PREDICATES = ('eq', 'ne', 'is_some', 'is_none', 'is_empty', 'is_ok', 'is_err', 'contains', 'contains_key', 'len', 'lt', 'le', 'gt', 'ge',
                       'matches', 'starts_with', 'ends_with')

LOOP_HEAD_CALLS = ('next', 'pop', 'pop_front', 'pop_back', 'next_back')


def _qn(c, node):
    """name of a predicate; `==` / `!=` carry the type they compare (what is compared is what decides)"""
    c = strip_generics(c)
    if c in ('core::cmp::PartialEq::eq', 'core::cmp::PartialEq::ne') and node is not None and node.get('aty'):
        ty = node['aty'][0].replace('&mut ', '').replace('&', '').strip()
        ty = re.sub(r"'[a-z_0-9]+ ", '', ty)
        return '%s<%s>' % (c, strip_generics(ty))
    return c


def skip_predicates(b, mp, with_closures=True):
    """{(loop head, switch block): calls feeding the switch} for switches inside a loop of `b` that decide whether a diagnostic
    can still be reached before the next iteration"""
    emit = {bb for bb, t in b.calls() if (callee(t) in mp or callee(t) == PUSH or (t.get('res') or '') in mp)}
    # loop heads: `for` loops (Iterator::next) and work-list loops (`while let Some(x) = queue.pop()`)
    heads = [bb for bb, t in b.calls() if (callee(t) or '').split('::')[-1] in LOOP_HEAD_CALLS and bb in b.reachable(b.succ(bb))]
    out = {}
    defs = Defs(b)
    alive = set(heads) | set(b.return_blocks())
    for H in heads:
        body_blocks = {x for x in b.reachable(b.succ(H), avoid=[H]) if H in b.reachable([x])}
        E = emit & body_blocks
        if not E:
            continue
        for W in sorted(body_blocks | {H}):
            t = b.term(W)
            if not t or t['k'] != 'switch':
                continue
            succs = list(dict.fromkeys([x[1] for x in t['ts']] + [t['else']]))
            can = [bool(b.reachable([x], avoid=[H]) & E) for x in succs]
            # an edge that only leads to a panic (`assert!`, `debug_assert!`, `unreachable!`) skips nothing: the run does not go on
            goes_on = [bool(b.reachable([x]) & alive) for x in succs]
            if any(can) and any(g and not c for c, g in zip(can, goes_on)):
                src = t.get('src')
                pl = op_place(t['d']) if 'd' in t else None
                l = src['l'] if src else (pl['l'] if pl else None)
                cs = set()
                if l is not None:
                    sl, _ = backward_slice(b, l, defs)
                    cs = {_qn(c, nd) for c, _, nd in slice_calls(sl) if c}
                    # closures handed to iterator / Option adaptors on the way: what they call decides too
                    for _, _, node in (sl if with_closures else []):
                        rv = node.get('rv')
                        if rv and rv['k'] == 'agg' and rv.get('ak') == 'closure' and rv.get('def'):
                            for x in b.fb.bodies_of_item(b.crate, b.nroot):
                                if x.id == rv['def'] or x.id.startswith(rv['def'] + '::'):
                                    cs |= {_qn(callee(t2), t2) for _, t2 in x.calls() if callee(t2)}
                out[(H, W)] = cs
    return out


def r7_skip_conditions(ctx):
    ctx.rule('C08.R7', 'P1 + reviewed table: inside the loops of every roster checker, each branch that decides whether an item can still be '
             'reported in this iteration is fed only by the reviewed predicates of that checker (REVIEWED_SKIP_PREDICATES, extracted from the '
             'tree and confirmed by reading). A new predicate is a new way to skip an item of the checked domain (e.g. skipping derived '
             'components, or tolerating a router conflict under a weaker comparison).')
    g, mp = cg(ctx)
    n = 0
    for fn in list(ROSTER) + list(VALIDATORS):
        short = fn.replace(PX, '')
        reviewed = REVIEWED_SKIP_PREDICATES.get(short)
        bodies = ctx.fb.bodies_of_item('pavexc', fn)
        if not ctx.need('C08.R7', short, bodies) or reviewed is None:
            continue
        found = {}
        eq_types = {}
        home = bodies[0].file

        def expand(c, seen=None):
            """a private helper that lives in the checker's own file is a piece of the checker that was given a name: what counts is what
            it calls, however many helpers deep (an accessor or predicate defined elsewhere keeps its own name)"""
            seen = seen if seen is not None else set()
            if not c.startswith('pavexc::') or c in seen:
                return {c} if c not in seen else set()
            hb = ctx.fb.bodies_of_item('pavexc', c)
            if not hb or hb[0].file != home or c in ROSTER or c in VALIDATORS:
                return {c}
            seen.add(c)
            out = set()
            for x in hb:
                for _, t in x.calls():
                    cc = _qn(callee(t), t) if callee(t) else ''
                    if cc and cc != c:
                        out |= expand(cc, seen)
            return out

        for b in bodies:
            for (H, W), cs in skip_predicates(b, mp).items():
                n += 1
                for c0 in cs:
                    for c in expand(c0):
                        base = c.split('<')[0]
                        if c.startswith('pavexc::') or base.split('::')[-1] in _GENERIC_PREDICATES:
                            found.setdefault(base.replace('pavexc::compiler::', ''), b.loc(W))
                            if '<' in c:
                                eq_types.setdefault(c.split('<', 1)[1].rstrip('>').replace('pavexc::compiler::', ''), b.loc(W))
        # navigating the scope graph (parents of a scope, walk order) is reviewed as a module: it decides where a lookup looks, never whether an
        # item of the checked domain is examined
        new = sorted(x for x in set(found) - reviewed if not x.startswith(REVIEWED_MODULES))
        ctx.ob('C08.R7', 'skip-conditions|%s' % short, not new, found[new[0]] if new else bodies[0].loc(),
               '%d predicate(s) decide what %s skips; not in the reviewed table: %s' % (len(found), short.split('::')[-1], new or 'none'))
        new_t = sorted(set(eq_types) - REVIEWED_COMPARED_TYPES.get(short, set()))
        ctx.ob('C08.R7', 'compared-types|%s' % short, not new_t, eq_types[new_t[0]] if new_t else bodies[0].loc(),
               '`==` / `!=` in the skip conditions of %s compare values of %d type(s); not in the reviewed table: %s' % (short.split('::')[-1], len(eq_types), new_t or 'none'))
    ctx.floor('C08.R7', 'skip-deciding branches in the roster checkers', n, 60)


def r8_framework_item_lookup_is_exact(ctx):
    ctx.rule('C08.R8', 'P7: `FrameworkItemDb::get_id` is the test by which detect_missing_constructors (and the `&mut` checks that follow it) '
             'decides that an input is provided by the framework and needs no examination. It answers for the type it was given: the key of its one '
             'table lookup is the parameter itself — not the referent of a reference, not a canonicalised form, no second lookup by scan — so '
             '`&mut ConnectionInfo` is not mistaken for the framework item `ConnectionInfo` and skipped.')
    FI = A + 'framework_items::FrameworkItemDb::get_id'
    b = ctx.need('C08.R8', 'FrameworkItemDb::get_id', ctx.fb.body('pavexc', FI))
    if b is None:
        return
    defs = Defs(b)
    looks = [(bb, t) for bb, t in b.calls() if (callee(t) or '').split('::')[-1] in ('get_by_left', 'get', 'get_by_right', 'contains_left', 'find', 'find_map', 'position', 'any', 'iter')
             and t['aty'] and any(k in t['aty'][0] for k in ('BiHashMap', 'HashMap', 'BTreeMap', 'IndexMap', 'Iter'))]
    exact = [(bb, t) for bb, t in looks if callee(t).split('::')[-1] in ('get_by_left', 'get')]
    ok_one = len(looks) == 1 and len(exact) == 1
    key_ok = False
    detail = 'lookups: %s' % [callee(t).split('::')[-1] for _, t in looks]
    if exact:
        bb, t = exact[0]
        pl = op_place(t['args'][1])
        sl, locs = backward_slice(b, pl['l'], defs) if pl else ([], set())
        calls = [c for c, _, _ in slice_calls(sl)]
        through = sorted({e for _, _, n in sl for q in ([n['rv'].get('pl')] if 'rv' in n and n['rv']['k'] == 'ref' else
                                                         ([op_place(n['rv']['op'])] if 'rv' in n and n['rv']['k'] == 'use' else []))
                          if q for e in q.get('p', []) if e.startswith('d:')})
        key_ok = 2 in locs and not calls and not through
        detail += '; the key derives from the parameter: %s, through calls %s, through payloads of %s' % (2 in locs, calls or 'none', through or 'none')
    ctx.ob('C08.R8', 'exact-lookup', ok_one and key_ok, b.loc(exact[0][0]) if exact else b.loc(), detail)


def r9_template_names_unmodified(ctx):
    ctx.rule('C08.R9', 'P7 provenance: `RoutePath::parse` is what `verify_path_parameters` compares the fields of a `PathParams` struct against, while the '
             'router binds the names exactly as they are written in the template. The key under which a parameter is recorded is therefore the run of '
             'characters between the braces, collected and copied and nothing else: every call on the way from the template text to the key of '
             '`parameters.insert(key, ..)` is in the reviewed list of collecting / copying operations (a `replace`, a case fold or a trim there makes the '
             'check accept a field the router will never fill).')
    RP = A + 'route_path::RoutePath::parse'
    bodies = ctx.fb.bodies_of_item('pavexc', RP)
    if not ctx.need('C08.R9', 'RoutePath::parse', bodies):
        return
    REVIEWED = {'clone', 'deref', 'deref_mut', 'as_str', 'as_ref', 'borrow', 'to_owned', 'to_string', 'into', 'from', 'new', 'push', 'push_str', 'take', 'replace_with_default',
                'chars', 'char_indices', 'next', 'peek', 'peekable', 'enumerate', 'reset', 'default', 'with_capacity', 'next_if', 'next_if_eq', 'by_ref', 'into_iter', 'iter', 'branch'}
    n = 0
    for b in bodies:
        defs = None
        for bb, t in b.calls():
            if (callee(t) or '').split('::')[-1] == 'insert' and t['aty'] and 'IndexMap<alloc::string::String' in t['aty'][0] and len(t['args']) > 1:
                defs = defs or Defs(b)
                n += 1
                q = op_place(t['args'][1])
                sl, _ = backward_slice(b, q['l'], defs) if q else ([], set())
                calls = {strip_generics(c) for c, _, _ in slice_calls(sl) if c}
                odd = sorted(c for c in calls if c.split('::')[-1] not in REVIEWED and not (c == 'core::mem::take' or c == 'core::mem::replace'))
                ctx.ob('C08.R9', 'name-as-written|bb%d' % bb, not odd, b.loc(bb, t),
                       'the key of parameters.insert(..) is built by %d call(s), all collecting / copying%s' % (len(calls), '' if not odd else ' EXCEPT %s: the name the checker compares is not the name the router binds' % odd))
    ctx.floor('C08.R9', 'parameter registrations in RoutePath::parse', n, 1)


def r10_checkers_see_the_current_sources(ctx):
    from .c10 import r4b_source_hash_covers_src
    r4b_source_hash_covers_src(ctx, 'C08.R10', 'shared with C10.R4b — every checker of the roster works on cached rustdoc JSON and annotations, never on the sources, so '
                               'a violation planted in a file the cache key does not cover is analysed as the program it was BEFORE the edit and accepted. ')


def r11_lookahead_is_consumed(ctx):
    ctx.rule('C08.R11', 'P1 must-pass-through in a hand-written lexer: `RoutePath::parse` (the template parser `verify_path_parameters` checks the fields of a '
             '`PathParams` struct against) decides escapes and the catch-all marker by looking one character ahead (`peek`). Whenever the peeked '
             'character MATCHES what was looked for (`{{`, `}}`, `{*`), it is consumed (`next` / `next_if` ..) before the loop reads its next '
             'character: otherwise the second brace of `{{id}}` is read again as the opening of a parameter, the check finds a field `id` "in the '
             'template", and the router — for which that segment is literal text — never fills it.')
    b0 = None
    for x in ctx.fb.bodies('pavexc'):
        if not x.is_promoted and x.nid == x.nroot and x.nid.endswith('analyses::route_path::RoutePath::parse'):
            b0 = x
    if not ctx.need('C08.R11', 'analyses::route_path::RoutePath::parse', b0):
        return
    b = b0
    defs = Defs(b)
    PEEKABLE = 'core::iter::adapters::peekable::Peekable'
    peeks = [(bb, t) for bb, t in b.calls() if strip_generics(callee(t) or '') == PEEKABLE + '::peek']
    consume = {bb for bb, t in b.calls() if (callee(t) or '').split('::')[-1] in ('next', 'next_if', 'next_if_eq', 'nth', 'advance_by') and t.get('aty') and 'Peekable<' in t['aty'][0]}
    if not peeks:
        ctx.ob('C08.R11', 'lookahead-consumed', True, b.loc(), 'RoutePath::parse does not peek: every decision consumes what it looks at', nontrivial=False)
        return
    n = 0
    for pb, pt in peeks:
        heads = [hb for hb in consume if b.dominates(hb, pb) and hb in b.reachable(b.succ(hb))]
        if not heads:
            continue
        head = sorted(heads)[0]
        d = pt['dest']['l']
        whole = forward_derived(b, {d}, defs)
        matched = []   # (switch block, matched target)
        for sb in b.reachable(b.succ(pb), avoid=[head]):
            w = b.term(sb)
            if not w or w['k'] != 'switch' or 'enum' in w:
                continue
            q = op_place(w['d'])
            if q is None:
                continue
            if q['l'] in whole and any(e.startswith('f:') for e in q.get('p', [])):
                # a switch on the peeked character itself: the explicit values are the characters looked for
                for v, tg in w['ts']:
                    matched.append((sb, tg, 'the peeked character is %r' % (chr(int(v)) if str(v).isdigit() and int(v) < 0x110000 else v)))
            else:
                # a bool computed from the peeked value by a predicate closure (`is_some_and(|c| c == X)`, `map_or(false, ..)`, `matches!`)
                sl, locs = backward_slice(b, q['l'], defs)
                if not (locs & whole) or q['l'] in whole:
                    continue
                preds = [nd for c, _, nd in slice_calls(sl) if (c or '').split('::')[-1] in ('is_some_and', 'map_or', 'is_ok_and', 'map', 'filter', 'eq')]
                if not preds:
                    continue
                eq = ne = False
                for cl in ctx.fb.bodies_of_item('pavexc', b.nroot):
                    if cl.nid == cl.nroot or cl.is_promoted:
                        continue
                    for _, _, st in cl.all_assigns():
                        if st['rv']['k'] == 'bin' and st['rv']['bop'] == 'Eq':
                            eq = True
                        if st['rv']['k'] == 'bin' and st['rv']['bop'] == 'Ne':
                            ne = True
                if any((callee(p) or '').endswith('::eq') for p in preds):
                    eq = True
                zero = [tg for v, tg in w['ts'] if v == '0']
                if eq and not ne:
                    matched.append((sb, w['else'], 'the predicate on the peeked character holds'))
                elif ne and not eq and zero:
                    matched.append((sb, zero[0], 'the predicate on the peeked character fails (a `!=` test)'))
        for sb, tg, what in matched:
            n += 1
            free = b.reachable(tg, avoid=(consume - {head}))
            ok = head not in free
            ctx.ob('C08.R11', 'lookahead-consumed|bb%d' % sb, ok, b.loc(sb),
                   'when %s, every path back to the read of the next character consumes it first: %s' % (what, ok))
    ctx.floor('C08.R11', 'matched-lookahead edges in RoutePath::parse', n, 1)


def r12_copy_and_clone_of_references_agree(ctx):
    from ..flow import promoted_strs
    from ..govern import governing_fields
    ctx.rule('C08.R12', 'P9 sibling agreement inside `traits::implements_trait`: `Copy` implies `Clone`, and a `&mut T` is neither. In every arm of the '
             'match on the type where the answer for `Copy` depends on the `is_mutable` flag of the type, the answer for `Clone` in the same arm '
             'depends on it as well (the comparison with CLONE_TRAIT_PATH is evaluated under the same mutability test). `!r.is_mutable && COPY || '
             'CLONE` parses as `(!r.is_mutable && COPY) || CLONE`: `&mut T` is then "Clone", a `clone_if_necessary` component of that type is accepted '
             'and the borrow checker resolves conflicts by cloning an exclusive reference.')
    b = ctx.fb.body('pavexc', 'pavexc::compiler::traits::implements_trait')
    if not ctx.need('C08.R12', 'pavexc::compiler::traits::implements_trait', b):
        return
    defs = Defs(b)
    sites = []   # (bb, trait, governed by is_mutable)
    for bb, t in b.calls():
        c = callee(t) or ''
        if not c.endswith('::eq') or len(t['args']) < 2 or not t.get('aty') or 'Vec<alloc::string::String>' not in t['aty'][0]:
            continue
        q = op_place(t['args'][1])
        strs = []
        if q is not None:
            for _, _, nd in defs.full.get(q['l'], []):
                rv = nd.get('rv')
                if rv and rv['k'] == 'ref':
                    for _, _, n2 in defs.full.get(rv['pl']['l'], []):
                        o = n2.get('rv', {}).get('op')
                        if o and o.get('promoted') is not None:
                            strs = promoted_strs(ctx.fb, b, int(o['promoted']))
        trait = 'Copy' if 'Copy' in strs else ('Clone' if 'Clone' in strs else None)
        if trait:
            sites.append((bb, trait, 'is_mutable' in governing_fields(b, bb, defs, fields={'is_mutable'})))
    sw = [(sb, w) for sb, w in enum_switches(b, 'rustdoc_ir::Type')]
    n = 0
    for sb, w in sw:
        arms = switch_arms(b, sb)
        for v, blocks in sorted(arms.items()):
            cp = [g for bb, tr, g in sites if bb in blocks and tr == 'Copy']
            cl = [(bb, g) for bb, tr, g in sites if bb in blocks and tr == 'Clone']
            if not cp or not cl or not any(cp):
                continue
            n += 1
            bad = [bb for bb, g in cl if not g]
            ctx.ob('C08.R12', 'copy-clone-agree|%s' % v, not bad, b.loc(bad[0]) if bad else b.loc(cl[0][0]),
                   'arm %s: the Copy answer depends on is_mutable; the Clone answer does too: %s' % (v, not bad))
    ctx.floor('C08.R12', 'arms of implements_trait whose Copy answer depends on is_mutable', n, 1)


def r13_checkers_see_the_policies_the_user_wrote(ctx):
    from .c19 import r13_reader_hands_on_what_it_parsed
    r13_reader_hands_on_what_it_parsed(ctx, 'C08.R13', 'shared with C19.R13 — the checkers (Clone for clone_if_necessary, lifecycles, unused components) only see what the attribute reader '
                                       'hands on. ')


def r14_an_exclusive_borrow_is_a_use(ctx):
    from ..tables import enum_switches, switch_edges
    ctx.rule('C08.R14', 'P5 on every discrimination of the call-graph edge kind (`CallGraphEdgeMetadata`: Move / SharedBorrow / ExclusiveBorrow / HappensBefore): an '
             'exclusive borrow is at least as much a use of the value as a shared borrow. No `match` / `matches!` in pavexc routes `ExclusiveBorrow` together with '
             'the ordering-only `HappensBefore` while it routes `SharedBorrow` elsewhere: a checker that walks "the consumers" of a node through such a test '
             '(the path-parameter checks walk the consumers of the extractor) never examines a component that takes `&mut T`, and accepts what it rejects for `&T`.')
    n = 0
    for b in ctx.fb.bodies('pavexc'):
        if b.is_promoted:
            continue
        for bb, t in enum_switches(b):
            if not strip_generics(t['enum']).endswith('call_graph::core_graph::CallGraphEdgeMetadata'):
                continue
            e = switch_edges(t)
            if not {'SharedBorrow', 'ExclusiveBorrow', 'HappensBefore'} <= set(e):
                continue
            n += 1
            bad = e['ExclusiveBorrow'] == e['HappensBefore'] and e['SharedBorrow'] != e['HappensBefore']
            ctx.ob('C08.R14', 'edge-kinds|%s|%s' % (b.nid.replace(PX, '').replace('pavexc::', ''), 'x'.join(
                '+'.join(sorted(v for v in e if e[v] == tg)) for tg in sorted(set(e.values())))), not bad, b.loc(bb),
                'variants grouped by successor: %s' % sorted(sorted(v for v in e if e[v] == tg) for tg in set(e.values())), nontrivial=bad)
    ctx.floor('C08.R14', 'discriminations of the edge kind', n, 8)


def check(ctx):
    r14_an_exclusive_borrow_is_a_use(ctx)
    r13_checkers_see_the_policies_the_user_wrote(ctx)
    r12_copy_and_clone_of_references_agree(ctx)
    r11_lookahead_is_consumed(ctx)
    r10_checkers_see_the_current_sources(ctx)
    r1_roster_on_the_way(ctx)
    r2_reports_errors(ctx)
    r3_gated(ctx)
    r6_whole_domain(ctx)
    r7_skip_conditions(ctx)
    r8_framework_item_lookup_is_exact(ctx)
    r9_template_names_unmodified(ctx)


CLAUSE += ' Also: `==` / `!=` in the skip conditions compare reviewed types only; no discrimination of the edge kind treats an exclusive borrow as ordering-only.'
