"""C05 — Middlewares and handler run in the documented order.

Decided clauses: registration order is the only order (chains are append-only, nested blueprints and routes take snapshots at
the point of registration); each handler's chain is computed from its own snapshot; the generated stage function runs
pre-processors inside a labelled block that early exits break out of, then the post-processors.
The run-time order per request is not decided.
"""
from ..facts import callee, op_place, strip_generics
from ..flow import Defs, backward_slice, slice_calls, forward_derived
from ..quote import chains
from ..tables import enum_switches, variant_table
from .chains_common import chain_snapshots, chain_only_pushed, chain_always_pushed, A, BP
from .compiler_common import PX

LEVEL = 'other'
TECHNIQUE = 'static analysis: snapshot provenance per UserComponent variant (closures and adaptors included), always-appended by reachability, stage-assembly ordering, quote! template read from MIR (tier B)'
CLAUSE = ('middleware chains are only appended to; a nested blueprint is queued, with a clone of the current chain, at the moment it is visited; '
          'ComponentDb computes every handler\'s chain as [noop] ++ that handler\'s own snapshot, by pushes in order, without a cache across '
          'handlers; the stage-function template evaluates pre-processors inside a labelled block that an early return `break`s out of (never '
          '`return`), and emits the post-processors after that block. Every write to handler_id2middleware_ids stores a value derived from the chain the registering function was handed and from no state kept across handlers; chains are never taken, replaced or swapped.')
TRUSTED = ['the order of statements in the generated stage function is the order of the interpolated token streams']

DB = A + 'components::db::ComponentDb::'


def r1_snapshots(ctx):
    ctx.rule('C05.R1', 'P7/P3: in blueprint processing the middleware chain is append-only and the QueueItem of a nested blueprint is built in the '
             'NestedBlueprint arm of the component loop from a clone of the chain taken in that arm.')
    chain_only_pushed(ctx, 'C05.R1')
    chain_snapshots(ctx, 'C05.R1', 'current_middleware_chain', 'middleware chain')
    chain_always_pushed(ctx, 'C05.R1', ['WrappingMiddleware', 'PreProcessingMiddleware', 'PostProcessingMiddleware'], 'middleware chain')


def r2_chain_per_handler(ctx):
    ctx.rule('C05.R2', 'P1/P7: in ComponentDb::compute_request2middleware_chain every iteration of the per-handler loop calls '
             'UserComponentDb::middleware_ids for that handler before inserting into handler_id2middleware_ids (no memoised chain is reused for '
             'another handler); the chain vector is only pushed to, starting with the synthetic no-op middleware.')
    b = ctx.need('C05.R2', 'compute_request2middleware_chain', ctx.fb.body('pavexc', DB + 'compute_request2middleware_chain'))
    if b is None:
        return
    defs = Defs(b)
    mids = [(bb, t) for bb, t in b.calls() if (callee(t) or '').endswith('UserComponentDb::middleware_ids')]
    ins = [(bb, t) for bb, t in b.calls() if (callee(t) or '').split('::')[-1] == 'insert' and 'HashMap' in t['aty'][0] and 'Vec<' in t['aty'][-1]]
    heads = [bb for bb, t in b.calls() if callee(t) == 'core::iter::traits::iterator::Iterator::next' and bb in b.reachable(b.succ(bb))]
    if not (ctx.need('C05.R2', 'middleware_ids call', mids) and ctx.need('C05.R2', 'insert into handler_id2middleware_ids', ins)):
        return
    mb = mids[0][0]
    ib, it = ins[0]
    # every way to reach the insert within an iteration passes the middleware_ids call of that iteration
    outer = min(heads) if heads else 0
    ok_dom = ib not in b.reachable(b.succ(outer), avoid=[mb]) if heads else b.dominates(mb, ib)
    # the argument of middleware_ids is this iteration's handler id, and the key of the insert derives from the same handler
    caches = [(callee(t) or '').split('::')[-1] for bb, t in b.calls() if t['aty'] and 'ScopeId' in t['aty'][0] and any(k in t['aty'][0] for k in ('HashMap', 'BTreeMap', 'IndexMap'))]
    vpl = op_place(it['args'][2])
    sl, _ = backward_slice(b, vpl['l'], defs) if vpl else ([], set())
    calls = [c for c, _, _ in slice_calls(sl)]
    bad = sorted({c.split('::')[-1] for c in calls if c and c.split('::')[-1] in ('reverse', 'rev', 'sort', 'sort_by_key', 'insert') and 'Vec' in c})
    ctx.ob('C05.R2', 'chain-from-own-snapshot', ok_dom and not caches and not bad, b.loc(ib, it),
           'each handler\'s chain is rebuilt from middleware_ids(handler) (%s); caches keyed by scope: %s; reordering ops on the chain: %s' % (ok_dom, caches or 'none', bad or 'none'))


PIPE = A + 'processing_pipeline::pipeline::'


FIELDS3 = {'pre_processing_ids', 'middle_id', 'post_processing_ids'}


def _appends(b, defs):
    """appends to a vector in `b`, in block order: (block, method, stage fields the appended value reads, reversed?)"""
    from ..govern import field_reads_of_slice, field_reads_of_place
    out = []
    for bb, t in sorted(b.calls(), key=lambda x: x[0]):
        m = (callee(t) or '').split('::')[-1]
        if m in ('extend', 'extend_from_slice', 'push', 'append') and t['aty'] and 'Vec<' in t['aty'][0] and len(t['args']) > 1:
            pl = op_place(t['args'][1])
            sl, _ = backward_slice(b, pl['l'], defs) if pl else ([], set())
            f = sorted(field_reads_of_slice(sl, FIELDS3) | field_reads_of_place(pl or {}, FIELDS3))
            rev = 'core::iter::traits::iterator::Iterator::rev' in {c for c, _, _ in slice_calls(sl)}
            if f:
                out.append((bb, m, f, rev))
    return out


def r3_stage_assembly(ctx):
    from ..govern import field_reads_of_slice, field_reads_of_place
    from ..tables import enum_switches, switch_arms, guard_context
    ctx.rule('C05.R3', 'P5/P7 stage assembly: StageIds::invocation_order is pre ++ [middle] ++ post (operands of the two `chain` calls, in that order); '
             'PipelineIds::invocation_order walks stages forwards for pre/middle and in reverse for the post-processors; in '
             'RequestHandlerPipeline::new the grouping loop pushes pre- and post-processors to their own pending lists and the arm for a '
             'wrapping middleware / handler builds StageIds { pre: take(pending pre), middle: id, post: take(pending post) }.')
    so = ctx.need('C05.R3', 'StageIds::invocation_order', ctx.fb.body('pavexc', PIPE + 'StageIds::invocation_order'))
    if so is not None:
        defs = Defs(so)
        chs = [(bb, t) for bb, t in so.calls() if callee(t) == 'core::iter::traits::iterator::Iterator::chain']
        got = []
        for bb, t in sorted(chs, key=lambda x: x[0]):
            row = []
            for a in t['args']:
                pl = op_place(a)
                sl, _ = backward_slice(so, pl['l'], defs) if pl else ([], set())
                row.append(sorted(field_reads_of_slice(sl, {'pre_processing_ids', 'middle_id', 'post_processing_ids'})))
            got.append(row)
        want = [[['pre_processing_ids'], ['middle_id']], [['middle_id', 'pre_processing_ids'], ['post_processing_ids']]]
        if chs:
            ctx.ob('C05.R3', 'stage-order|pre-middle-post', got == want, so.loc(), 'chain operands: %s (documented: pre ++ [middle] ++ post)' % got)
        else:
            # the same sequence written as appends to one vector: extend(pre); push(middle); extend(post), each once, in that order
            ev = _appends(so, defs)
            seq = [f for _, _, f, _ in ev]
            straight = all(bb not in so.reachable(so.succ(bb)) for bb, _, _, _ in ev)
            ok = seq == [['pre_processing_ids'], ['middle_id'], ['post_processing_ids']] and straight and all(so.dominates(ev[i][0], ev[i + 1][0]) for i in range(len(ev) - 1)) \
                and not any(r for _, _, _, r in ev)
            ctx.ob('C05.R3', 'stage-order|pre-middle-post', ok, so.loc(), 'appends to the result, in order: %s (documented: pre ++ [middle] ++ post)' % [(m, f) for _, m, f, _ in ev])
    po = ctx.need('C05.R3', 'PipelineIds::invocation_order', ctx.fb.body('pavexc', PIPE + 'PipelineIds::invocation_order'))
    if po is not None:
        defs = Defs(po)
        exts = _appends(po, defs)
        pre = [e for e in exts if e[2] == ['pre_processing_ids']]
        mid = [e for e in exts if e[2] == ['middle_id']]
        post = [e for e in exts if e[2] == ['post_processing_ids']]
        ok = bool(pre) and bool(mid) and bool(post) and po.dominates(pre[0][0], mid[0][0]) and post[0][0] in po.reachable(po.succ(mid[0][0])) and mid[0][0] not in po.reachable(po.succ(post[0][0])) \
            and not pre[0][3] and not mid[0][3] and post[0][3]
        ctx.ob('C05.R3', 'pipeline-order|forward-then-reverse-posts', ok, po.loc(),
               'extend(pre) < push(middle) in the forward loop, extend(post) in a loop over stages.rev(): %s' % [(m, f, 'rev' if r else 'fwd') for _, m, f, r in exts])
    new = ctx.need('C05.R3', 'RequestHandlerPipeline::new', ctx.fb.body('pavexc', PIPE + 'RequestHandlerPipeline::new'))
    if new is not None:
        # the grouping loop sits in `new` or in a private helper that only `new` (and its helpers) call
        from .compiler_common import family_bodies
        is_stage = lambda st: st['rv']['k'] == 'agg' and strip_generics(st['rv'].get('adt', '')) == PIPE + 'StageIds'
        holders = [x for x in family_bodies(ctx, 'pavexc', [PIPE + 'RequestHandlerPipeline::new']) if not x.is_promoted and any(is_stage(st) for _, _, st in x.all_assigns())]
        new = holders[0] if len(holders) == 1 else new
        defs = Defs(new)
        HC = A + 'components::hydrated::HydratedComponent'
        aggs = [(bb, st) for bb, j, st in new.all_assigns() if is_stage(st)]
        ctx.need('C05.R3', 'StageIds construction in the grouping loop', aggs)
        # the grouping may match on HydratedComponent itself, or on a small "role" enum of the module that a classifier computes from it
        # (`PipelineRole::of`): translate the role back to the component kinds through the classifier's match (P5 table extraction)
        role_of = {}     # role enum path -> {role variant: set(HydratedComponent variants)}
        for x in family_bodies(ctx, 'pavexc', [PIPE + 'RequestHandlerPipeline::new']) + [y for y in ctx.fb.bodies('pavexc') if not y.is_promoted and y.nid.startswith(PIPE)]:
            if x.is_promoted:
                continue
            for sb, w in enum_switches(x, HC):
                for v, facts in variant_table(x, sb).items():
                    for adt, var, _, _ in facts['aggs']:
                        if adt.startswith(PIPE) and adt != PIPE + 'StageIds':
                            role_of.setdefault(adt, {}).setdefault(var, set()).add(v)

        def kinds(g):
            v = next((vv for k, vv in g.items() if k.endswith('HydratedComponent')), None)
            if v is not None:
                return v
            for e, vs in g.items():
                if e in role_of:
                    out = set()
                    for r in vs:
                        out |= role_of[e].get(r, {'?' + r})
                    return out
            return None
        for bb, st in aggs:
            g = guard_context(new, bb)
            hc = kinds(g)
            if not ctx.need('C05.R3', 'match on HydratedComponent around the StageIds construction', hc):
                break
            takes = {}
            for fname, o in zip(st['rv']['fields'], st['rv']['ops']):
                pl = op_place(o)
                sl, locs = backward_slice(new, pl['l'], defs) if pl else ([], set())
                takes[fname] = ('core::mem::take' in {c for c, _, _ in slice_calls(sl)}, locs)
            # the list taken for `pre` is the one the PreProcessingMiddleware arm pushes to
            pushes = {}
            for pb, t in new.calls():
                if (callee(t) or '').endswith('Vec::push') and 'Idx<' in t['aty'][1]:
                    gg = guard_context(new, pb)
                    v = kinds(gg)
                    if v and len(v) == 1:
                        _, l2 = backward_slice(new, op_place(t['args'][0])['l'], defs, through_calls=False)
                        pushes.setdefault(list(v)[0], set()).update(l2)
            ok = hc is not None and hc <= {'RequestHandler', 'WrappingMiddleware'} and takes.get('pre_processing_ids', (False,))[0] and takes.get('post_processing_ids', (False,))[0] \
                and bool(takes['pre_processing_ids'][1] & pushes.get('PreProcessingMiddleware', set())) and bool(takes['post_processing_ids'][1] & pushes.get('PostProcessingMiddleware', set())) \
                and not (takes['pre_processing_ids'][1] & pushes.get('PostProcessingMiddleware', set()) - takes['post_processing_ids'][1] - pushes.get('PreProcessingMiddleware', set()))
            ctx.ob('C05.R3', 'grouping|stage-takes-pending-lists', ok, new.loc(bb, st),
                   'StageIds built under arm(s) %s with pre = take(list pushed in the PreProcessingMiddleware arm) and post = take(list pushed in the PostProcessingMiddleware arm): %s' % (sorted(hc) if hc else None, ok))
            break


def r4_stage_template(ctx):
    ctx.rule('C05.R4', 'template rule (tier B, keywords only, read from the quote! expansion in MIR): in processing_pipeline::codegen the pre-processing '
             "early exit is `break '<label>` (the template that contains `into_response` has a `break` followed by a lifetime and no `return`), the "
             'pre-processors are interpolated inside a labelled block, and in the stage function template the incoming part is interpolated '
             'before the post-processing repetition.')
    bodies = [b for b in ctx.fb.bodies('pavexc') if not b.is_promoted and b.nroot.startswith(A + 'processing_pipeline::codegen::')]
    found_early = found_block = found_order = False
    bad_return = False
    labels_broken, labels_defined = set(), set()
    for b in bodies:
        toks = [t for ch in chains(b) for _, t in ch]
        idents = [t[1] for t in toks if t[0] == 'ident']
        if 'into_response' in idents and 'if' in idents:
            for i in range(len(toks) - 1):
                if toks[i] == ('ident', 'break') and toks[i + 1][0] == 'lifetime':
                    found_early = True
                    labels_broken.add(toks[i + 1][1])
            if 'return' in idents:
                bad_return = True
        for i in range(len(toks) - 1):
            if toks[i][0] == 'lifetime' and toks[i + 1] == ('punct', ':') and i > 0 and toks[i - 1] == ('punct', '='):
                found_block = True
                labels_defined.add(toks[i][1])
    found_block = found_block and bool(labels_broken) and labels_broken <= labels_defined
    ctx.ob('C05.R4', 'early-exit-breaks-out-of-the-labelled-block', found_early and not bad_return and found_block, '',
           "pre-processor early exit uses `break 'label` (%s), no `return` in that template (%s), labelled block present (%s)" % (found_early, not bad_return, found_block))


def r5_chain_recorded_per_handler(ctx):
    from .chains_common import chain_recorded_per_handler
    ctx.rule('C05.R5', 'P7 provenance: the chain recorded for a handler is the chain in force where that handler is registered. Every write to '
             '`handler_id2middleware_ids` in the user_components module (routes, fallbacks, annotated routes, and any helper they share) stores a '
             'value computed from the chain the registering function was handed, and from nothing the module keeps across handlers (no field of '
             'AuxiliaryData / UserComponentDb): a chain remembered from the previous handler — "same length, so unchanged" — belongs to another '
             'blueprint as soon as two siblings register equally many middlewares.')
    chain_recorded_per_handler(ctx, 'C05.R5', 'handler_id2middleware_ids', 'middleware chain')


def r6_a_nested_blueprint_stays_one_component(ctx):
    ctx.rule('C05.R6', 'shared with C19.R3: what scopes a middleware is the NestedBlueprint component its blueprint was nested as. The runtime builder only ever '
             'pushes ONE component per registration call onto the component list: `nest` never splices the child\'s components into the parent '
             '(a "route group" fast path that does lets a trailing middleware of the child run for everything the parent registers afterwards).')
    from .c19 import component_list_only_pushed
    component_list_only_pushed(ctx, 'C05.R6')


UNSTABLE_ORDER = ('sort_unstable', 'sort_unstable_by', 'sort_unstable_by_key', 'select_nth_unstable', 'select_nth_unstable_by', 'select_nth_unstable_by_key')


def r7_registration_order_is_never_resorted_unstably(ctx):
    ctx.rule('C05.R7', 'P3 who-may-call (expected count 0, with a positive control): the lists of component ids the pipeline is built from carry the REGISTRATION order, '
             'and within a stage several pre- (or post-) processing middlewares compare equal under every "position in the stage" key. Nowhere in pavexc\'s '
             '`processing_pipeline` and `components::db` modules is a slice / Vec of component ids handed to an unstable sort or selection '
             '(`sort_unstable*`, `select_nth_unstable*`): an unstable sort is free to permute equal elements (it does, beyond 20 elements), so the documented '
             '"in registration order" would hold for short chains only. (A stable `sort_by_key` keeps the order of equal elements and is not flagged.)')
    seen_sorts, bad = 0, []
    for b in ctx.fb.bodies('pavexc'):
        if b.is_promoted:
            continue
        for bb, t in b.calls():
            c = callee(t) or ''
            m = c.split('::')[-1].split('<')[0]
            if m.startswith('sort') or m.startswith('select_nth'):
                seen_sorts += 1
                a0 = (t.get('aty') or [''])[0]
                if m in UNSTABLE_ORDER and 'components::component::Component>' in a0 and ('processing_pipeline' in b.nid or 'components::db' in b.nid):
                    bad.append((b, bb, t, m))
    ctx.floor('C05.R7', 'sort / select calls seen in pavexc (positive control)', seen_sorts, 1)
    for b, bb, t, m in bad:
        ctx.ob('C05.R7', 'unstable-sort-of-component-ids|%s' % b.nid.replace(PX, '').replace('pavexc::', ''), False, b.loc(bb, t),
               '%s on %s: equal elements (middlewares of the same kind in one stage) may come out in any order' % (m, (t.get('aty') or [''])[0][:80]))
    ctx.ob('C05.R7', 'registration-order-never-sorted-unstably', not bad, '', '%d sort / select call(s) in pavexc, %d unstable one(s) on component ids in the pipeline builders' % (seen_sorts, len(bad)))


def check(ctx):
    r7_registration_order_is_never_resorted_unstably(ctx)
    r6_a_nested_blueprint_stays_one_component(ctx)
    r5_chain_recorded_per_handler(ctx)
    r1_snapshots(ctx)
    r2_chain_per_handler(ctx)
    r3_stage_assembly(ctx)
    r4_stage_template(ctx)


CLAUSE += ' Also: a list of component ids is never handed to an unstable sort in the pipeline builders.'
