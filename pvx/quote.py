"""Reading `quote!` expansions from MIR: straight-line chains of quote::__private::push_* / ToTokens::to_tokens calls."""
from .facts import callee, op_place
from .flow import backward_slice, slice_consts


def _str_arg(body, t):
    for a in t['args']:
        if 'str' in a:
            return a['str']
    for a in t['args'][1:]:
        pl = op_place(a)
        if pl is not None:
            sl, _ = backward_slice(body, pl['l'], through_calls=False)
            ss = [v for k, v, _, _ in slice_consts(sl) if k == 'str']
            if len(ss) == 1:
                return ss[0]
    return None

PUNCT = {'push_eq': '=', 'push_comma': ',', 'push_colon2': '::', 'push_pound': '#', 'push_fat_arrow': '=>', 'push_colon': ':',
         'push_semi': ';', 'push_dot': '.', 'push_and': '&', 'push_lt': '<', 'push_gt': '>', 'push_rarrow': '->', 'push_bang': '!',
         'push_underscore': '_', 'push_star': '*', 'push_question': '?', 'push_or': '|', 'push_add': '+', 'push_sub': '-'}


def is_quote_call(t):
    c = callee(t) or ''
    return c.startswith('quote::__private::push_') or c == 'quote::to_tokens::ToTokens::to_tokens' or c == 'quote::__private::parse'


def token_of(body, t):
    """('ident', s) | ('punct', s) | ('interp', local, type) | ('group', delim) | ('lit', s) | ('other', name)"""
    c = callee(t)
    name = c.split('::')[-1]
    if c == 'quote::to_tokens::ToTokens::to_tokens':
        pl = op_place(t['args'][0])
        return ('interp', pl['l'] if pl else None, t['aty'][0])
    if name in ('push_ident', 'push_ident_spanned'):
        return ('ident', _str_arg(body, t))
    if name in PUNCT:
        return ('punct', PUNCT[name])
    if name.replace('_spanned', '') in PUNCT:
        return ('punct', PUNCT[name.replace('_spanned', '')])
    if name in ('push_group', 'push_group_spanned'):
        return ('group', None)
    if name in ('parse', 'parse_spanned'):
        return ('lit', _str_arg(body, t))
    if name == 'push_lifetime':
        return ('lifetime', _str_arg(body, t))
    return ('other', name)


def chains(body):
    """maximal straight-line chains [(bb, token)] of quote calls (each call's normal target is the next call)"""
    qb = {bb: t for bb, t in body.calls() if is_quote_call(t)}
    nxt = {}
    has_pred = set()
    for bb, t in qb.items():
        tg = t.get('t')
        # skip over trivial goto / drop blocks
        hops = 0
        while tg is not None and tg not in qb and hops < 4:
            tt = body.term(tg)
            if tt and tt['k'] in ('goto', 'drop') and not body.stmts(tg) or (tt and tt['k'] in ('goto', 'drop')):
                tg = tt['t']
                hops += 1
            else:
                break
        if tg in qb:
            nxt[bb] = tg
            has_pred.add(tg)
    out = []
    for bb in sorted(qb):
        if bb in has_pred:
            continue
        ch = []
        cur = bb
        seen = set()
        while cur is not None and cur not in seen:
            seen.add(cur)
            ch.append((cur, token_of(body, qb[cur])))
            cur = nxt.get(cur)
        out.append(ch)
    return out


def keys_in_chain(ch):
    """[(bb, ident)] for idents immediately followed by `=`"""
    out = []
    for i in range(len(ch) - 1):
        if ch[i][1][0] == 'ident' and ch[i + 1][1] == ('punct', '='):
            out.append((ch[i][0], ch[i][1][1]))
    return out
