"""C20 — Domain guards accept exactly the hosts the documentation says.

Decided clauses: a DomainGuard exists only after validation; the validator splits the unmodified input; the compile-time
conflict check and the generated router are fed by the same pattern function over all registered guards and any insert
error is reported; guard-side and host-side normalisation use the same string transformations.
Language equivalence of the validator / matching semantics is not decided.
"""
from ..facts import callee, op_place, strip_generics
from ..flow import Defs, backward_slice, slice_calls, forward_derived
from ..govern import field_reads_of_slice, field_reads_of_place
from ..quote import chains

LEVEL = 'other'
TECHNIQUE = 'static analysis: who-may-construct + dominance (validated constructor), provenance of labels and patterns, case evaluation of conflict reporting (flag/counter/early return), normalisation classes guard-side vs generated host-side (tier B), identifier oracle provenance, numbering agreement'
CLAUSE = ('DomainGuard values are built only by DomainGuard::new after validate()? succeeded; validate() splits the input it was given, '
          'unmodified, into labels; detect_domain_conflicts inserts matchit_pattern() of every registered guard, with no filter, and any '
          'insert error yields Err; the generated router is initialised from the same matchit_pattern(); the normalising string '
          'operations applied to a guard equal those the generated code applies to the Host header. The domain guard string is stored by the runtime builder through identity conversions only.')
TRUSTED = ['matchit reports every pair of patterns that can match the same path as a Conflict', 'str::split / trim_end_matches semantics']

CR = 'pavexc'
DG = 'pavexc::compiler::analyses::domain::DomainGuard'
VALIDATE = 'pavexc::compiler::analyses::domain::validate'
PATTERN = DG + '::matchit_pattern'
# normalising str methods, by what they do to the value (two spellings of the same normalisation are the same normalisation:
# `trim_end_matches('.')` and `strip_suffix('.')` agree on validated guards, which have at most one trailing dot)
NORMALISER_CLASS = {
    'trim_end_matches': 'strip-trailing', 'strip_suffix': 'strip-trailing', 'trim_end': 'strip-trailing',
    'trim_start_matches': 'strip-leading', 'strip_prefix': 'strip-leading', 'trim_start': 'strip-leading',
    'trim_matches': 'strip-both', 'trim': 'strip-both',
    'to_lowercase': 'fold-lower', 'to_ascii_lowercase': 'fold-lower', 'make_ascii_lowercase': 'fold-lower',
    'to_uppercase': 'fold-upper', 'to_ascii_uppercase': 'fold-upper', 'make_ascii_uppercase': 'fold-upper',
}
NORMALISERS = set(NORMALISER_CLASS)
# ways of walking a string / its labels back to front
REVERSERS = {'rev', 'rsplit', 'rsplitn', 'rsplit_terminator', 'rsplit_once', 'next_back', 'reverse', 'rfind', 'rmatch_indices', 'rmatches'}


def r1_validated_constructor(ctx):
    ctx.rule('C20.R1', 'P3/P1: DomainGuard{..} is constructed only in DomainGuard::new (and derived impls), in a block dominated by `validate(..)?`; '
             'P7: validate() applies str::split to its input parameter itself (no trimming / rewriting call in between), and drops at most one '
             'trailing label.')
    n = 0
    for b in ctx.fb.bodies(CR):
        if b.is_promoted:
            continue
        for bb, j, st in b.all_assigns():
            rv = st['rv']
            if rv['k'] == 'agg' and rv.get('ak') == 'adt' and strip_generics(rv['adt']) == DG:
                n += 1
                derived = b.raw.get('impl_trait') in ('core::clone::Clone',)
                ok = derived
                if b.nroot == DG + '::new':
                    v = [vb for vb, t in b.calls() if callee(t) == VALIDATE]
                    tr = [tb for tb, t in b.calls() if callee(t) == 'core::ops::try_trait::Try::branch']
                    ok = bool(v) and b.dominates(v[0], bb) and any(b.dominates(v[0], x) and b.dominates(x, bb) for x in tr)
                ctx.ob('C20.R1', 'constructor|%s' % b.nroot.replace('pavexc::compiler::analyses::', ''), ok, b.loc(bb, st),
                       'DomainGuard constructed in %s%s' % (b.nroot, ' after validate()?' if ok and not derived else ''))
    ctx.floor('C20.R1', 'DomainGuard construction sites', n, 1)
    # what is validated is what the user wrote: the constructor hands its own parameter to validate(), untouched (validate itself decides how
    # many trailing dots are tolerated; a constructor that trims first makes `example.com..` valid)
    nb_ = ctx.need('C20.R1', 'DomainGuard::new', ctx.fb.body(CR, DG + '::new'))
    if nb_ is not None:
        defs_n = Defs(nb_)
        vs = [(vb, t) for vb, t in nb_.calls() if callee(t) == VALIDATE]
        for vb, t in vs:
            q = op_place(t['args'][0])
            sl, locs = backward_slice(nb_, q['l'], defs_n) if q else ([], set())
            PASS_ = {'deref', 'as_str', 'as_ref', 'borrow', 'as_mut_str', 'deref_mut'}
            odd = sorted(c for c, _, _ in slice_calls(sl) if c and c.split('::')[-1] not in PASS_)
            # .. and nothing has been allowed to change the parameter before: no call that receives `&mut` of it on the way to validate()
            before = nb_.reachable_from_entry(avoid=[vb]) | {0}
            mutators = []
            for mb, mt in nb_.calls():
                if mb == vb or mb not in before or vb not in nb_.reachable([mb]):
                    continue
                for a_ in mt['args']:
                    qa = op_place(a_)
                    if qa is None:
                        continue
                    s2, l2 = backward_slice(nb_, qa['l'], defs_n, through_calls=False)
                    if any(nd.get('rv', {}).get('k') == 'ref' and nd['rv'].get('bk') in ('mut', 'two_phase', 'mutable') and (nd['rv']['pl']['l'] in locs or nd['rv']['pl']['l'] == 1) for _, _, nd in s2 if 'rv' in nd):
                        mutators.append(callee(mt) or '?')
            ok = 1 in locs and not odd and not mutators
            ctx.ob('C20.R1', 'validates-what-the-user-wrote', ok, nb_.loc(vb, t),
                   'validate() receives the constructor\'s parameter (%s) through %s; calls that may have changed it before: %s' % (1 in locs, odd or 'accessors only', sorted(set(mutators)) or 'none'))
    v = ctx.need('C20.R1', 'validate', ctx.fb.body(CR, VALIDATE))
    if v is not None:
        defs = Defs(v)
        sp = [(bb, t) for bb, t in v.calls() if callee(t) == 'core::str::{impl str}::split']
        if ctx.need('C20.R1', 'str::split in validate', sp):
            bb, t = sp[0]
            pl = op_place(t['args'][0])
            sl, locs = backward_slice(v, pl['l'], defs)
            calls = [c for c, _, _ in slice_calls(sl)]
            # dropping ONE trailing separator (`strip_suffix('.')`, falling back to the input) is the same as dropping the one empty trailing
            # label; anything that can drop or rewrite more (trim*, replace, to_lowercase, ..) is not
            ONE_DOT = {'core::str::{impl str}::strip_suffix', 'core::option::Option::unwrap_or', 'core::option::Option::unwrap_or_else',
                       'core::option::Option::map_or', 'core::option::Option::unwrap_or_default'}
            calls = [c for c in calls if c not in ONE_DOT]
            ok = 1 in locs and not calls
            ctx.ob('C20.R1', 'labels-of-unmodified-input', ok, v.loc(bb, t),
                   'validate() splits its own parameter (derives from _1: %s) with no call in between: %s' % (1 in locs, calls or 'none'))
        nb = [bb for bb, t in v.calls() if callee(t) == 'core::iter::traits::double_ended::DoubleEndedIterator::next_back']
        in_loop = [x for x in nb if x in v.reachable(v.succ(x))]
        ctx.ob('C20.R1', 'at-most-one-trailing-label-dropped', len(nb) <= 1 and not in_loop, v.loc(nb[0]) if nb else v.loc(),
               'next_back() (dropping the empty label after one trailing dot) is called at most once, outside any loop: %d call(s)' % len(nb))


def r2_one_pattern_source(ctx):
    ctx.rule('C20.R2', 'P3/P1: matchit_pattern() is consumed by detect_domain_conflicts and by the router code generator (and nobody else); '
             'detect_domain_conflicts iterates the full registry (AuxiliaryData.domain_guard2locations), every iteration reaches Router::insert '
             '(no filter), the Err arm of insert sets the error flag and Ok(()) is returned only when the flag is clear.')
    users = {}
    for b in ctx.fb.bodies(CR):
        if b.is_promoted:
            continue
        for bb, t in b.calls():
            if callee(t) == PATTERN:
                users.setdefault(b.nroot, []).append((b, bb))
    want = {'pavexc::compiler::analyses::user_components::router::DomainRouter::detect_domain_conflicts',
            'pavexc::compiler::codegen::router::domain_router_init'}
    for u in sorted(set(users) | want):
        ctx.ob('C20.R2', 'pattern-consumer|%s' % u.split('::')[-1], u in users and u in want, users[u][0][0].loc(users[u][0][1]) if u in users else '',
               'matchit_pattern() %s' % ('consumed by ' + u if u in users else 'NOT consumed by ' + u))
    det = ctx.need('C20.R2', 'detect_domain_conflicts', ctx.fb.body(CR, 'pavexc::compiler::analyses::user_components::router::DomainRouter::detect_domain_conflicts'))
    if det is None:
        return
    defs = Defs(det)
    heads = [(bb, t) for bb, t in det.calls() if callee(t) == 'core::iter::traits::iterator::Iterator::next']
    ins = [(bb, t) for bb, t in det.calls() if callee(t) == 'matchit::router::Router::insert']
    if not (ctx.need('C20.R2', 'loop in detect_domain_conflicts', heads) and ctx.need('C20.R2', 'Router::insert in detect_domain_conflicts', ins)):
        return
    hb, ht = heads[0]
    pl = op_place(ht['args'][0])
    sl, _ = backward_slice(det, pl['l'], defs)
    reads = field_reads_of_slice(sl)
    filt = sorted(c for c, _, _ in slice_calls(sl) if c and any(x in c for x in ('::filter', '::skip', '::take', '::step_by')))
    ctx.ob('C20.R2', 'iterates-whole-registry', 'domain_guard2locations' in reads and not filt, det.loc(hb, ht),
           'the loop iterates %s; iterator adaptors that drop items: %s' % (sorted(reads), filt or 'none'))
    ib = ins[0][0]
    # from the Some edge of next(), every path back to the loop head passes through insert
    some_t = []
    der = forward_derived(det, {ht['dest']['l']})
    for sb in det.live_blocks():
        w = det.term(sb)
        if w and w['k'] == 'switch' and strip_generics(w.get('enum', '')) == 'core::option::Option' and w['src']['l'] in der:
            some_t += [tg for n_, tg in w['ts'] if n_ == 'Some']
    bad = [s for s in some_t if hb in det.reachable(s, avoid=[ib]) and s != ib]
    ctx.ob('C20.R2', 'no-filter-before-insert', bool(some_t) and not bad, det.loc(ib),
           'every iteration inserts the guard\'s pattern into the trial router before going on')
    # inserted value derives from matchit_pattern
    ipl = op_place(ins[0][1]['args'][1])
    isl, _ = backward_slice(det, ipl['l'], defs)
    ctx.ob('C20.R2', 'inserts-the-pattern', PATTERN in {c for c, _, _ in slice_calls(isl)}, det.loc(ib), 'the inserted route is matchit_pattern() of the guard')
    # nothing is declared conflict-free before every guard was examined: an Ok result is only produced after the loop
    oks = [bb for bb, j, st in det.all_assigns() if st['rv']['k'] == 'agg' and st['rv'].get('var') == 'Ok'
           and strip_generics(st['rv'].get('adt', '')) == 'core::result::Result']
    early = [o for o in oks if not det.dominates(hb, o)]
    ctx.ob('C20.R2', 'ok-only-after-every-guard-was-examined', bool(oks) and not early, det.loc(early[0]) if early else det.loc(hb),
           'Ok(()) is produced only after the loop over the guards: %s (an early `return Ok(())` skips the overlap check for the inputs it covers)' % (not early))
    # P11 case evaluation: the function interpreted with Router::insert reporting a conflict (always / once, then accepting): whatever
    # the bookkeeping (flag, counter, early return), every path on which a conflict was reported returns Err
    from ..absint_std import StdSem, TagInterp

    class Sem(StdSem):
        crate = CR

        def __init__(self, fb, script):
            super().__init__(fb)
            self.script = script

        def domain_call(self, interp, path, body, bb, term, short):
            d = term.get('dest')
            if short == 'matchit::router::Router::insert' and d is not None and not d.get('p'):
                dk = (body.id, d['l'])
                n = path.env.get('inserts', 0)
                err = self.script == 'always' or (self.script == 'first' and n == 0)
                path.env['inserts'] = min(n + 1, 2)
                if err:
                    path.env['conflict'] = True
                path.alias.pop(dk, None)
                path.memo.pop(dk, None)
                path.tags[dk] = 'res:Err' if err else 'res:Ok'
                return [('next', path)]
            return None

        def descend_into(self, short):
            return False

    bad, seen_conflict = [], 0
    for script in ('always', 'first'):
        outs = TagInterp(Sem(ctx.fb, script)).run(det, {})
        for oc in outs:
            if oc[0] == 'return' and oc[1].env.get('conflict'):
                seen_conflict += 1
                if oc[1].tags.get((det.id, 0)) != 'res:Err':
                    bad.append((script, oc[1].tags.get((det.id, 0))))
    ctx.ob('C20.R2', 'conflict-yields-error', seen_conflict > 0 and not bad, det.loc(ib),
           'detect_domain_conflicts interpreted with insert() reporting a conflict (every time / the first time only): %d returning path(s) saw a '
           'conflict, %d of them do not return Err%s' % (seen_conflict, len(bad), '' if not bad else ' %s' % bad[:3]))


def r3_normalisation_agreement(ctx):
    ctx.rule('C20.R3', 'P9 (tier B, template rule over keywords only): the set of normalising str methods (trim*/strip*/case folding) applied to the '
             'guard in DomainGuard::new and DomainGuard::matchit_pattern equals the set the generated router applies to the Host header (quote! template read from MIR); both '
             'sides replace "." by "/" and reverse.')
    new = ctx.need('C20.R3', 'DomainGuard::new', ctx.fb.body(CR, DG + '::new'))
    guard_side = set()
    # everything between the user's string and the pattern handed to matchit: the constructor and matchit_pattern (with closures)
    from ..inline import inlined, closures_of
    guard_bodies = []
    for it in (DG + '::new', PATTERN):
        gb0 = ctx.fb.body(CR, it)
        if gb0 is not None:
            gi = inlined(ctx.fb, gb0, keep={VALIDATE})
            guard_bodies += [gi] + closures_of(ctx.fb, gi)
    for gb in guard_bodies:
        for bb, t in gb.calls():
            m = (callee(t) or '').split('::')[-1]
            if m in NORMALISERS:
                guard_side.add(NORMALISER_CLASS[m])
    host_side = set()
    found = False
    by_item = {}
    for b in ctx.fb.bodies(CR):
        if b.is_promoted or not b.nid.startswith('pavexc::compiler::codegen::router'):
            continue
        for ch in chains(b):
            by_item.setdefault(b.nroot, []).extend(t[1] for _, t in ch if t[0] == 'ident')
    for item, idents in by_item.items():
        if 'host' in idents and 'rev' in idents and 'Authority' in idents:
            found = True
            host_side |= {NORMALISER_CLASS[i] for i in idents if i in NORMALISERS}
            ctx.ob('C20.R3', 'host-reversed', 'rev' in idents and 'replace' in idents, '',
                   'the generated Host normalisation (%s) replaces separators and reverses: %s' % (item.split('::')[-1], [i for i in idents if i in ('replace', 'chars', 'rev', 'collect')]))
    ctx.need('C20.R3', 'Host normalisation template in codegen::router', found)
    ctx.ob('C20.R3', 'same-normalisers', guard_side == host_side, new.loc() if new is not None else '',
           'guard side applies %s; generated host side applies %s' % (sorted(guard_side), sorted(host_side)))
    pat = ctx.fb.body(CR, PATTERN)
    if ctx.need('C20.R3', 'matchit_pattern', pat) is not None:
        from ..inline import inlined, closures_of
        ipat = inlined(ctx.fb, pat)
        rev = [1 for x in [ipat] + closures_of(ctx.fb, ipat) for bb, t in x.calls() if (callee(t) or '').split('::')[-1] in REVERSERS]
        ctx.ob('C20.R3', 'guard-reversed', bool(rev), pat.loc(), 'matchit_pattern() walks the guard in reverse: %s' % bool(rev), nontrivial=False)


def r4_identifier_oracle(ctx):
    ctx.rule('C20.R4', 'P7/P1: a `{parameter}` name becomes a Rust identifier in the generated code, so what is a valid name is decided by the Rust '
             'grammar itself: every construction of InvalidDomainConstraint::InvalidParameterName in validate() (private helpers inlined) is governed by '
             'the outcome of syn::parse_str::<syn::Ident>, the parser the code generator itself uses. A hand-written scanner is not checked against '
             'keywords (`type`, `fn`, `self`, ..) or `_`.')
    from ..inline import inlined, closures_of
    from ..govern import controlling_switches
    v = ctx.need('C20.R4', 'validate', ctx.fb.body(CR, VALIDATE))
    if v is None:
        return
    v = inlined(ctx.fb, v)
    n = 0
    for x in [v] + closures_of(ctx.fb, v):
        defs = Defs(x)
        for bb, j, st in x.all_assigns():
            rv = st['rv']
            if rv['k'] != 'agg' or rv.get('var') != 'InvalidParameterName' or not strip_generics(rv.get('adt', '')).endswith('InvalidDomainConstraint'):
                continue
            n += 1
            oracle = False
            for sb, w in controlling_switches(x, bb):
                l = w['src']['l'] if 'src' in w else (op_place(w['d'])['l'] if op_place(w.get('d')) else None)
                if l is None:
                    continue
                sl, _ = backward_slice(x, l, defs)
                for c, _, nd in slice_calls(sl):
                    if c == 'syn::parse_str' and any('Ident' in g for g in nd.get('ga', [])):
                        oracle = True
            ctx.ob('C20.R4', 'parameter-names-parsed-by-syn', oracle, x.loc(bb, st),
                   'InvalidParameterName is reported on the outcome of syn::parse_str::<Ident>: %s' % oracle)
    ctx.floor('C20.R4', 'constructions of InvalidParameterName', n, 1)


def r5_one_numbering(ctx):
    ctx.rule('C20.R5', 'P9 sibling agreement: the generated router refers to a domain by a number in three places (the fields / methods `domain_<i>`, the '
             'dispatch arms, and the `router.insert(pattern, i)` statements of domain_router()). Every one of them numbers the domains with '
             '`enumerate()` applied directly to an iteration of the same BTreeMap<DomainGuard, _> (keys / values / iter): no partition, sort, '
             'filter, chain or rev in between — a reordering on one side registers a pattern under another domain\'s id.')
    DIRECT = {'keys', 'values', 'iter', 'into_iter', 'clone', 'deref', 'as_ref', 'borrow', 'into_keys', 'into_values'}
    n = 0
    for b in ctx.fb.bodies(CR):
        if b.is_promoted or 'codegen::router' not in b.nid:
            continue
        defs = Defs(b)
        for bb, t in b.calls():
            if callee(t) != 'core::iter::traits::iterator::Iterator::enumerate':
                continue
            sl, _ = backward_slice(b, op_place(t['args'][0])['l'], defs)
            calls = [(c, nd) for c, _, nd in slice_calls(sl) if c]
            if not any('BTreeMap<' in (nd['aty'][0] if nd['aty'] else '') and 'DomainGuard' in nd['aty'][0] for c, nd in calls):
                continue
            n += 1
            other = sorted({c.split('::')[-2] + '::' + c.split('::')[-1] for c, nd in calls if c.split('::')[-1] not in DIRECT})
            ctx.ob('C20.R5', 'numbered-in-map-order|%s' % b.nid.replace('pavexc::compiler::codegen::', ''), not other, b.loc(bb, t),
                   'enumerate() is applied to the map iteration %s' % ('directly' if not other else 'after %s: the numbers no longer follow the order of the map' % other))
    ctx.floor('C20.R5', 'places that number the domains', n, 2)


def r6_boundary_checks_look_at_the_boundary(ctx):
    ctx.rule('C20.R6', 'P12 decision audit: in validate() whether a label is rejected for its first / last character (DnsLabelViolations::InvalidStart / '
             'InvalidEnd) is decided by that character alone: every boolean condition that governs the construction of the violation inside the '
             'per-label code derives from `label.chars().next()` / `.last()`. A label-level flag ("this label has a parameter") among them exempts '
             'the literal part of a templated label — `{sub}-.example.com` would be accepted although no host name can match it.')
    from ..inline import inlined, closures_of
    from ..govern import controlling_switches
    v = ctx.need('C20.R6', 'validate', ctx.fb.body(CR, VALIDATE))
    if v is None:
        return
    # judged in the function that holds the check (validate itself, or the per-label helper it was split into): `?` at the call site of a
    # helper would make its error returns look like ways to go on
    from .compiler_common import family_bodies
    n = 0
    for x in [y for y in family_bodies(ctx, CR, [VALIDATE]) if not y.is_promoted]:
        defs = Defs(x)
        for bb, j, st in x.all_assigns():
            rv = st['rv']
            if rv['k'] != 'agg' or rv.get('var') not in ('InvalidStart', 'InvalidEnd') or not strip_generics(rv.get('adt', '')).endswith('DnsLabelViolations'):
                continue
            n += 1
            want = {'InvalidStart': ('next', 'nth', 'first', 'starts_with'), 'InvalidEnd': ('last', 'next_back', 'ends_with')}[rv['var']]
            foreign = []
            heads = [hb for hb, ht in x.calls() if (callee(ht) or '').split('::')[-1] in ('next', 'next_back') and hb in x.reachable(x.succ(hb))
                     and x.dominates(hb, bb) and hb in x.reachable(x.succ(bb)) | {hb}]
            for sb, w in controlling_switches(x, bb):
                if 'enum' in w:
                    continue
                q = op_place(w['d'])
                if q is None or x.locals[q['l']] != 'bool':
                    continue
                # only the conditions that let a label through WITHOUT the check: an outcome from which the violation is unreachable but the
                # next label is (an earlier check that returns its own error is not a way around this one)
                succs = list(dict.fromkeys([t_[1] for t_ in w['ts']] + [w['else']]))
                goes_on = set(heads) | {ob for ob, _, os_ in x.all_assigns() if os_['lhs'] == {'l': 0} and os_['rv']['k'] == 'agg' and os_['rv'].get('var') == 'Ok'}
                skips = [s_ for s_ in succs if bb not in x.reachable(s_, avoid=[sb]) and (x.reachable(s_, avoid=[sb, bb]) & goes_on)]
                if not skips:
                    continue
                sl, _ = backward_slice(x, q['l'], defs)
                names = {(c or '').split('::')[-1] for c, _, _ in slice_calls(sl)}
                if not (names & set(want)):
                    foreign.append(x.loc(sb))
            ctx.ob('C20.R6', 'decided-by-the-character|%s' % rv['var'], not foreign, x.loc(bb, st),
                   'conditions governing %s that do not derive from the inspected character: %s' % (rv['var'], foreign or 'none'))
    ctx.floor('C20.R6', 'boundary violations constructed in validate', n, 2)


def r7_guard_reaches_the_compiler_as_written(ctx):
    from .c19 import r11_strings_recorded_as_given
    r11_strings_recorded_as_given(ctx, 'C20.R7', 'Domain.domain', 'shared with C19.R11 (the domain guard only) — `DomainGuard::new` validates what it is handed; the builder must hand it '
                                  'what the user wrote. ')


def r8_every_valid_guard_is_checked_for_overlap(ctx):
    from ..govern import controlling_switches
    ctx.rule('C20.R8', 'P12 decision audit: `detect_domain_conflicts` examines the guards recorded in `AuxiliaryData::domain_guard2locations` and nothing else, '
             'while the generated router is built from the guards carried by the handlers. So every guard that passed `DomainGuard::new` is recorded: '
             'in the blueprint-processing module the write to `domain_guard2locations` is governed only by the shape of the input (is there a domain, did '
             'validation succeed), never by a further test ("does this blueprint gate any route?"). A guard left out of the registry is not checked for '
             'overlap; two overlapping guards on blueprints that only import their routes are then accepted and the generated `domain_router()` panics '
             'on `insert(..).unwrap()` at start-up.')
    UC = 'pavexc::compiler::analyses::user_components::'
    n = 0
    for b in ctx.fb.bodies('pavexc'):
        if b.is_promoted or not b.nroot.startswith(UC):
            continue
        defs = None
        for bb, t in b.calls():
            m = (callee(t) or '').split('::')[-1]
            if m not in ('entry', 'insert', 'push', 'extend') or not t['args']:
                continue
            q = op_place(t['args'][0])
            if q is None:
                continue
            defs = defs or Defs(b)
            sl, _ = backward_slice(b, q['l'], defs, through_calls=False)
            hit = any(('f:domain_guard2locations' in ((nd.get('rv') or {}).get('pl') or {}).get('p', [])) for _, _, nd in sl) or 'f:domain_guard2locations' in q.get('p', [])
            if not hit:
                continue
            n += 1
            bad = []
            for sb, st in controlling_switches(b, bb):
                if 'enum' in st:
                    continue
                pl = op_place(st['d'])
                s2, _ = backward_slice(b, pl['l'], defs) if pl is not None else ([], set())
                cs = sorted({(x or '?').split('::')[-1] for x, _, _ in slice_calls(s2)})
                bad.append('%s at %s' % (cs or 'a flag', b.loc(sb)))
            ctx.ob('C20.R8', 'guard-always-recorded|%s|#%d' % (b.nroot.replace(UC, ''), n), not bad, b.loc(bb, t),
                   'the write to domain_guard2locations is governed by shape tests only%s' % ('' if not bad else ' — NO: it also depends on ' + '; '.join(bad)))
    ctx.floor('C20.R8', 'writes to the registry of domain guards', n, 1)


def r9_checked_in_the_order_it_is_built(ctx):
    ctx.rule('C20.R9', 'P9 writer/reader agreement on an ORDER: `detect_domain_conflicts` proves "every domain pattern can be inserted into a matchit router" by inserting '
             'them, and the generated `domain_router()` inserts them again at start-up with an `unwrap()` ("Pavex has validated at compile-time that all domain '
             'patterns are valid"). `matchit::Router::insert` is order-sensitive (what an insert answers depends on what is already in the tree), so the proof '
             'carries over only if both sides insert in the same order: the generated code iterates the keys of a `BTreeMap<DomainGuard, _>` (sorted), hence the '
             'compile-time check must iterate a sorted collection too, not the registration-ordered `IndexMap`.')
    from .compiler_common import PX
    fb = ctx.fb

    def loop_source_kinds(bodies):
        kinds = set()
        for b in bodies:
            ins = [bb for bb, t in b.calls() if (callee(t) or '').startswith('matchit::router::Router') and (callee(t) or '').endswith('::insert')]
            if not ins:
                continue
            for bb, t in b.calls():
                if (callee(t) or '').split('::')[-1].split('<')[0] != 'next' or not t.get('aty'):
                    continue
                if not any(i in b.reachable(b.succ(bb)) and bb in b.reachable(b.succ(i)) for i in ins):
                    continue            # not the head of a loop that contains the insert
                a0 = t['aty'][0]
                kinds.add('sorted' if 'btree' in a0 else ('registration' if 'indexmap' in a0 else 'other:' + a0[:60]))
        return kinds
    chk = [b for b in fb.bodies_of_item('pavexc', PX + 'analyses::user_components::router::DomainRouter::detect_domain_conflicts') if not b.is_promoted] or \
        [b for b in fb.bodies('pavexc') if not b.is_promoted and b.nid.endswith('detect_domain_conflicts')]
    if not ctx.need('C20.R9', 'detect_domain_conflicts', chk):
        return
    check_side = loop_source_kinds(chk)
    gen = [b for b in fb.bodies('pavexc') if not b.is_promoted and b.nroot.endswith('codegen::router::domain_router_init')]
    if not ctx.need('C20.R9', 'codegen::router::domain_router_init', gen):
        return
    gen_sorted = any('BTreeMap' in ty and 'DomainGuard' in ty for b in gen for ty in b.locals[1:1 + b.raw['argc']])
    ctx.ob('C20.R9', 'generated-router-inserts-in-sorted-order', gen_sorted, gen[0].loc(), 'domain_router_init iterates a BTreeMap<DomainGuard, _>: %s' % gen_sorted, nontrivial=False)
    ctx.ob('C20.R9', 'checked-in-the-order-it-is-built', check_side == {'sorted'}, chk[0].loc(),
           'the compile-time check inserts the patterns in %s order; the generated router inserts them in sorted order' % (sorted(check_side) or 'an unknown'))


def check(ctx):
    r9_checked_in_the_order_it_is_built(ctx)
    r1_validated_constructor(ctx)
    r2_one_pattern_source(ctx)
    r3_normalisation_agreement(ctx)
    r4_identifier_oracle(ctx)
    r5_one_numbering(ctx)
    r6_boundary_checks_look_at_the_boundary(ctx)
    r7_guard_reaches_the_compiler_as_written(ctx)
    r8_every_valid_guard_is_checked_for_overlap(ctx)


CLAUSE += ' Also: the domain guard is handed from Blueprint::domain to the schema as given.'
CLAUSE += ' Also: the compile-time conflict check inserts the domain patterns in the order in which the generated router inserts them.'
