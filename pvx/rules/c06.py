"""C06 — Errors reach the right handler, every observer, and stop the pipeline.

Decided clauses: the component database registers matchers, then fallback error handlers, then response transformers, in that
order; error-handler lookup walks scopes like constructor lookup (nearest first, a miss continues to the parents); observers
are spliced in registration order (previous -> next -> response) and borrow the error; observer chains are snapshots.
Which handler runs for a given failure is not decided.
"""
from ..facts import callee, op_place, strip_generics
from ..flow import Defs, backward_slice, slice_calls
from .chains_common import chain_snapshots, chain_always_pushed, chain_only_pushed, scope_lookup_shape, concrete_before_templated, own_scope_everywhere, A
from .compiler_common import PX

LEVEL = 'other'
TECHNIQUE = 'static analysis: ordering by dominance in the call-graph builder, scope-walk shape (sibling of C04.R1), provenance of observer chains, always-appended'
CLAUSE = ('ComponentDb::build registers all matchers, switches matcher auto-registration on, attaches the fallback error handler to every '
          'fallible component still lacking one, then adds the IntoResponse transformers; ErrorHandlersDb::get_or_try_bind tries the current '
          'scope first, continues to the parents on every miss and never to children; in build_call_graph observers are visited in '
          'registration order, each new observer is ordered after the previous one and the last one before the response node, and each '
          'borrows the error; a nested blueprint receives a snapshot of the observer chain at the point where it is nested. Every write to handler_id2error_observer_ids derives from the observer chain handed over; chains are never taken or replaced.')
TRUSTED = ['HappensBefore edges are honoured by the ordering pass (C01)']

DB = A + 'components::db::ComponentDb::'
CGB = A + 'call_graph::core_graph::build_call_graph'


def r1_build_order(ctx):
    ctx.rule('C06.R1', 'P2: in ComponentDb::build the calls register_all_matchers < (autoregister_matchers = true) < attach_missing_error_handlers '
             '(in the error-handler pass) < add_into_response_transformers each dominate the next and the end of the function.')
    b = ctx.need('C06.R1', 'ComponentDb::build', ctx.fb.body('pavexc', DB + 'build'))
    if b is None:
        return
    def site(name):
        return [bb for bb, t in b.calls() if (callee(t) or '').endswith('::' + name)]
    seq = ['register_all_matchers', 'add_into_response_transformers']
    m, r = site(seq[0]), site(seq[1])
    flag = [bb for bb, j, st in b.all_assigns() if st['lhs'].get('p') and st['lhs']['p'][-1] == 'f:autoregister_matchers' and st['rv']['k'] == 'use' and st['rv']['op'].get('int') == '1']
    rets = b.return_blocks()
    ok = bool(m) and bool(r) and bool(flag) and b.dominates(m[0], flag[0]) and b.dominates(flag[0], r[0]) and all(b.dominates(r[0], x) for x in rets)
    ctx.ob('C06.R1', 'matchers<flag<transformers', ok, b.loc(m[0]) if m else b.loc(), 'register_all_matchers (bb%s) < autoregister_matchers=true (bb%s) < add_into_response_transformers (bb%s) < return' % (m, flag, r))
    # fallback error handlers: somewhere between, on every path
    eh = [bb for bb, t in b.calls() if any(k in (callee(t) or '') for k in ('attach_missing_error_handlers', 'process_error_handlers', 'add_fallback_error_handler', 'error_handlers'))]
    names = sorted({(callee(t) or '').split('::')[-1] for bb, t in b.calls() if bb in eh})
    ok2 = bool(eh) and any(b.dominates(x, r[0]) for x in eh) if r else False
    ctx.ob('C06.R1', 'fallback-handlers-before-transformers', ok2, b.loc(eh[0]) if eh else b.loc(), 'error-handler passes %s run on every path before the response transformers are added' % names)


def r2_observer_splice(ctx):
    ctx.rule('C06.R2', 'P7/P2: in build_call_graph, inside the loop over error_observer_ids (forward, no rev), the HappensBefore edge goes from the '
             'previous observer to the node added in this iteration; after the loop the last observer gets a HappensBefore edge to the error '
             'handler\'s response node; each observer gets a SharedBorrow edge from the pavex::Error node; enforce_invariants is given '
             'error_observer_ids.len().')
    bodies = ctx.fb.bodies_of_item('pavexc', CGB)
    main = [b for b in bodies if b.nid == b.nroot]
    b = ctx.need('C06.R2', 'build_call_graph', main[0] if main else None)
    if b is None:
        return
    defs = Defs(b)
    META = A + 'call_graph::core_graph::CallGraphEdgeMetadata'

    def meta_of(t):
        pl = op_place(t['args'][-1])
        if pl is None:
            return None
        sl, _ = backward_slice(b, pl['l'], defs, through_calls=False)
        for _, _, n in sl:
            rv = n.get('rv')
            if rv and rv['k'] == 'agg' and strip_generics(rv.get('adt', '')) == META:
                return rv['var']
        return None

    prev_locals = {v['pl']['l'] for v in b.raw['vars'] if v['n'] == 'previous_index' and 'pl' in v and not v['pl'].get('p')}
    obs_locals = {v['pl']['l'] for v in b.raw['vars'] if v['n'] == 'error_observer_node_index' and 'pl' in v and not v['pl'].get('p')}

    def role(op):
        """immediate provenance through copies / moves / payload reads only"""
        pl = op_place(op)
        seen = set()
        while pl is not None and pl['l'] not in seen:
            seen.add(pl['l'])
            if pl['l'] in obs_locals:
                return 'new'
            if pl['l'] in prev_locals:
                return 'previous'
            nxt = None
            for (dbb, j, node) in defs.full.get(pl['l'], []):
                rv = node.get('rv')
                if rv and rv['k'] == 'use' and op_place(rv['op']) is not None:
                    nxt = op_place(rv['op'])
                elif rv and rv['k'] in ('ref', 'cfd'):
                    nxt = rv['pl']
            pl = nxt
        return 'other'

    edges = []
    for bb, t in b.calls():
        if (callee(t) or '').endswith('::update_edge') and meta_of(t) == 'HappensBefore':
            in_loop_over_obs = False
            # the loop whose iterator derives from error_observer_ids (argument)
            edges.append((bb, role(t['args'][1]), role(t['args'][2])))
    ctx.need('C06.R2', 'bindings previous_index / error_observer_node_index', prev_locals and obs_locals)
    got = sorted((a, c) for _, a, c in edges)
    want = [('previous', 'new'), ('previous', 'other')]
    ctx.ob('C06.R2', 'observers-chained-in-registration-order', got == want, b.loc(edges[0][0]) if edges else b.loc(),
           'HappensBefore edges: %s (documented: previous -> new inside the loop, previous -> response node after it)' % got)
    borrows = [(role(t['args'][1]), role(t['args'][2])) for bb, t in b.calls() if (callee(t) or '').endswith('::update_edge') and meta_of(t) == 'SharedBorrow'
               and role(t['args'][2]) == 'new']
    ctx.ob('C06.R2', 'observers-borrow-the-error', bool(borrows) and all(a == 'other' for a, _ in borrows), b.loc(), 'each new observer node gets a SharedBorrow edge from the error node: %s' % borrows)
    # forward iteration
    its = [(bb, t) for bb, t in b.calls() if callee(t) == 'core::iter::traits::collect::IntoIterator::into_iter' and 'ComponentId' not in t['aty'][0] and t['aty'][0].startswith('&[la_arena::Idx')]
    revs = [bb for bb, t in b.calls() if callee(t) == 'core::iter::traits::iterator::Iterator::rev' and 'slice::iter::Iter' in t['aty'][0] and 'Idx<' in t['aty'][0]]
    ctx.ob('C06.R2', 'forward-iteration', not revs, b.loc(), 'no reversed iteration over the observer ids: %s' % (not revs))
    inv = [(bb, t) for bb, t in b.calls() if (callee(t) or '').endswith('core_graph::enforce_invariants')]
    oks = [bb for bb, j, st in b.all_assigns() if st['lhs'] == {'l': 0} and st['rv']['k'] == 'agg' and st['rv'].get('var') == 'Ok']
    ctx.ob('C06.R2', 'invariants-before-ok', bool(inv) and bool(oks) and all(b.dominates(inv[0][0], o) for o in oks), b.loc(inv[0][0]) if inv else b.loc(),
           'enforce_invariants(..) dominates Ok(call graph)')


def r3_lookup(ctx):
    ctx.rule('C06.R3', 'P2/P3 (sibling of C04.R1): ErrorHandlersDb::get_or_try_bind walks scopes FIFO from the failing component\'s scope, tests the '
             'current scope first, extends with direct_parent_ids only, and a scope without a matching handler (with or without other '
             'handlers) always falls through to its parents.')
    scope_lookup_shape(ctx, 'C06.R3', A + 'error_handlers::ErrorHandlersDb::get_or_try_bind', A + 'error_handlers::ErrorHandlersInScope::get_or_try_bind')
    concrete_before_templated(ctx, 'C06.R3', A + 'error_handlers::ErrorHandlersInScope::get_or_try_bind', A + 'error_handlers::ErrorHandlersInScope::get')
    own_scope_everywhere(ctx, 'C06.R3')


def r4_observer_snapshots(ctx):
    ctx.rule('C06.R4', 'P7: the observer chain handed to a nested blueprint is a clone taken in the arm that visits the nested blueprint (observers '
             'registered later in the parent do not run for routes of the nested blueprint).')
    chain_snapshots(ctx, 'C06.R4', 'current_observer_chain', 'observer chain')
    chain_always_pushed(ctx, 'C06.R4', ['ErrorObserver'], 'observer chain')
    chain_only_pushed(ctx, 'C06.R4')


def r5_error_ref_index_agrees(ctx):
    ctx.rule('C06.R5', 'P4 agreement between writer and reader of `error_ref_input_index`: the `#[error_handler]` macro writes the position of the '
             '`#[px(error_ref)]` parameter and pavexc reads it as an index into the callable\'s FULL input list (receiver included) to learn which '
             'error type the handler is filed under. Macro side: in pavex_macros::error_handler every position comes from `enumerate()` / `position()` '
             'applied to the un-adapted iterator over `sig.inputs` (`Punctuated<FnArg>::iter()`): an `enumerate` over a `filter_map` / `skip` / `filter` '
             'numbers a different sequence, and `&self, #[px(error_ref)] e: &AuthError` is then filed under the receiver\'s type. Compiler side: the '
             'index is applied to `inputs()` of the callable as it is (no arithmetic on the way).')
    MC = ('pavex_macros', 'ProcMacro')
    if MC not in ctx.fb.available():
        ctx.need('C06.R5', 'fact file of the proc-macro crate pavex_macros', None)
        return
    n = 0
    for b in ctx.fb.bodies(*MC):
        if b.is_promoted or not b.nid.startswith('pavex_macros::error_handler::'):
            continue
        for bb, t in b.calls():
            m = (callee(t) or '').split('::')[-1]
            if (callee(t) or '').startswith('core::iter::traits::iterator::Iterator::') and m in ('enumerate', 'position', 'rposition'):
                ty = t['aty'][0] if t['aty'] else ''
                if 'FnArg' not in ty and 'PatType' not in ty and 'Receiver' not in ty:
                    continue
                n += 1
                plain = strip_generics(ty.lstrip('&').replace('mut ', '')).split('<')[0] in ('syn::punctuated::Iter', 'syn::punctuated::IterMut', 'core::slice::iter::Iter') \
                    and 'core::iter::adapters::' not in ty and 'FnArg' in ty
                ctx.ob('C06.R5', 'positions-in-the-full-input-list|%s|%s' % (b.nid.replace('pavex_macros::', ''), m), plain, b.loc(bb, t),
                       '%s() numbers %s: %s' % (m, ty[:140], 'the inputs as the compiler sees them' if plain else 'NOT the full, unfiltered list of inputs — the position it yields is not the index pavexc applies to the callable\'s inputs'))
    ctx.floor('C06.R5', 'position computations over the handler\'s inputs in pavex_macros::error_handler', n, 1)
    # compiler side
    EH = 'pavexc::compiler::component::error_handler::'
    k = 0
    for b in ctx.fb.bodies('pavexc'):
        if b.is_promoted or not b.nid.startswith(EH):
            continue
        defs = None
        for bb, j, st in b.all_assigns():
            rv = st['rv']
            pl = rv.get('pl') if rv['k'] in ('ref', 'cfd') else (op_place(rv['op']) if rv['k'] == 'use' else None)
            idx = [e for e in ((pl or {}).get('p') or []) if e.startswith('i:')]
            if not idx or 'rustdoc_ir::callable::CallableInput' not in str((pl or {}).get('fo') or b.locals[pl['l']]):
                continue
            defs = defs or Defs(b)
            il = int(idx[0][2:])
            sl, locs = backward_slice(b, il, defs, through_calls=False)
            reads = any('f:error_ref_input_index' in ((nd['rv'].get('pl') or op_place(nd['rv'].get('op') or {}) or {}).get('p') or []) for _, _, nd in sl if 'rv' in nd)
            from_param = any(1 <= l <= b.raw['argc'] and b.locals[l] == 'usize' for l in locs | {il})
            if not (reads or from_param):
                continue
            k += 1
            arith = [nd['rv']['bop'] for _, _, nd in sl if 'rv' in nd and nd['rv']['k'] == 'bin']
            ctx.ob('C06.R5', 'index-applied-as-is|%s' % b.nid.replace(EH, ''), not arith, b.loc(bb, st),
                   'inputs()[error_ref_input_index]: arithmetic on the index on the way: %s' % (arith or 'none'))
    ctx.floor('C06.R5', 'places where pavexc indexes the handler\'s inputs with error_ref_input_index', k, 1)


def r6_observers_recorded_per_handler(ctx):
    from .chains_common import chain_recorded_per_handler
    ctx.rule('C06.R6', 'P7 provenance (sibling of C05.R5): every write to `handler_id2error_observer_ids` stores a value computed from the observer '
             'chain the registering function was handed and from nothing kept across handlers.')
    chain_recorded_per_handler(ctx, 'C06.R6', 'handler_id2error_observer_ids', 'error observer chain')


def check(ctx):
    r6_observers_recorded_per_handler(ctx)
    r1_build_order(ctx)
    r2_observer_splice(ctx)
    r3_lookup(ctx)
    r4_observer_snapshots(ctx)
    r5_error_ref_index_agrees(ctx)
