#!/usr/bin/env bash
# Usage: extract.sh <repo-dir> <facts-out-dir> [target-dir]
# Runs the pvx-facts driver over the whole workspace of <repo-dir> (cargo +nightly check, offline).
# Always forces workspace members to be re-checked (cargo would otherwise skip the wrapper).
set -euo pipefail
REPO="$1"; OUT="$2"; TGT="${3:-/verif/.cache/target}"
HERE="$(cd "$(dirname "$0")/.." && pwd)"
DRV="$HERE/engine/facts/target/release/pvx-facts"
if [ ! -x "$DRV" ] || [ "$HERE/engine/facts/src/main.rs" -nt "$DRV" ]; then
  # the driver is an input of the analysis: (re)build it when its source is newer than the binary
  ( cd "$HERE/engine/facts" && flock "$HERE/engine/facts/.build.lock" env CARGO_NET_OFFLINE=true cargo +nightly build --offline --release >/dev/null 2>&1 ) || true
fi
[ -x "$DRV" ] || { echo "extract: driver not built ($DRV); run setup" >&2; exit 2; }
SYSROOT="$(rustc +nightly --print sysroot)"
mkdir -p "$OUT" "$TGT"
rm -f "$OUT"/*.json "$OUT"/*.tmp* 2>/dev/null || true
# drop fingerprints of workspace members so that the wrapper is really invoked
if [ -d "$TGT/debug/.fingerprint" ]; then
  find "$TGT/debug/.fingerprint" -maxdepth 1 -type d \( -name 'pavex*' -o -name 'rustdoc_*' -o -name 'rustdoc-*' \
     -o -name 'persist_if_changed*' -o -name 'generate_from_path*' -o -name 'px_workspace_hack*' \) -exec rm -rf {} + 2>/dev/null || true
fi
cd "$REPO"
export LD_LIBRARY_PATH="$SYSROOT/lib${LD_LIBRARY_PATH:+:$LD_LIBRARY_PATH}"
export RUSTFLAGS="-Awarnings" CARGO_NET_OFFLINE=true CARGO_TARGET_DIR="$TGT" PVX_FACTS_DIR="$OUT"
export RUSTC_WORKSPACE_WRAPPER="$DRV" CARGO_INCREMENTAL=0
cargo +nightly check --offline --locked --workspace --features pavex_session_sqlx/sqlite >"$OUT/cargo.log" 2>&1 || {
  echo "extract: cargo check failed; tail of log:" >&2; tail -40 "$OUT/cargo.log" >&2; exit 3; }
# the SQL stores are feature-gated and --workspace does not unify package features: second, targeted run
find "$TGT/debug/.fingerprint" -maxdepth 1 -type d -name 'pavex_session_sqlx*' -exec rm -rf {} + 2>/dev/null || true
rm -f "$OUT"/pavex_session_sqlx-*.json
PVX_FACTS_ONLY=pavex_session_sqlx cargo +nightly check --offline --locked -p pavex_session_sqlx --features sqlite,postgres,mysql >>"$OUT/cargo.log" 2>&1 || {
  echo "extract: cargo check (sqlx stores) failed; tail of log:" >&2; tail -40 "$OUT/cargo.log" >&2; exit 3; }
ls "$OUT"/*.json >/dev/null
