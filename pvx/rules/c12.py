"""C12 — Session cookies are never emitted unprotected and never leak the id.

Decided clause: on every CFG path of the session middleware that reaches `ResponseCookies::insert`, the cookie processor was
asked and (will_encrypt or will_sign) and (client state empty or will_encrypt) hold; the inserted cookie is the one
finalize() returned; only Session::finalize builds session cookies; every cookie attribute setter is governed by the
like-named configuration field; the Debug closure of Session never touches the inside of a SessionId.
"""
import re

from ..boolpaths import states_at
from ..facts import callee, op_place, strip_generics
from ..flow import Defs, backward_slice, rv_operands, slice_calls, forward_derived

LEVEL = 'other'
TECHNIQUE = 'static analysis: case evaluation of the session middleware over all valuations of (will_encrypt, will_sign, state-empty) by abstract interpretation (helpers entered); provenance and control-dependence of cookie attributes on the function with helpers inlined; who-may-call by family; Debug-impl closure'
CLAUSE = ('every path to ResponseCookies::insert in the session middleware has established (will_encrypt or will_sign) and '
          '(client state empty or will_encrypt) for the cookie returned by Session::finalize; only Session::finalize builds '
          'session cookies; each cookie attribute setter is governed by the like-named config field; the types formatted by '
          'Debug for Session never expose the inside of a SessionId.')
TRUSTED = ['biscotti::Processor::will_encrypt/will_sign tell the truth about what the processor does to the cookie',
           'biscotti cookie setters set the attribute they are named after']

CR = 'pavex_session'
M = 'pavex_session::session_::'
INSERT = 'pavex::cookie::response_cookies::ResponseCookies::insert'
WILL_E = 'biscotti::processor::Processor::will_encrypt'
WILL_S = 'biscotti::processor::Processor::will_sign'
IS_EMPTY = M + 'ClientSessionState::is_empty'
FINALIZE = M + 'Session::finalize'


def _insert_sites(ctx):
    out = []
    for b in ctx.fb.bodies(CR):
        if b.is_promoted:
            continue
        for bb, t in b.calls():
            if callee(t) == INSERT:
                out.append((b, bb, t))
    return out


def _protection_cases(ctx, root_body, relevant):
    """case evaluation (P11): run the middleware for every valuation of (will_encrypt, will_sign, client-state-empty); -> valuations under
    which some path reaches ResponseCookies::insert, number of paths"""
    from ..absint_std import StdSem, TagInterp

    class Sem(StdSem):
        crate = CR

        def __init__(self, fb, vals):
            super().__init__(fb)
            self.vals, self.reached = vals, False

        def domain_call(self, interp, path, body, bb, term, short):
            d = term.get('dest')
            dk = (body.id, d['l']) if d is not None and not d.get('p') else None
            v = {WILL_E: 'e', WILL_S: 's', IS_EMPTY: 'c'}.get(short)
            if v is not None and dk is not None:
                path.alias.pop(dk, None)
                path.tags.pop(dk, None)
                path.memo[dk] = self.vals[v]
                return [('next', path)]
            if short == INSERT:
                self.reached = True
            return None

        def descend_into(self, short):
            return short in relevant and short != FINALIZE

    reaching, n = [], 0
    for e in (True, False):
        for s_ in (True, False):
            for c in (True, False):
                sem = Sem(ctx.fb, {'e': e, 's': s_, 'c': c})
                outs = TagInterp(sem).run(root_body, {})
                n += len(outs)
                if sem.reached:
                    reaching.append({'e': e, 's': s_, 'c': c})
    return reaching, n


def r1_protection(ctx):
    ctx.rule('C12.R1', 'P11 case evaluation: the public function of pavex_session from which ResponseCookies::insert is reachable is interpreted '
             '(Option/Result algebra, `?`, private helpers entered with their argument values) for every valuation of e=will_encrypt, s=will_sign, '
             'c=client().is_empty(); a path reaches the insertion only under valuations with (e or s) and (c or e); P7 (on the body with its '
             'private helpers inlined): the inserted cookie derives from Session::finalize, the names given to will_* derive from that cookie, '
             'and is_empty/finalize are applied to the same session.')
    from ..callgraph import CallGraph
    from ..inline import inlined
    sites = _insert_sites(ctx)
    ctx.floor('C12.R1', 'ResponseCookies::insert call sites in pavex_session', len(sites), 1)
    cg = CallGraph(ctx.fb, [(CR, 'Rlib')])
    relevant = {f for f in cg.reaching({INSERT, WILL_E, WILL_S, IS_EMPTY}) if f.startswith(CR + '::')}
    roots = sorted(f for f in cg.reaching({INSERT}) if f.startswith(CR + '::')
                   and not any(f in cg.edges.get(g, ()) for g in relevant if g != f))
    ctx.floor('C12.R1', 'entry points from which the Set-Cookie insertion is reachable', len(roots), 1)
    to_insert = {f for f in cg.reaching({INSERT})}
    for r in roots:
        # the body of the item (function, async block, closure) from which the insertion is made or a helper that makes it is called
        bodies = [b for b in ctx.fb.bodies_of_item(CR, r) if any((callee(t) or '') in to_insert for _, t in b.calls())]
        if not ctx.need('C12.R1', 'body of %s that leads to the insertion' % r, bodies):
            continue
        reaching, n = _protection_cases(ctx, bodies[0], relevant)
        ctx.count('abstract_states_at_insert', n)
        bad = [v for v in reaching if not ((v['e'] or v['s']) and (v['c'] or v['e']))]
        ctx.ob('C12.R1', 'protected|%s' % r.replace('pavex_session::', ''), bool(reaching) and not bad, bodies[0].loc(),
               '%d path(s) interpreted over 8 valuations; the Set-Cookie insertion is reached under %d of them; %s' % (
                   n, len(reaching), 'all satisfy (will_encrypt or will_sign) and (client-state-empty or will_encrypt)' if not bad else
                   'it is reached with %s — the protection invariant is not established' % bad))
    for body, bb, t in sites:
        fn = body.nroot.replace('pavex_session::', '')
        body = inlined(ctx.fb, body)
        bb, t = [(x, y) for x, y in body.calls() if callee(y) == INSERT][0]
        # provenance of the cookie and of the names
        defs = Defs(body)
        pl = op_place(t['args'][1])
        sl, _ = backward_slice(body, pl['l'], defs) if pl is not None else ([], set())
        calls = {c for c, _, _ in slice_calls(sl)}
        ctx.ob('C12.R1', 'cookie-from-finalize|%s' % fn, FINALIZE in calls, body.loc(bb, t),
               'the inserted cookie derives from Session::finalize(): %s' % (FINALIZE in calls))
        cookie_locals = set()
        for sbb, j, node in sl:
            if 'lhs' in node and not node['lhs'].get('p'):
                cookie_locals.add(node['lhs']['l'])
        for wb, wt in body.calls():
            if callee(wt) in (WILL_E, WILL_S):
                npl = op_place(wt['args'][1])
                nsl, nlocals = backward_slice(body, npl['l'], defs) if npl is not None else ([], set())
                ncalls = [(c, n) for c, _, n in slice_calls(nsl) if c and c.endswith('ResponseCookie::name')]
                ok = False
                for c, n in ncalls:
                    rp = op_place(n['args'][0])
                    if rp is not None:
                        _, rl = backward_slice(body, rp['l'], defs)
                        if rl & cookie_locals:
                            ok = True
                ctx.ob('C12.R1', 'name-of-same-cookie|%s|%s' % (fn, callee(wt).split('::')[-1]), ok, body.loc(wb, wt),
                       'the name passed to %s is .name() of the cookie that is inserted' % callee(wt).split('::')[-1])
        # same session
        recv = {}
        for cb, ct in body.calls():
            if callee(ct) in (M + 'Session::client', FINALIZE):
                rp = op_place(ct['args'][0])
                base = None
                if rp is not None:
                    sl2, _ = backward_slice(body, rp['l'], defs)
                    for _, _, n in sl2:
                        if 'rv' in n and n['rv']['k'] == 'ref':
                            q = n['rv']['pl']
                            base = '_%d.%s' % (q['l'], '.'.join(q.get('p', [])))
                recv[callee(ct).split('::')[-1]] = base
        ctx.ob('C12.R1', 'same-session|%s' % fn, len(recv) == 2 and len(set(recv.values())) == 1 and None not in recv.values(),
               body.loc(bb, t), 'client() and finalize() are applied to the same session place: %s' % recv)


def _cookie_builders(ctx):
    """bodies of pavex_session that construct or configure a biscotti cookie: Session::finalize plus the helpers it (transitively) calls
    for that purpose. A helper counts only if every one of its callers inside the crate is finalize or another such helper."""
    BUILD = re.compile(r'biscotti::(response_cookie::ResponseCookie|removal::RemovalCookie)::(new|set_\w+)$')
    direct = {}
    callers = {}
    for b in ctx.fb.bodies(CR):
        if b.is_promoted:
            continue
        for bb, t in b.calls():
            c = callee(t) or ''
            if BUILD.match(c):
                direct.setdefault(b.nroot, []).append((b, bb, t))
            if c.startswith('pavex_session::'):
                callers.setdefault(strip_generics(c), set()).add(b.nroot)
    # the family of Session::finalize: finalize plus every function of the crate all of whose callers inside the crate are in the family
    ok = {FINALIZE}
    changed = True
    while changed:
        changed = False
        for h, cs in callers.items():
            if h not in ok and cs and cs <= ok:
                ok.add(h)
                changed = True
    return direct, ok, callers


def r2_who_builds_cookies(ctx):
    ctx.rule('C12.R2', 'P3 who-may-call: within pavex_session, ResponseCookies::insert is called only by finalize_session; '
             'ResponseCookie / RemovalCookie are constructed and configured only by Session::finalize and by helpers whose only callers are '
             'Session::finalize or such helpers; Session::finalize only by finalize_session.')
    allowed = {
        INSERT: {'pavex_session::middleware::finalize_session'},
        FINALIZE: {'pavex_session::middleware::finalize_session'},
    }
    seen = {k: 0 for k in allowed}
    for b in ctx.fb.bodies(CR):
        if b.is_promoted:
            continue
        for bb, t in b.calls():
            c = callee(t)
            if c in allowed:
                seen[c] += 1
                ctx.ob('C12.R2', 'caller|%s|%s' % (c.split('::')[-2] + '::' + c.split('::')[-1], b.nroot.replace('pavex_session::', '')),
                       b.nroot in allowed[c], b.loc(bb, t), '%s called from %s' % (c, b.nroot))
    direct, ok, callers = _cookie_builders(ctx)
    n = 0
    for h, sites in sorted(direct.items()):
        for b, bb, t in sites:
            c = callee(t)
            if not c.endswith('::new'):
                continue
            n += 1
            ctx.ob('C12.R2', 'caller|%s|%s' % (c.split('::')[-2] + '::' + c.split('::')[-1], h.replace('pavex_session::', '')), h in ok, b.loc(bb, t),
                   '%s called from %s%s' % (c, h, '' if h in ok else ' (also reachable from %s)' % sorted(callers.get(h, set()) - ok)))
    seen['cookie constructors'] = n
    for c, k in seen.items():
        ctx.floor('C12.R2', 'call sites of %s (positive control)' % c, k, 1 if c != 'cookie constructors' else 2)


SETTERS = {
    'new': ({'name'}, 'ResponseCookie'),
    'set_domain': ({'domain'}, 'ResponseCookie'),
    'set_path': ({'path'}, 'ResponseCookie'),
    'set_same_site': ({'same_site'}, 'ResponseCookie'),
    'set_secure': ({'secure'}, 'ResponseCookie'),
    'set_http_only': ({'http_only'}, 'ResponseCookie'),
    'set_max_age': ({'kind', 'ttl'}, 'ResponseCookie'),
}
REMOVAL_SETTERS = {'new': {'name'}, 'set_domain': {'domain'}, 'set_path': {'path'}}


def _config_fields(ctx):
    a = ctx.fb.adt(CR, 'pavex_session::config::cookie::SessionCookieConfig')
    if not a:
        return None
    return {f['n'] for v in a['variants'] for f in v['fields']}


def _field_reads(sl, fields, body=None):
    out = set()
    if body is not None:
        # closures built on the way (`cond.then(|| cfg.ttl ..)`): what they read from the configuration governs the value too
        for _, _, node in sl:
            rv = node.get('rv')
            if rv and rv['k'] == 'agg' and rv.get('ak') == 'closure' and rv.get('def'):
                if strip_generics(rv['def']) in (body.raw.get('inlined_closures') or []):
                    continue          # its code is part of this body already: the slice sees exactly what it reads for this value
                for x in body.fb.bodies(body.crate):
                    if x.id == rv['def']:
                        for bb, blk in enumerate(x.blocks):
                            nodes = [(None, None, st) for st in blk['st']] + ([(None, None, blk['term'])] if blk['term'] else [])
                            out |= _field_reads(nodes, fields)
    for _, _, node in sl:
        places = []
        if 'rv' in node:
            ops, pls = rv_operands(node['rv'])
            places = pls + [op_place(o) for o in ops if op_place(o) is not None]
        elif node.get('k') == 'call':
            places = [op_place(o) for o in node['args'] if op_place(o) is not None]
        for q in places:
            for el in q.get('p', []):
                if el.startswith('f:') and el[2:] in fields:
                    out.add(el[2:])
    return out


def _session_state_reads(sl):
    """payload fields of the session's state enums (ServerState / ClientState / CurrentSessionId) read in a slice"""
    out = set()
    for _, _, node in sl:
        places = []
        if 'rv' in node:
            ops, pls = rv_operands(node['rv'])
            places = pls + [op_place(o) for o in ops if op_place(o) is not None]
        elif node.get('k') == 'call':
            places = [op_place(o) for o in node['args'] if op_place(o) is not None]
        for q in places:
            pp = q.get('p', [])
            enums = [strip_generics(e) for e in q.get('e', [])]
            di = 0
            for i, el in enumerate(pp):
                if el.startswith('d:'):
                    e = enums[di] if di < len(enums) else ''
                    di += 1
                    if e in (M + 'ServerState', M + 'ClientState', M + 'CurrentSessionId') and i + 1 < len(pp) and pp[i + 1].startswith('f:'):
                        out.add('%s::%s.%s' % (e.split('::')[-1], el[2:], pp[i + 1][2:]))
    return out


def _controlling_switches(body, bb):
    out = []
    for sb in body.live_blocks():
        t = body.term(sb)
        if not t or t['k'] != 'switch' or sb == bb:
            continue
        if not body.dominates(sb, bb):
            continue
        succ = body.succ(sb)
        if any(bb not in body.reachable(s, avoid=[sb]) for s in succ):
            out.append((sb, t))
    return out


def r3_attribute_plumbing(ctx):
    ctx.rule('C12.R3', 'P7: in Session::finalize every cookie builder/setter call is governed (value argument and controlling '
             'branch conditions) by exactly the like-named SessionCookieConfig field(s): name, domain, path, same_site, '
             'secure, http_only, and max-age by kind + state.ttl, and by no run-time state of the session (server/client state payloads, id); '
             'the removal cookie carries name, domain, path.')
    fields = ctx.need('C12.R3', 'ADT SessionCookieConfig', _config_fields(ctx))
    fin = [b for b in ctx.fb.bodies_of_item(CR, FINALIZE) if b.is_coroutine]
    body = ctx.need('C12.R3', 'coroutine body of Session::finalize', fin[0] if len(fin) == 1 else None)
    if not fields or body is None:
        return
    fields = set(fields) | {'ttl'}
    seen = {'ResponseCookie': set(), 'RemovalCookie': set()}
    # Session::finalize with the private helpers it was split into inlined (P13): every builder / setter call is then in one body, under
    # the branch conditions of its callers
    from ..inline import inlined
    from ..inline import closures_of
    ib = inlined(ctx.fb, body)
    # .. and the closures of that code (`cond.then(|| build the cookie)`, `.map(|v| cookie.set_x(v))`): a setter inside a closure is
    # governed by what the closure reads and by the conditions inside it
    work = [ib] + [inlined(ctx.fb, x) for x in closures_of(ctx.fb, ib) if not x.is_coroutine]
    fin_body = body
    for body in work:
      defs = Defs(body)
      for bb, t in body.calls():
          c = callee(t) or ''
          m = re.match(r'biscotti::(response_cookie::ResponseCookie|removal::RemovalCookie)::(\w+)$', c)
          if not m:
              continue
          kind = m.group(1).split('::')[1]
          meth = m.group(2)
          table = {k: v[0] for k, v in SETTERS.items()} if kind == 'ResponseCookie' else REMOVAL_SETTERS
          if meth not in table:
              continue
          gov = set()
          # value arguments (skip the receiver for setters)
          args = t['args'] if meth == 'new' else t['args'][1:]
          if meth == 'new':
              args = t['args'][:1]  # the name; the value is the serialized client state
          state_reads = set()
          for a in args:
              pl = op_place(a)
              if pl is not None:
                  sl, _ = backward_slice(body, pl['l'], defs)
                  gov |= _field_reads(sl, fields, body)
                  state_reads |= _session_state_reads(sl)
                  # which of several definitions of the value is taken is part of what governs it (`(kind == Persistent).then(|| ttl)`):
                  # the tests that decide between the Some(..) / None definitions of an optional value
                  optdefs = [(sb_, nd) for sb_, _, nd in sl if 'rv' in nd and nd['rv']['k'] == 'agg' and nd['rv'].get('var') in ('Some', 'None')
                             and strip_generics(nd['rv'].get('adt', '')) == 'core::option::Option']
                  if len({nd['rv']['var'] for _, nd in optdefs}) == 2:
                      for sb_, nd in optdefs:
                          for cb_, cw in _controlling_switches(body, sb_):
                              if (cb_, id(cw)) in {(x, id(y)) for x, y in _controlling_switches(body, bb)}:
                                  continue
                              q = op_place(cw['d'])
                              if q is not None:
                                  s2, _ = backward_slice(body, q['l'], defs)
                                  gov |= _field_reads(s2, fields, body)
          for sb, st in _controlling_switches(body, bb):
              pl = op_place(st['d'])
              if pl is not None:
                  sl, _ = backward_slice(body, pl['l'], defs)
                  gov |= _field_reads(sl, fields)
              if 'src' in st:
                  sl, _ = backward_slice(body, st['src']['l'], defs)
                  gov |= _field_reads(sl, fields)
                  gov |= {el[2:] for el in st['src'].get('p', []) if el.startswith('f:') and el[2:] in fields}
          # `name` governs every call trivially through the constructor chain; only compare the non-name part for setters
          if meth != 'new':
              gov.discard('name')
          # setters nested under an outer attribute-independent branch are fine; they must not be governed by ANOTHER attribute
          want = table[meth]
          seen[kind].add(meth)
          ctx.ob('C12.R3', 'governed|%s::%s' % (kind, meth), gov == want, body.loc(bb, t),
                 '%s::%s is governed by config field(s) %s (documented: %s)' % (kind, meth, sorted(gov), sorted(want)))
          if state_reads:
              ctx.ob('C12.R3', 'config-only|%s::%s' % (kind, meth), False, body.loc(bb, t),
                     'the value given to %s::%s also derives from the session\'s run-time state (%s): the attribute is no longer the configured one' % (
                         kind, meth, sorted(state_reads)))
    body = fin_body
    for kind, table in (('ResponseCookie', set(SETTERS)), ('RemovalCookie', set(REMOVAL_SETTERS))):
        missing = table - seen[kind]
        ctx.ob('C12.R3', 'all-setters-present|%s' % kind, not missing, body.loc(),
               'builder/setter calls found for %s: %s; missing: %s' % (kind, sorted(seen[kind]), sorted(missing)), nontrivial=False)


WS_PREFIXES = ('pavex_session::', 'pavex_session_memory_store::', 'pavex_session_sqlx::', 'pavex_session_redis::')
SESSION_CRATES = [('pavex_session', 'Rlib'), ('pavex_session_memory_store', 'Rlib'), ('pavex_session_sqlx', 'Rlib'),
                  ('pavex_session_redis', 'Rlib')]


def _adt_paths(ty):
    return set(re.findall(r'(?:pavex_session(?:_memory_store|_sqlx|_redis)?)(?:::\w+)+', ty))


def r4_debug_closure(ctx):
    ctx.rule('C12.R4', 'P8-style closure: starting from `impl Debug for Session`, follow every type that is formatted (operands '
             'unsized to dyn Debug/Display or passed to Debug::fmt in hand-written impls; all fields in derived impls; every '
             'workspace impl of SessionStorageBackend behind `dyn`): no impl in the closure touches the inside of a SessionId '
             '(a uuid::Uuid value, SessionId::inner, or a SessionId formatted through its own Debug/Display).')
    fb = ctx.fb
    crates = [c for c in SESSION_CRATES if c in fb.available()]
    adts, impls = {}, []
    for cr, ct in crates:
        for a in fb.adts(cr, ct):
            adts[strip_generics(a['id'])] = (cr, a)
        for i in fb.impls(cr, ct):
            impls.append((cr, i))
    dbg = {}
    backends = []
    for cr, i in impls:
        tr = i.get('trait')
        self_ty = strip_generics(i['self'])
        if tr in ('core::fmt::Debug', 'core::fmt::Display'):
            dbg.setdefault(self_ty, []).append((cr, i, tr))
        if tr == 'pavex_session::store_::SessionStorageBackend':
            backends.append(self_ty)
    ctx.floor('C12.R4', 'SessionStorageBackend impls in the workspace', len(backends), 3)
    SID = 'pavex_session::id::SessionId'
    work = [M + 'Session']
    seen = set()
    checked = 0
    while work:
        ty = work.pop()
        if ty in seen:
            continue
        seen.add(ty)
        if ty == 'pavex_session::store_::SessionStorageBackend' or ty == 'pavex_session::store_::SessionStore':
            work += backends
        if ty == SID:
            # formatting a SessionId through its own impl exposes it unless that impl is hand-written and clean
            has = dbg.get(SID, [])
            ctx.ob('C12.R4', 'sessionid-formatted', False if has else True, '',
                   'a SessionId value is reachable by formatting and SessionId implements %s' % [h[2] for h in has]
                   if has else 'SessionId has no Debug/Display impl')
            continue
        if ty not in adts:
            continue
        cr, a = adts[ty]
        for (icr, i, tr) in dbg.get(ty, []):
            if tr != 'core::fmt::Debug':
                continue
            checked += 1
            if i.get('derived'):
                for v in a['variants']:
                    for f in v['fields']:
                        for p in _adt_paths(f['ty']):
                            work.append(strip_generics(p))
                        if 'uuid::Uuid' in f['ty']:
                            ctx.ob('C12.R4', 'derived-uuid|%s' % ty, False, a['file'], 'derived Debug formats a Uuid field')
                ctx.ob('C12.R4', 'impl|%s' % ty.split('::')[-1], True, '%s:%s' % (a['file'], a['ln']),
                       'derived Debug: all field types followed', nontrivial=True)
            else:
                fmt_items = [x for x in i['items'] if x.endswith('::fmt')]
                touched = []
                for it in fmt_items:
                    for b in fb.bodies_of_item(icr, strip_generics(it)):
                        # formatted operand types
                        for bb, j, st in b.all_assigns():
                            rv = st['rv']
                            if rv['k'] == 'cast' and ('dyn core::fmt::Debug' in rv['ty'] or 'dyn core::fmt::Display' in rv['ty']):
                                pl = op_place(rv['op'])
                                if pl is not None:
                                    for p in _adt_paths(b.locals[pl['l']]):
                                        work.append(strip_generics(p))
                        for bb, t in b.calls():
                            c = callee(t)
                            if c in ('core::fmt::Debug::fmt', 'core::fmt::Display::fmt'):
                                for p in _adt_paths(t['aty'][0]):
                                    work.append(strip_generics(p))
                            if c == SID + '::inner':
                                touched.append('calls SessionId::inner at %s' % b.loc(bb, t))
                        for li, lt in enumerate(b.locals):
                            if 'uuid::Uuid' in lt:
                                touched.append('holds a uuid::Uuid value (local _%d)' % li)
                                break
                ctx.ob('C12.R4', 'impl|%s' % ty.split('::')[-1], not touched, '%s' % i['file'],
                       'hand-written Debug: %s' % ('does not touch the inside of a SessionId' if not touched else '; '.join(touched)))
    ctx.count('types_in_debug_closure', len(seen))
    ctx.count('debug_impls_checked', checked)
    ctx.floor('C12.R4', 'Debug impls analysed in the closure of Session', checked, 8)
    # positive control: the Session impl itself must be found and hand-written
    sess = [x for x in dbg.get(M + 'Session', []) if x[2] == 'core::fmt::Debug']
    ctx.ob('C12.R4', 'anchor|Debug-for-Session', len(sess) == 1, '', 'impl Debug for Session found: %d' % len(sess), nontrivial=False)


def r5_headers_are_the_processors_output(ctx):
    ctx.rule('C12.R5', 'P7/P3 on the emitting side: the `Set-Cookie` values leave through `pavex::cookie::ResponseCookies::header_values`; what it yields is what the '
             'cookie processor produced. Either the body hands the whole jar to `biscotti::ResponseCookies::header_values(processor)` and returns its result, '
             'or every cookie goes through `Processor::process_outgoing` and nothing derived from that result is passed to a `set_*` / `make_*` method before it is '
             'formatted. In pavex and pavex_session no cookie is edited after `process_outgoing`: a value put back after signing / encryption (even an empty '
             'one) leaves unprotected.')
    fb = ctx.fb
    item = 'pavex::cookie::response_cookies::ResponseCookies::header_values'
    bodies = [b for b in fb.bodies_of_item('pavex', item) if not b.is_promoted]
    if not ctx.need('C12.R5', 'bodies of ' + item, bodies):
        return
    whole = [(b, bb, t) for b in bodies for bb, t in b.calls() if (callee(t) or '').startswith('biscotti::response_cookies::ResponseCookies') and (callee(t) or '').endswith('::header_values')]
    per = [(b, bb, t) for b in bodies for bb, t in b.calls() if (callee(t) or '').endswith('Processor::process_outgoing')]
    ok = bool(whole) or bool(per)
    if whole:
        b, bb, t = whole[0]
        ok = t['dest']['l'] == 0 and not t['dest'].get('p')       # returned as it is
        if not ok:
            d = forward_derived(b, {t['dest']['l']})
            ok = 0 in d and not any(op_place(a) is not None and op_place(a)['l'] in d for _, u in b.calls() if u is not t for a in u['args'])
    ctx.ob('C12.R5', 'header-values-are-the-processors', ok, bodies[0].loc(),
           'header_values %s' % ('returns biscotti\'s header_values(processor)' if whole else ('processes each cookie itself' if per else 'never reaches the processor')))
    n = 0
    for cr in ('pavex', 'pavex_session'):
        for b in fb.bodies(cr):
            if b.is_promoted:
                continue
            for bb, t in b.calls():
                if not (callee(t) or '').endswith('Processor::process_outgoing'):
                    continue
                n += 1
                d = forward_derived(b, {t['dest']['l']}, through_calls=False)
                edits = []
                for xb, u in b.calls():
                    c = callee(u) or ''
                    m = c.split('::')[-1].split('<')[0]
                    if ('ResponseCookie' in c or 'Cookie' in c) and (m.startswith('set_') or m.startswith('make_') or m.startswith('unset_')):
                        if any(op_place(a) is not None and op_place(a)['l'] in d for a in u['args'][:1]):
                            edits.append(m)
                ctx.ob('C12.R5', 'not-edited-after-processing|%s' % b.nid.replace('pavex::', ''), not edits, b.loc(bb, t),
                       'cookie methods applied to the processed cookie: %s' % (edits or 'none'))
    ctx.count('process_outgoing_call_sites_in_pavex', n)


def check(ctx):
    r5_headers_are_the_processors_output(ctx)
    r1_protection(ctx)
    r2_who_builds_cookies(ctx)
    r3_attribute_plumbing(ctx)
    r4_debug_closure(ctx)


CLAUSE += " Also: the Set-Cookie values are the processor's output, never edited after process_outgoing."
