"""Intra-body dataflow helpers over the MIR facts (P7 provenance, forward derivation)."""
from .facts import callee, op_place, strip_generics


def rv_operands(rv):
    """operands (dicts) read by an rvalue, and places read by ref/discr/cfd"""
    k = rv['k']
    ops, places = [], []
    if k in ('use', 'repeat', 'cast', 'un', 'wub'):
        ops.append(rv['op'])
    elif k == 'bin':
        ops += [rv['a'], rv['b']]
    elif k == 'agg':
        ops += rv['ops']
    elif k in ('ref', 'rawptr', 'discr', 'cfd'):
        places.append(rv['pl'])
    return ops, places


def rv_read_locals(rv):
    ops, places = rv_operands(rv)
    out = []
    for o in ops:
        pl = op_place(o)
        if pl is not None:
            out.append(pl['l'])
            out += [int(p[2:]) for p in pl.get('p', []) if p.startswith('i:')]
    for pl in places:
        out.append(pl['l'])
    return out


class Defs:
    """definition sites per local: full assignments (no projection on the lhs) and call destinations"""

    def __init__(self, body):
        self.body = body
        self.full = {}      # local -> [(bb, idx_or_None, node)]   node = stmt or call terminator
        self.partial = {}   # local -> [(bb, idx, stmt)]  assignments to a (non-deref) projection of the local
        self.stores = {}    # local -> [(bb, idx, stmt)]  stores through a pointer held in the local
        for bb, blk in enumerate(body.blocks):
            for j, st in enumerate(blk['st']):
                lhs = st.get('lhs')
                if lhs is None:
                    continue
                if lhs.get('p'):
                    if '*' in lhs['p']:
                        # a store through a pointer is not a definition of the pointer itself
                        self.stores.setdefault(lhs['l'], []).append((bb, j, st))
                    else:
                        self.partial.setdefault(lhs['l'], []).append((bb, j, st))
                else:
                    self.full.setdefault(lhs['l'], []).append((bb, j, st))
            t = blk['term']
            if t and t['k'] == 'call':
                d = t['dest']
                if d.get('p'):
                    if '*' in d['p']:
                        self.stores.setdefault(d['l'], []).append((bb, None, t))
                    else:
                        self.partial.setdefault(d['l'], []).append((bb, None, t))
                else:
                    self.full.setdefault(d['l'], []).append((bb, None, t))
            if t and t['k'] == 'yield':
                pass


def _reads_with_field(rv):
    """[(local, first field projection or None)] read by an rvalue (field-sensitive on the first projection element)"""
    ops, places = rv_operands(rv)
    out = []
    def first_field(p):
        # `(*x).f` reads field f of what x points to: derefs in front of the field do not matter for which field it is
        q = [e for e in p if e != '*']
        return q[0] if q and q[0].startswith('f:') and (not p or p[0] == '*' or p[0].startswith('f:')) else None
    for o in ops:
        pl = op_place(o)
        if pl is not None:
            p = pl.get('p', [])
            out.append((pl['l'], first_field(p)))
            out += [(int(x[2:]), None) for x in p if x.startswith('i:')]
    for pl in places:
        p = pl.get('p', [])
        out.append((pl['l'], first_field(p)))
    return out


def backward_slice(body, local, defs=None, through_calls=True, max_nodes=4000, stop=None):
    """All (bb, idx, node) definition nodes that may contribute to the value of `local`
    (flow-insensitive over the defs of each temp; MIR temps are almost always single-assignment).
    Field-sensitive for aggregates: reading `_t.f:k` of a local built by a tuple/struct aggregate follows operand k only.
    `through_calls`: follow the arguments of calls whose result flows in.
    `stop(node)`: predicate; when true the node is included but its inputs are not followed."""
    defs = defs or Defs(body)
    seen = set()
    seen_locals = set()
    out = []
    out_ids = set()
    work = [(local, None)]
    while work and len(out) < max_nodes:
        l, fld = work.pop()
        if (l, fld) in seen:
            continue
        seen.add((l, fld))
        seen_locals.add(l)
        for site in defs.full.get(l, []) + defs.partial.get(l, []):
            bb, j, node = site
            if id(node) not in out_ids:
                out_ids.add(id(node))
                out.append(site)
            if stop is not None and stop(node):
                continue
            if 'rv' in node:
                rv = node['rv']
                if fld is not None and rv['k'] == 'agg' and not node['lhs'].get('p'):
                    # follow only the selected field of the aggregate
                    idx = None
                    name = fld[2:]
                    if rv.get('ak') == 'adt' and name in rv.get('fields', []):
                        idx = rv['fields'].index(name)
                    elif name.isdigit() and int(name) < len(rv['ops']):
                        idx = int(name)
                    if idx is not None:
                        pl = op_place(rv['ops'][idx])
                        if pl is not None:
                            p = pl.get('p', [])
                            work.append((pl['l'], p[0] if p and p[0].startswith('f:') else None))
                        continue
                if fld is not None and node['lhs'].get('p') and node['lhs']['p'][0].startswith('f:') and node['lhs']['p'][0] != fld:
                    continue   # a write to a different field of the same local
                reads = _reads_with_field(rv)
                if fld is not None and rv['k'] in ('use', 'ref') and not node['lhs'].get('p') and len(reads) == 1 and reads[0][1] is None:
                    src = rv.get('pl') or op_place(rv['op'])
                    if src is not None and all(e == '*' for e in src.get('p', [])):
                        reads = [(reads[0][0], fld)]      # a copy of / reference to the whole value: the field asked for is the field of the source
                work += reads
            elif node.get('k') == 'call':
                if through_calls:
                    for a in node['args']:
                        pl = op_place(a)
                        if pl is not None:
                            work.append((pl['l'], None))
                fp = node.get('fp')
                if fp is not None:
                    pl = op_place(fp)
                    if pl is not None:
                        work.append((pl['l'], None))
    return out, seen_locals


def slice_aggregates(sl):
    """(adt, variant, bb, node) for every ADT aggregate in a slice"""
    for bb, j, node in sl:
        rv = node.get('rv')
        if rv and rv['k'] == 'agg' and rv.get('ak') == 'adt':
            yield strip_generics(rv['adt']), rv['var'], bb, node


def slice_calls(sl):
    for bb, j, node in sl:
        if node.get('k') == 'call':
            yield callee(node), bb, node


def slice_consts(sl):
    """string / int constants appearing as operands anywhere in the slice"""
    for bb, j, node in sl:
        ops = []
        if 'rv' in node:
            o, _ = rv_operands(node['rv'])
            ops += o
        elif node.get('k') == 'call':
            ops += node['args']
        for o in ops:
            if 'str' in o:
                yield 'str', o['str'], bb, node
            elif 'bytes' in o:
                yield 'bytes', o['bytes'], bb, node
            elif 'int' in o:
                yield 'int', o['int'], bb, node
            elif 'tyconst' in o and o['tyconst'].startswith('"'):
                yield 'str', o['tyconst'].strip('"'), bb, node
            elif 'uneval' in o:
                yield 'uneval', o['uneval'], bb, node


def forward_derived(body, seeds, defs=None, through_calls=False):
    """Locals whose value derives from any local in `seeds` by use/ref/reborrow/cast/cfd of a place based on a
    derived local (optionally through call results when a derived local is an argument)."""
    derived = set(seeds)
    changed = True
    while changed:
        changed = False
        for bb, blk in enumerate(body.blocks):
            for st in blk['st']:
                lhs = st.get('lhs')
                if lhs is None or lhs.get('p') or lhs['l'] in derived:
                    continue
                rv = st['rv']
                if rv['k'] in ('use', 'ref', 'cfd', 'cast', 'rawptr'):
                    if any(l in derived for l in rv_read_locals(rv)[:1]):
                        derived.add(lhs['l'])
                        changed = True
                elif through_calls and rv['k'] in ('bin', 'un'):
                    # comparisons / negations of a derived value (only when the caller asked for the wide closure)
                    if any(l in derived for l in rv_read_locals(rv)):
                        derived.add(lhs['l'])
                        changed = True
            t = blk['term']
            if through_calls and t and t['k'] == 'call' and not t['dest'].get('p') and t['dest']['l'] not in derived:
                for a in t['args']:
                    pl = op_place(a)
                    if pl is not None and pl['l'] in derived:
                        derived.add(t['dest']['l'])
                        changed = True
                        break
    return derived


def place_has(pl, *elems):
    p = pl.get('p', [])
    return all(e in p for e in elems)


def place_endswith(pl, *elems):
    p = pl.get('p', [])
    n = len(elems)
    return len(p) >= n and list(p[-n:]) == list(elems)


def slice_strs(fb, body, sl):
    """string constants contributing to a slice, including format_args! templates (byte arrays) and promoted constants"""
    import re
    out = []
    for kind, v, _, _ in slice_consts(sl):
        if kind == 'str':
            out.append(v)
        elif kind == 'bytes':
            out += [m for m in re.findall(r'[ -~]{2,}', v)]
    for _, _, node in sl:
        ops = []
        if 'rv' in node:
            ops, _ = rv_operands(node['rv'])
        elif node.get('k') == 'call':
            ops = node['args']
        for o in ops:
            if 'promoted' in o:
                out += promoted_strs(fb, body, o['promoted'], o.get('powner'))
            elif 'uneval' in o and 'promoted' not in o:
                out.append('const:' + o['uneval'])
                if o['uneval'].startswith(body.crate + '::'):
                    out += static_strs(fb, body, o['uneval'])       # a `const NAME: &str = ".."` of the crate: its value
            elif 'static' in o:
                out += static_strs(fb, body, o['static'])
    return out


def static_strs(fb, body, path):
    """string value(s) of a `static NAME: &str = ".."` item of the same crate, referenced as `&NAME`"""
    out = []
    ctype = 'Rlib' if (body.crate, 'Rlib') in fb.available() else 'ProcMacro'
    for b in fb.bodies(body.crate, ctype):
        if b.nid == strip_generics(path):
            for bb, j, st in b.all_assigns():
                for oo in rv_operands(st['rv'])[0]:
                    if 'str' in oo:
                        out.append(oo['str'])
    return out


def promoted_strs(fb, body, idx, owner=None):
    out = []
    owner = owner or body.id
    pid = '%s::{promoted#%d}' % (owner, idx)
    for b in fb.bodies(body.crate, 'Rlib' if (body.crate, 'Rlib') in fb.available() else 'ProcMacro'):
        if b.id == pid:
            for bb, j, st in b.all_assigns():
                for oo in rv_operands(st['rv'])[0]:
                    if 'str' in oo:
                        out.append(oo['str'])
                    elif 'uneval' in oo:
                        out.append('const:' + oo['uneval'])
                        if 'promoted' not in oo and oo['uneval'].startswith(body.crate + '::'):
                            out += static_strs(fb, body, oo['uneval'])       # `&NAME` of a `const NAME: &str` of the crate: its value
    return out
