"""MIR-level inlining of crate-local helper functions (P13).

A rule that reasons about one function's control flow (dominance, must-pass-through, guard contexts, slices) should not care whether a
piece of that function has been moved into a private helper. `inlined(fb, body, ...)` returns a new Body in which every direct call to
an eligible helper is replaced by the helper's own blocks:

    bbN:  dest = helper(a1, .., ak) -> t          bbN:  p1 = a1; ..; pk = ak; goto entry'
                                          ==>     ...   helper's blocks, locals and block numbers shifted
                                                  ret': dest = move _0'; goto t

Eligible: a non-coroutine function of the same crate that is not public (private, `pub(crate)`, `pub(super)`; any file), not recursive, whose normalised path is not in `keep` (the callee names the rule itself anchors on) — or, with `also`, any function
whose path the predicate accepts. Depth-bounded (default 4 levels). Unwind edges are renumbered but not followed by Body.succ().

The inlined callee's closures stay separate bodies; `Body.extra_roots` lists the helper items that were inlined so that rules that look
for the closures of "this function" (`bodies_of_item`) can include them (see `closures_of`).
"""
import copy
import re

from .facts import Body, callee, callee_resolved, strip_generics


def _ctype(fb, crate, body=None):
    if body is not None and body.raw.get('ctype'):
        return body.raw['ctype']
    return 'Rlib' if (crate, 'Rlib') in fb.available() else 'ProcMacro'


def _shift_place(pl, dl):
    if pl is None:
        return
    pl['l'] += dl
    p = pl.get('p')
    if p:
        for i, e in enumerate(p):
            if isinstance(e, str) and e.startswith('i:_'):
                try:
                    p[i] = 'i:_%d' % (int(e[3:]) + dl)
                except ValueError:
                    pass


def _shift(node, dl):
    """shift every place found anywhere inside a JSON node by dl locals"""
    if isinstance(node, dict):
        if 'l' in node and isinstance(node['l'], int) and set(node.keys()) <= {'l', 'p', 'e', 'fo'}:
            _shift_place(node, dl)
            return
        for v in node.values():
            _shift(v, dl)
    elif isinstance(node, list):
        for v in node:
            _shift(v, dl)


BLOCK_KEYS = ('t', 'u', 'else', 'dr')
MAX_FOREIGN_BLOCKS = 120      # size limit for helpers that live in another file
MAX_TOTAL_BLOCKS = 4000       # stop inlining when the body has grown this large


def _own_promoted(node, owner):
    """operands that name a promoted constant of the helper keep pointing at the helper's promoted bodies"""
    if isinstance(node, dict):
        if 'promoted' in node and 'powner' not in node:
            node['powner'] = owner
        for v in node.values():
            _own_promoted(v, owner)
    elif isinstance(node, list):
        for v in node:
            _own_promoted(v, owner)


def _shift_blocks(term, db):
    for k in BLOCK_KEYS:
        if k in term and isinstance(term[k], int):
            term[k] += db
    if term.get('k') == 'switch':
        term['ts'] = [[v, t + db] for v, t in term['ts']]


def eligible(fb, root, cb, keep, also):
    if cb is None or cb.is_coroutine or cb.is_promoted:
        return False
    if cb.nid in keep or cb.nid == root.nid:
        return False
    if cb.raw.get('dk') not in ('Fn', 'AssocFn'):
        return False
    if also is not None and also(cb):
        return True
    # a helper is a function of the crate that is not part of its public API: defined in the same file, or in another module with a
    # restricted visibility (`pub(crate)` / `pub(super)`) — logic that was moved next to the data it works on is still the same logic
    if cb.raw.get('vis') == 'Public':
        return False
    # (in a crate where almost everything is `pub(crate)` that would pull whole subsystems in: outside the root's file only small helpers)
    return cb.file == root.file or len(cb.blocks) <= MAX_FOREIGN_BLOCKS


def _generic_map(t):
    """{declared generic parameter name: actual argument} for a call terminator (`f` spells the declared names, `ga` the actuals)"""
    f, ga = t.get('f') or '', t.get('ga') or []
    if t.get('gn') and len(t['gn']) == len(ga):
        return {a: b for a, b in zip(t['gn'], ga) if re.match(r'^[A-Za-z_]\w*$', a) and a != b}
    names, i, n = [], 0, len(f)
    while i < n:
        j = f.find('::<', i)
        if j < 0:
            break
        k, depth = j + 3, 1
        start = k
        while k < n and depth:
            c = f[k]
            if c == '<':
                depth += 1
            elif c == '>' and f[k - 1] != '-':
                depth -= 1
            elif c == ',' and depth == 1:
                names.append(f[start:k].strip())
                start = k + 1
            k += 1
        names.append(f[start:k - 1].strip())
        i = k
    if len(names) != len(ga):
        return {}
    return {a: b for a, b in zip(names, ga) if re.match(r'^[A-Za-z_]\w*$', a) and a != b}


def _subst_types(blocks, m):
    if not m:
        return
    rx = re.compile(r'(?<![\w:])(' + '|'.join(re.escape(k) for k in m) + r')(?![\w])')

    def sub(x):
        return rx.sub(lambda mm: m[mm.group(1)], x) if isinstance(x, str) else x
    for nb in blocks:
        for st in nb['st']:
            if 'lty' in st:
                st['lty'] = sub(st['lty'])
            rv = st.get('rv')
            if rv and 'ty' in rv:
                rv['ty'] = sub(rv['ty'])
        nt = nb['term']
        if nt and nt['k'] == 'call':
            for k in ('ga', 'aty'):
                if k in nt:
                    nt[k] = [sub(x) for x in nt[k]]
            if 'fx' in nt:
                nt['fx'] = sub(nt['fx'])


def _async_body(fb, crate, cb):
    """for `async fn f(..)`: (operands of the coroutine aggregate built by f, the coroutine body) — else None"""
    aggs = [st for blk in cb.blocks for st in blk['st'] if st.get('lhs') == {'l': 0} and st['rv']['k'] == 'agg' and st['rv'].get('ak') == 'coroutine']
    if len(aggs) != 1:
        return None
    bs = [b for b in fb.bodies_of_item(crate, cb.nroot, _ctype(fb, crate, cb)) if b.is_coroutine and b.id == aggs[0]['rv'].get('def')]
    if len(bs) != 1:
        return None
    ops = []
    for o in aggs[0]['rv']['ops']:
        pl = o.get('cp') or o.get('mv')
        if pl is None or pl.get('p') or not (1 <= pl['l'] <= cb.raw['argc']):
            return None
        ops.append(pl['l'] - 1)
    return ops, bs[0], aggs[0]['rv'].get('def')


def _whole_local(op):
    pl = op.get('cp') or op.get('mv') if op else None
    return pl['l'] if pl is not None and not pl.get('p') else None


def _inline_async(blocks, locals_, vars_, i, t, cb, co):
    """`f(args).await` where f is an async helper: every `Future::poll` of the future returned by this call is replaced by the helper's
    coroutine body (its upvars bound to the call's arguments, its `return v` turned into `Poll::Ready(v)`). -> new block indices"""
    ops, cbody, cdef = co
    dest = t.get('dest')
    if dest is None or dest.get('p') or 't' not in t:
        return []
    f = dest['l']
    # _g = IntoFuture::into_future(move _f)
    g = None
    for blk in blocks:
        tt = blk['term']
        if tt and tt['k'] == 'call' and strip_generics(tt.get('f') or '') == 'core::future::into_future::IntoFuture::into_future' \
                and tt['args'] and _whole_local(tt['args'][0]) == f and tt.get('dest') and not tt['dest'].get('p'):
            g = tt['dest']['l']
    if g is None:
        return []
    gs = {g}
    changed = True
    while changed:
        changed = False
        for blk in blocks:
            for st in blk['st']:
                if 'lhs' in st and not st['lhs'].get('p') and st['lhs']['l'] not in gs and st['rv']['k'] == 'use' \
                        and _whole_local(st['rv']['op']) in gs:
                    gs.add(st['lhs']['l'])
                    changed = True
    refs = set()
    changed = True
    while changed:
        changed = False
        for blk in blocks:
            for st in blk['st']:
                if 'lhs' not in st or st['lhs'].get('p') or st['lhs']['l'] in refs:
                    continue
                rv = st['rv']
                src = rv['pl'] if rv['k'] == 'ref' else (rv['op'].get('cp') or rv['op'].get('mv') if rv['k'] == 'use' else None)
                if src is None:
                    continue
                if (rv['k'] == 'ref' and not src.get('p') and src['l'] in gs) or (src['l'] in refs and all(e == '*' for e in src.get('p', []))):
                    refs.add(st['lhs']['l'])
                    changed = True
    pins = set()
    for blk in blocks:
        tt = blk['term']
        if tt and tt['k'] == 'call' and strip_generics(tt.get('f') or '').endswith('Pin::new_unchecked') and tt['args'] \
                and _whole_local(tt['args'][0]) in refs and tt.get('dest') and not tt['dest'].get('p'):
            pins.add(tt['dest']['l'])
    polls = [j for j, blk in enumerate(blocks) if blk['term'] and blk['term']['k'] == 'call'
             and strip_generics(blk['term'].get('f') or '') == 'core::future::future::Future::poll'
             and blk['term']['args'] and _whole_local(blk['term']['args'][0]) in pins]
    if not polls:
        return []
    added = []
    for pj in polls:
        pt = blocks[pj]['term']
        dl, db = len(locals_), len(blocks)
        locals_.extend(cbody.raw['locals'])
        for v in copy.deepcopy(cbody.raw['vars']):
            if 'pl' in v:
                _shift_place(v['pl'], dl)
            vars_.append(v)
        cont, unwind, pdest = pt.get('t'), pt.get('u'), pt.get('dest')
        new_blocks = copy.deepcopy(cbody.raw['blocks'])
        _subst_types(new_blocks, _generic_map(t))
        _own_promoted(new_blocks, cbody.id)
        for nb in new_blocks:
            _shift(nb['st'], dl)
            nt = nb['term']
            if nt:
                _shift(nt, dl)
                _shift_blocks(nt, db)
                if nt['k'] == 'return':
                    if pdest is not None:
                        nb['st'].append({'ln': nt.get('ln'), 'lhs': copy.deepcopy(pdest), 'inl': cb.nid,
                                         'rv': {'k': 'agg', 'ak': 'adt', 'adt': 'core::task::poll::Poll', 'var': 'Ready', 'fields': ['0'],
                                                'ops': [{'mv': {'l': dl}}]}})
                    nb['term'] = {'ln': nt.get('ln'), 'k': 'goto', 't': cont, 'inl': cb.nid} if cont is not None else {'ln': nt.get('ln'), 'k': 'unreachable'}
                elif nt['k'] == 'resume' and unwind is not None:
                    nb['term'] = {'ln': nt.get('ln'), 'k': 'goto', 't': unwind}
            blocks.append(nb)
        blocks[pj]['st'].append({'ln': t.get('ln'), 'lhs': {'l': dl + 1}, 'inl': cb.nid,
                                 'rv': {'k': 'agg', 'ak': 'coroutine', 'def': cdef, 'ops': [copy.deepcopy(t['args'][k]) for k in ops]}})
        if len(pt['args']) > 1:
            blocks[pj]['st'].append({'ln': t.get('ln'), 'lhs': {'l': dl + 2}, 'rv': {'k': 'use', 'op': copy.deepcopy(pt['args'][1])}, 'inl': cb.nid})
        blocks[pj]['term'] = {'ln': pt.get('ln'), 'k': 'goto', 't': db, 'inl': cb.nid, 'inl_call': t}
        added.extend(range(db, db + len(new_blocks)))
        # the inlined body hands back `Poll::Ready(value)`: the `Pending => yield` arm of the await is dead here (the helper's own awaits
        # keep their yields)
        if cont is not None and pdest is not None and not pdest.get('p'):
            ct_ = blocks[cont]['term']
            if ct_ and ct_['k'] == 'switch' and strip_generics(ct_.get('enum', '')) == 'core::task::poll::Poll' and ct_.get('src') == {'l': pdest['l']}:
                ready = [tg for v_, tg in ct_['ts'] if v_ == 'Ready']
                if ready:
                    blocks[cont]['term'] = {'ln': ct_.get('ln'), 'k': 'goto', 't': ready[0], 'inl': cb.nid}
    # the call that only built the future
    blocks[i]['st'].append({'ln': t.get('ln'), 'lhs': copy.deepcopy(dest), 'inl': cb.nid,
                            'rv': {'k': 'agg', 'ak': 'coroutine', 'def': cdef, 'ops': [copy.deepcopy(t['args'][k]) for k in ops]}})
    blocks[i]['term'] = {'ln': t.get('ln'), 'k': 'goto', 't': t['t'], 'inl': cb.nid, 'inl_call': t}
    return added


# ---- closures handed to "call it at most once, right now" combinators ------------------------------------------------------------
#   dest = Option::map(o, f)          switch o { Some(x) => dest = Some(f(x)), None => dest = None }
#   dest = Result::map_err(r, f)      switch r { Ok(x) => dest = Ok(x), Err(e) => dest = Err(f(e)) }
#   dest = bool::then(c, f)           if c { dest = Some(f()) } else { dest = None }            (and a few more of the same family)
OPT_ADT, RES_ADT = 'core::option::Option', 'core::result::Result'
COMBINATORS = {
    'core::option::Option::map':            (OPT_ADT, 'Some', 'None', ('wrap', OPT_ADT, 'Some'), ('pass',)),
    'core::option::Option::and_then':       (OPT_ADT, 'Some', 'None', ('raw',), ('pass',)),
    'core::option::Option::unwrap_or_else': (OPT_ADT, 'None', 'Some', ('raw',), ('payload',)),
    'core::option::Option::ok_or_else':     (OPT_ADT, 'None', 'Some', ('wrap', RES_ADT, 'Err'), ('rewrap', RES_ADT, 'Ok')),
    'core::option::Option::or_else':        (OPT_ADT, 'None', 'Some', ('raw',), ('pass',)),
    'core::result::Result::map':            (RES_ADT, 'Ok', 'Err', ('wrap', RES_ADT, 'Ok'), ('pass',)),
    'core::result::Result::map_err':        (RES_ADT, 'Err', 'Ok', ('wrap', RES_ADT, 'Err'), ('pass',)),
    'core::result::Result::and_then':       (RES_ADT, 'Ok', 'Err', ('raw',), ('pass',)),
    'core::result::Result::unwrap_or_else': (RES_ADT, 'Err', 'Ok', ('raw',), ('payload',)),
    'core::result::Result::or_else':        (RES_ADT, 'Err', 'Ok', ('raw',), ('pass',)),
}
BOOL_THEN = 'core::bool::{impl bool}::then'


def _closure_of(fb, body, blocks, local):
    """(closure body, operands of the closure aggregate) for a local that holds a closure built in this body"""
    hit = None
    for blk in blocks:
        for st in blk['st']:
            if 'lhs' in st and st['lhs'] == {'l': local} and st['rv']['k'] == 'agg' and st['rv'].get('ak') == 'closure':
                if hit is not None:
                    return None
                hit = st['rv']
    if hit is None or not hit.get('def'):
        return None
    ct = _ctype(fb, body.crate, body)
    for x in fb.bodies(body.crate, ct):
        if x.id == hit['def'] and not x.is_coroutine:
            return x
    return None


def _inline_combinator(fb, body, blocks, locals_, vars_, i, t, name):
    """-> new block indices (empty if the site is left alone)"""
    is_then = name == BOOL_THEN
    spec = COMBINATORS.get(name)
    if (spec is None and not is_then) or len(t['args']) != 2 or t.get('dest') is None or t['dest'].get('p') or 't' not in t:
        return []
    recv, clo = _whole_local(t['args'][0]), _whole_local(t['args'][1])
    if recv is None or clo is None:
        return []
    cb = _closure_of(fb, body, blocks, clo)
    if cb is None:
        return []
    n_params = cb.raw['argc'] - 1
    if n_params != (0 if is_then or spec[1] == 'None' else 1):
        return []
    dest, cont = t['dest'], t['t']
    ln = t.get('ln')
    dl, db = len(locals_), len(blocks)
    locals_.extend(cb.raw['locals'])
    for v in copy.deepcopy(cb.raw['vars']):
        if 'pl' in v:
            _shift_place(v['pl'], dl)
        vars_.append(v)
    new_blocks = copy.deepcopy(cb.raw['blocks'])
    _own_promoted(new_blocks, cb.id)
    adt = OPT_ADT if is_then else spec[0]
    wrap = ('wrap', OPT_ADT, 'Some') if is_then else spec[3]
    for nb in new_blocks:
        _shift(nb['st'], dl)
        nt = nb['term']
        if nt:
            _shift(nt, dl)
            _shift_blocks(nt, db)
            if nt['k'] == 'return':
                if wrap[0] == 'wrap':
                    nb['st'].append({'ln': ln, 'lhs': copy.deepcopy(dest), 'inl': cb.nid,
                                     'rv': {'k': 'agg', 'ak': 'adt', 'adt': wrap[1], 'var': wrap[2], 'fields': ['0'], 'ops': [{'mv': {'l': dl}}]}})
                else:
                    nb['st'].append({'ln': ln, 'lhs': copy.deepcopy(dest), 'inl': cb.nid, 'rv': {'k': 'use', 'op': {'mv': {'l': dl}}}})
                nb['term'] = {'ln': ln, 'k': 'goto', 't': cont, 'inl': cb.nid}
            elif nt['k'] == 'resume' and t.get('u') is not None:
                nb['term'] = {'ln': ln, 'k': 'goto', 't': t['u']}
        blocks.append(nb)
    # the block that enters the closure: bind its environment and its argument
    by_ref = cb.raw['locals'][1].startswith('&')
    enter = {'st': [{'ln': ln, 'lhs': {'l': dl + 1}, 'inl': cb.nid,
                     'rv': ({'k': 'ref', 'bk': 'shared', 'pl': {'l': clo}} if by_ref else {'k': 'use', 'op': {'mv': {'l': clo}}})}],
             'term': {'ln': ln, 'k': 'goto', 't': db, 'inl': cb.nid}}
    if not is_then and spec[1] != 'None':
        enter['st'].append({'ln': ln, 'lhs': {'l': dl + 2}, 'inl': cb.nid,
                            'rv': {'k': 'use', 'op': {'mv': {'l': recv, 'p': ['d:' + spec[1], 'f:0'], 'e': [adt]}}}})
    b_enter = len(blocks)
    blocks.append(enter)
    # the block for the other variant
    other = {'st': [], 'term': {'ln': ln, 'k': 'goto', 't': cont, 'inl': cb.nid}}
    if is_then:
        other['st'].append({'ln': ln, 'lhs': copy.deepcopy(dest), 'rv': {'k': 'agg', 'ak': 'adt', 'adt': OPT_ADT, 'var': 'None', 'fields': [], 'ops': []}})
    else:
        how, ovar = spec[4], spec[2]
        if how[0] == 'pass':
            if ovar == 'None':
                other['st'].append({'ln': ln, 'lhs': copy.deepcopy(dest), 'rv': {'k': 'agg', 'ak': 'adt', 'adt': wrap[1] if wrap[0] == 'wrap' else adt, 'var': 'None', 'fields': [], 'ops': []}})
            else:
                tgt_adt = wrap[1] if wrap[0] == 'wrap' else adt
                other['st'].append({'ln': ln, 'lhs': copy.deepcopy(dest),
                                    'rv': {'k': 'agg', 'ak': 'adt', 'adt': tgt_adt, 'var': ovar, 'fields': ['0'],
                                           'ops': [{'mv': {'l': recv, 'p': ['d:' + ovar, 'f:0'], 'e': [adt]}}]}})
        elif how[0] == 'payload':
            other['st'].append({'ln': ln, 'lhs': copy.deepcopy(dest), 'rv': {'k': 'use', 'op': {'mv': {'l': recv, 'p': ['d:' + ovar, 'f:0'], 'e': [adt]}}}})
        elif how[0] == 'rewrap':
            other['st'].append({'ln': ln, 'lhs': copy.deepcopy(dest),
                                'rv': {'k': 'agg', 'ak': 'adt', 'adt': how[1], 'var': how[2], 'fields': ['0'],
                                       'ops': [{'mv': {'l': recv, 'p': ['d:' + ovar, 'f:0'], 'e': [adt]}}]}})
    for st_ in other['st']:
        st_['inl'] = cb.nid
    b_other = len(blocks)
    blocks.append(other)
    # the call site becomes the test
    if is_then:
        blocks[i]['term'] = {'ln': ln, 'k': 'switch', 'd': copy.deepcopy(t['args'][0]), 'dty': 'bool', 'ts': [['0', b_other]], 'else': b_enter,
                             'inl': cb.nid, 'inl_call': t}
    else:
        dloc = len(locals_)
        locals_.append('isize')
        blocks[i]['st'].append({'ln': ln, 'lhs': {'l': dloc}, 'rv': {'k': 'discr', 'pl': {'l': recv}, 'ty': adt}, 'inl': cb.nid})
        blocks[i]['term'] = {'ln': ln, 'k': 'switch', 'd': {'mv': {'l': dloc}}, 'dty': 'isize', 'enum': adt, 'src': {'l': recv},
                             'ts': [[spec[1], b_enter]], 'else': b_other, 'rest': [spec[2]], 'inl': cb.nid, 'inl_call': t}
    return list(range(db, len(blocks)))


def inlined(fb, body, keep=(), also=None, depth=4, crate=None, closures=True, only=None):
    """-> Body (a new one if anything was inlined, else `body` itself)"""
    crate = crate or body.crate
    keep = set(keep)
    raw = None
    stack_names = {body.nid}
    work = [(i, 0, frozenset([body.nid])) for i in range(len(body.blocks))]
    extra = []
    blocks = body.blocks
    locals_ = body.locals
    while work:
        i, d, chain = work.pop()
        t = blocks[i]['term']
        if not t or t['k'] != 'call' or d >= depth or len(blocks) > MAX_TOTAL_BLOCKS:
            continue
        name = callee_resolved(t) or callee(t)
        if closures and name and (callee(t) in COMBINATORS or callee(t) == BOOL_THEN):
            if raw is None:
                raw = dict(body.raw)
                raw['blocks'] = blocks = copy.deepcopy(body.raw['blocks'])
                raw['locals'] = locals_ = list(body.raw['locals'])
                raw['vars'] = copy.deepcopy(body.raw['vars'])
                t = blocks[i]['term']
            added = _inline_combinator(fb, body, blocks, locals_, raw['vars'], i, t, callee(t))
            if added:
                work.extend((j, d + 1, chain) for j in added)
                raw.setdefault('inlined_closures', []).append(blocks[i]['term'].get('inl'))
            continue
        if not name or not name.startswith(crate + '::') and not name.startswith('<' + crate + '::'):
            continue
        if name in chain:
            continue
        try:
            cb = fb.body(crate, name, _ctype(fb, crate, body))
        except KeyError:
            cb = None
        if not eligible(fb, body, cb, keep, also) or (only is not None and not only(cb)):
            continue
        if cb.raw['argc'] != len(t['args']):
            continue
        co = _async_body(fb, crate, cb)
        if co is not None:
            if raw is None:
                raw = dict(body.raw)
                raw['blocks'] = blocks = copy.deepcopy(body.raw['blocks'])
                raw['locals'] = locals_ = list(body.raw['locals'])
                raw['vars'] = copy.deepcopy(body.raw['vars'])
                t = blocks[i]['term']
            added = _inline_async(blocks, locals_, raw['vars'], i, t, cb, co)
            if added:
                extra.append(cb.nroot)
                work.extend((j, d + 1, chain | {name}) for j in added)
            continue
        if raw is None:
            raw = dict(body.raw)
            raw['blocks'] = blocks = copy.deepcopy(body.raw['blocks'])
            raw['locals'] = locals_ = list(body.raw['locals'])
            raw['vars'] = copy.deepcopy(body.raw['vars'])
            t = blocks[i]['term']
        dl, db = len(locals_), len(blocks)
        locals_.extend(cb.raw['locals'])
        for v in copy.deepcopy(cb.raw['vars']):
            if 'pl' in v:
                _shift_place(v['pl'], dl)
            raw['vars'].append(v)
        cont, unwind, dest = t.get('t'), t.get('u'), t.get('dest')
        new_blocks = copy.deepcopy(cb.raw['blocks'])
        gm = _generic_map(t)
        _subst_types(new_blocks, gm)
        _own_promoted(new_blocks, cb.id)
        locals_[dl:] = [re.sub(r'(?<![\w:])(' + '|'.join(re.escape(k) for k in gm) + r')(?![\w])', lambda mm: gm[mm.group(1)], x) for x in locals_[dl:]] if gm else locals_[dl:]
        for j, nb in enumerate(new_blocks):
            _shift(nb['st'], dl)
            nt = nb['term']
            if nt:
                tgt = {k: nt[k] for k in BLOCK_KEYS if k in nt}
                ts = nt.get('ts')
                for k in list(tgt):
                    nt.pop(k)
                if ts is not None:
                    nt.pop('ts')
                _shift(nt, dl)
                nt.update(tgt)
                if ts is not None:
                    nt['ts'] = ts
                _shift_blocks(nt, db)
                if nt['k'] == 'return':
                    if dest is not None:
                        nb['st'].append({'ln': nt.get('ln', t.get('ln')), 'lhs': copy.deepcopy(dest), 'rv': {'k': 'use', 'op': {'mv': {'l': dl}}},
                                         'inl': cb.nid})
                    if cont is not None:
                        nb['term'] = {'ln': nt.get('ln'), 'k': 'goto', 't': cont, 'inl': cb.nid}
                    else:
                        nb['term'] = {'ln': nt.get('ln'), 'k': 'unreachable'}
                elif nt['k'] == 'resume' and unwind is not None:
                    nb['term'] = {'ln': nt.get('ln'), 'k': 'goto', 't': unwind}
            blocks.append(nb)
        # the call site: bind the parameters, jump to the helper's entry
        for k, a in enumerate(t['args']):
            blocks[i]['st'].append({'ln': t.get('ln'), 'lhs': {'l': dl + 1 + k}, 'rv': {'k': 'use', 'op': copy.deepcopy(a)}, 'inl': cb.nid})
        blocks[i]['term'] = {'ln': t.get('ln'), 'k': 'goto', 't': db, 'inl': cb.nid, 'inl_call': t}
        extra.append(cb.nroot)
        work.extend((db + j, d + 1, chain | {name}) for j in range(len(new_blocks)))
    if raw is None:
        return body
    nb = Body(raw, body.crate, fb)
    raw['extra_roots'] = sorted(set(extra) | set(body.raw.get('extra_roots', [])))
    return nb


def closures_of(fb, body):
    """nested closure/coroutine bodies of the function and of every helper inlined into it"""
    ct = _ctype(fb, body.crate, body)
    out = [b for b in fb.bodies_of_item(body.crate, body.nroot, ct) if b.nid != body.nid]
    for r in body.raw.get('extra_roots', []):
        out.extend(b for b in fb.bodies_of_item(body.crate, r, ct) if b.nid != r)
    return out
