"""Shared views for the compiler-side properties (C01-C10): call graph of pavexc, may-push set, sink gates."""
from ..callgraph import CallGraph
from ..facts import callee, callee_resolved, op_place, strip_generics

PX = 'pavexc::compiler::'
SINK = 'pavexc::diagnostic::sink::DiagnosticSink::'
PUSH = SINK + 'push'
_cache = {}


def cg(ctx):
    key = id(ctx.fb)
    if key not in _cache:
        g = CallGraph(ctx.fb, [('pavexc', 'Rlib')])
        _cache[key] = (g, g.reaching({PUSH}))
    return _cache[key]


def may_push(ctx):
    return cg(ctx)[1]


def item_bodies(ctx, nroot):
    return ctx.fb.bodies_of_item('pavexc', nroot)


def main_body(ctx, nroot):
    return ctx.fb.body('pavexc', nroot)


def err_unit_sites(b):
    """(bb, stmt) of `Err(())` aggregates"""
    out = []
    for bb, j, st in b.all_assigns():
        rv = st['rv']
        if rv['k'] == 'agg' and rv.get('var') == 'Err' and strip_generics(rv.get('adt', '')) == 'core::result::Result':
            o = rv['ops'][0]
            pl = op_place(o)
            ty = b.locals[pl['l']] if pl else o.get('ty')
            if ty == '()':
                out.append((bb, st))
    return out


def must_push(ctx):
    """functions of pavexc that push a diagnostic on EVERY path from entry to return (fixpoint; closures ignored)"""
    key = ('must', id(ctx.fb))
    if key in _cache:
        return _cache[key]
    must = {PUSH}
    bodies = {}
    for b in ctx.fb.bodies('pavexc'):
        if not b.is_promoted and b.nid == b.nroot:
            bodies[b.nid] = b
    changed = True
    while changed:
        changed = False
        for nid, b in bodies.items():
            if nid in must:
                continue
            pb = [bb for bb, t in b.calls() if callee(t) in must or callee_resolved(t) in must]
            if not pb:
                continue
            rets = set(b.return_blocks())
            if rets and not (b.reachable_from_entry(avoid=pb) & rets):
                must.add(nid)
                changed = True
    _cache[key] = must
    return must
