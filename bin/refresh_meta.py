#!/usr/bin/env python3
"""refresh_meta.py <seed-name> ...: re-run the check of a seed's property against the seed on the private scratch copy (bin/try2.sh) and record what
fires now in seeded/<name>/meta.json (check_result). Used after rules were strengthened; bin/selftest.py --update does the same for everything."""
import json, os, re, subprocess, sys
for name in sys.argv[1:]:
    d = os.path.join('/verif/seeded', name)
    m = json.load(open(os.path.join(d, 'meta.json')))
    prop = m['property']
    r = subprocess.run(['/verif/bin/try2.sh', os.path.join(d, 'patch.diff'), prop], stdout=subprocess.PIPE, stderr=subprocess.STDOUT, text=True)
    fired = sorted(set(re.findall(r'^\s+(C\d+\.R\w+) (\S+)', r.stdout, re.M)))
    if 'does not apply' in r.stdout:
        print(name, 'DOES NOT APPLY'); continue
    m.setdefault('check_result', {})['caught'] = bool(fired)
    m['check_result']['rules_fired'] = ['%s %s' % x for x in fired]
    json.dump(m, open(os.path.join(d, 'meta.json'), 'w'), indent=1)
    print(name, 'caught' if fired else 'MISSED', [x[0] for x in fired][:4])
