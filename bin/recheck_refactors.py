#!/usr/bin/env python3
"""recheck_refactors.py [substr]: for every refactor whose name contains substr (default: all) that alarmed at import or now, re-run the
alarmed checks on /repo with the patch applied (reverted afterwards) and print what still fires."""
import json, os, re, subprocess, sys
V = os.path.dirname(os.path.dirname(os.path.abspath(__file__)))
sub = sys.argv[1] if len(sys.argv) > 1 else ''
def sh(c, cwd='/repo'):
    return subprocess.run(c, shell=True, cwd=cwd, stdout=subprocess.PIPE, stderr=subprocess.STDOUT, text=True)
assert not sh('git status --porcelain --untracked-files=no').stdout.strip(), '/repo dirty'
for name in sorted(os.listdir(os.path.join(V, 'refactors'))):
    if sub not in name:
        continue
    d = os.path.join(V, 'refactors', name)
    m = json.load(open(os.path.join(d, 'meta.json')))
    cr = m.get('check_result', {})
    props = sorted(set(cr.get('alarms') or {}) | set((cr.get('at_import') or {}).get('alarms') or {}))
    if not props:
        continue
    r = sh('git apply %s || git apply -3 %s' % (os.path.join(d, 'patch.diff'), os.path.join(d, 'patch.diff')))
    left = {}
    try:
        for p in props:
            c = sh('./check %s --tier quick' % p, cwd=V)
            if 'VIOLATION property=' in c.stdout or c.returncode != 0:
                left[p] = sorted(set('%s %s' % x for x in re.findall(r'^\s+(C\d+\.R\w+) (\S+)', c.stdout, re.M))) or [c.stdout[-200:]]
    finally:
        sh('git reset -q; git checkout -q -- .; git clean -fdq -- compiler runtime rustdoc')
    cr['alarms'] = left
    cr['silent'] = not left and all(False for _ in [])  if left else cr.get('silent', False) or not left
    cr['silent'] = not left
    json.dump(m, open(os.path.join(d, 'meta.json'), 'w'), indent=1)
    print(name, 'silent-on-%s' % props if not left else 'ALARM %s' % left, flush=True)
