#!/usr/bin/env bash
# try2.sh <patch.diff> <Cxx> [...]: like try_seed.sh but on the private scratch copy /var/tmp/myrepo (own cargo target dir), so that it
# never touches /repo and can run next to an import that does.
set -uo pipefail
PATCH="$(readlink -f "$1")"; shift
W=/var/tmp/myrepo
[ -d $W ] || git -C /repo worktree add -q --detach $W HEAD     # created on first use; remove with `git -C /repo worktree remove --force /var/tmp/myrepo; rm -rf /var/tmp/mytarget`
cd $W && git reset -q && git checkout -q -- . && git clean -fdq && git checkout -q --detach "$(git -C /repo rev-parse HEAD)"
if ! git apply "$PATCH" 2>/dev/null; then git apply -3 "$PATCH" 2>/dev/null || { echo "try2: patch does not apply"; git reset -q; git checkout -q -- .; exit 3; }; fi
for c in "$@"; do
  ( cd /verif && PVX_REPO=$W PVX_TARGET=/var/tmp/mytarget ./check "$c" --tier quick ) | grep -E "VIOLATION|KNOWN-FINDING|^\[pvx\] C|^  C" | cut -c1-500
done
git reset -q; git checkout -q -- . ; git clean -fdq
