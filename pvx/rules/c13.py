"""C13 — Session stores behave like a map with expiry, under concurrency too.

Decided clauses: R1 (SQLite) every statement filters on liveness and the "expired" predicates are the exact complement;
zero rows affected maps to UnknownId. R2 atomicity by construction: one statement / one lock acquisition per operation.
R3 (in-memory) staleness-guarded accessors, fail-atomic operations, one comparison direction.
Linearizability as such is not decided.
"""
import re

from ..facts import callee, op_place, strip_generics
from ..flow import Defs, backward_slice, forward_derived, slice_consts, slice_calls, slice_aggregates

LEVEL = 'other'
TECHNIQUE = 'static analysis: SQL constant tables (liveness predicate, complement, zero-rows handling), one-statement / one-lock counting, case evaluation of the guarded accessors, fail-atomic ordering by dominance'
CLAUSE = ('every SQLite statement of the store filters on id and on the one liveness predicate, the predicate under which '
          'create may replace a row is its exact complement and delete_expired implies not-live; mutators map zero affected '
          'rows to UnknownId; each store operation is one SQL statement / one mutex acquisition held to the end; in-memory '
          'accessors are staleness-guarded, operations are fail-atomic and use one comparison direction for expiry. Every column assignment of an UPDATE takes its value from a placeholder; change_id removes a not-live row under the new id before renaming (exact complement of the liveness predicate).')
TRUSTED = ['a single SQLite statement is atomic', 'tokio::sync::Mutex gives mutual exclusion while the guard lives',
           'unixepoch() / jiff Timestamp::now() are the clock']

SQ = 'pavex_session_sqlx'
MS = 'pavex_session_memory_store'
BACKEND = 'pavex_session::store_::SessionStorageBackend'
METHODS = ['create', 'update', 'update_ttl', 'load', 'delete', 'change_id', 'delete_expired']
LIVE_METHODS = ['update', 'update_ttl', 'load', 'delete', 'change_id']


def impl_method_bodies(ctx, crate, self_ty, method):
    """the bodies of the trait method, plus the crate's own non-public functions it calls (a statement built by `statements::insert(..)` is
    still the statement `create` executes)"""
    root = '<%s as %s>::%s' % (self_ty, BACKEND, method)
    out = list(ctx.fb.bodies_of_item(crate, root))
    seen = {root}
    work = list(out)
    for _ in range(3):
        nxt = []
        for b in work:
            for bb, t in b.calls():
                c = callee(t) or ''
                if c.startswith(crate + '::') and c not in seen and BACKEND not in c:
                    seen.add(c)
                    hb = [x for x in ctx.fb.bodies_of_item(crate, c) if not x.is_promoted]
                    if hb and hb[0].raw.get('vis') != 'Public':
                        nxt += hb
        out += nxt
        work = nxt
    return out


def sql_of(bodies):
    """[(sql, body, bb, term)] for every sqlx::query(...) call"""
    out = []
    for b in bodies:
        defs = None
        for bb, t in b.calls():
            if callee(t) in ('sqlx_core::query::query', 'sqlx_core::query_as::query_as', 'sqlx_core::query_scalar::query_scalar',
                             'sqlx_core::raw_sql::raw_sql'):
                a = t['args'][0]
                s = a.get('str')
                if s is None:
                    pl = op_place(a)
                    if pl is not None:
                        defs = defs or Defs(b)
                        sl, _ = backward_slice(b, pl['l'], defs, through_calls=False)
                        cs = list(slice_consts(sl))
                        strs = [v for k, v, _, _ in cs if k == 'str']
                        if not strs:
                            # the statement is a named constant of the crate (`const UPDATE_QUERY: &str = ".."`): read its value
                            from ..flow import static_strs
                            for k, v, _, _ in cs:
                                if k == 'uneval':
                                    strs += static_strs(b.fb, b, v)
                        s = strs[0] if len(strs) == 1 else None
                out.append((s, b, bb, t))
    return out


def norm_sql(s):
    return re.sub(r'\s+', ' ', s).strip()


CMP = r'(<=|>=|<>|!=|<|>|=)'
FLIP = {'<': '>', '>': '<', '<=': '>=', '>=': '<=', '=': '='}
COMPLEMENT = {'>': '<=', '>=': '<', '<': '>=', '<=': '>'}


def deadline_predicates(sql, clock):
    """comparisons between `deadline` and the clock expression, normalised to (op) with deadline on the left"""
    out = []
    c = re.escape(clock)
    for m in re.finditer(r'(?:\w+\.)?deadline\s*' + CMP + r'\s*' + c, sql, re.I):
        out.append(m.group(1))
    for m in re.finditer(c + r'\s*' + CMP + r'\s*(?:\w+\.)?deadline', sql, re.I):
        out.append(FLIP.get(m.group(1), m.group(1)))
    return out


def has_id_filter(sql):
    w = sql.upper().split(' WHERE ')
    return len(w) > 1 and re.search(r'\bID\s*=\s*(\?|\$\d+)', w[-1]) is not None


def sql_rules(ctx, crate, self_ty, clock, tag, rule='C13.R1'):
    per = {}
    live_ops = set()
    n_sql = 0
    for m in METHODS:
        bodies = impl_method_bodies(ctx, crate, self_ty, m)
        if not ctx.need(rule, '%s impl of SessionStorageBackend::%s' % (tag, m), bodies):
            continue
        sqls = sql_of(bodies)
        per[m] = (bodies, sqls)
        for s, b, bb, t in sqls:
            n_sql += 1
            if s is None:
                ctx.ob(rule, '%s|%s|sql-constant' % (tag, m), False, b.loc(bb, t),
                       'the SQL text is not a single string constant; the rule cannot read it (fails closed)')
    # a write overwrites: what `load` returns afterwards is what THIS call bound, so every column assignment of an UPDATE (and of the
    # DO UPDATE part of an upsert) takes its value from a placeholder or from the row being inserted, never from an expression over the old row
    for m, (bodies_, sqls_) in per.items():
        for i, (s, b, bb, t) in enumerate(sqls_):
            if s is None:
                continue
            q = norm_sql(s)
            for mm in re.finditer(r'\bSET\b(.*?)(?=\bWHERE\b|\bRETURNING\b|$)', q, flags=re.I | re.S):
                depth, cur, parts = 0, '', []
                for ch in mm.group(1):
                    if ch == '(':
                        depth += 1
                    elif ch == ')':
                        depth -= 1
                    if ch == ',' and depth == 0:
                        parts.append(cur); cur = ''
                    else:
                        cur += ch
                parts.append(cur)
                for a in parts:
                    if '=' not in a:
                        continue
                    col, rhs = a.split('=', 1)
                    rhs_n = re.sub(r'\s+', '', rhs)
                    plain = re.match(r'^(\?\d*|\$\d+|:\w+|excluded\.\w+|VALUES\(\w+\)|new\.\w+)(::\w+)?$', rhs_n, re.I) is not None
                    ctx.ob(rule, '%s|%s|assignment-overwrites|%s' % (tag, m, col.strip().split('.')[-1]), plain, b.loc(bb, t),
                           '`%s = %s`: the column is set to what this call bound: %s (an expression over the stored row — MAX(deadline, ?), '
                           'COALESCE(state, ?) — makes the outcome depend on the previous write: a shorter TTL, or a new state, is silently not stored)'
                           % (col.strip(), rhs.strip()[:40], plain))
    room = []
    for m in LIVE_METHODS:
        if m not in per:
            continue
        for s, b, bb, t in per[m][1]:
            if s is None:
                continue
            q = norm_sql(s)
            ops = deadline_predicates(q, clock)
            if m == 'change_id' and re.match(r'^\s*DELETE\b', q, re.I):
                room.append((q, ops, b, bb, t))
                continue
            ok = has_id_filter(q) and len(ops) == 1 and ops[0] in ('>', '>=') and ' OR ' not in q.upper()
            live_ops |= set(ops)
            # zero rows affected must MEAN "absent or expired": the row is selected by its id and its liveness and by nothing else
            wtxt = re.split(r'\bWHERE\b', q, flags=re.I)[-1] if re.search(r'\bWHERE\b', q, re.I) else ''
            wtxt = re.split(r'\b(RETURNING|LIMIT|ORDER BY)\b', wtxt, flags=re.I)[0]
            conj = [c_.strip() for c_ in re.split(r'\bAND\b', wtxt, flags=re.I) if c_.strip()]
            flat = lambda x: re.sub(r'[()\s]', '', x)
            extra = [c_ for c_ in conj if not re.match(r'^(\w+\.)?id=(\?\d*|\$\d+|:\w+)$', flat(c_), re.I)
                     and not re.match(r'^(\w+\.)?deadline(>|>=)' + re.escape(flat(clock)) + r'$', flat(c_), re.I)]
            if re.match(r'^\s*(UPDATE|DELETE)\b', q, re.I):
                ctx.ob(rule, '%s|%s|selected-by-id-and-liveness-only' % (tag, m), not extra, b.loc(bb, t),
                       'WHERE conjuncts besides `id = ?` and the liveness predicate: %s (with another condition a live record can match no row, and '
                       '"no row" is reported as an unknown id)' % (extra or 'none'))
            ctx.ob(rule, '%s|%s|liveness-filter' % (tag, m), ok, b.loc(bb, t),
                   '`%s`: WHERE filters on id: %s; deadline-vs-clock comparison(s): %s (need exactly one, `deadline > clock`, no OR)'
                   % (q[:90], has_id_filter(q), ops))
    ctx.ob(rule, '%s|liveness-agreement' % tag, len(live_ops) == 1, '',
           'all liveness-filtered statements use the same comparison: %s' % sorted(live_ops), nontrivial=True)
    live = sorted(live_ops)[0] if len(live_ops) == 1 else None
    if live and 'change_id' in per:
        # an expired record that was not swept yet does not own its id (the in-memory store tests freshness of the new id): before the
        # rename, change_id removes the row under the NEW id iff it is not live — the exact complement of the liveness predicate
        upd = [(b, bb) for s_, b, bb, t in per['change_id'][1] if s_ and re.match(r'^\s*UPDATE\b', norm_sql(s_), re.I)]
        good = [(q, ops, b, bb, t) for q, ops, b, bb, t in room if has_id_filter(q) and ops == [COMPLEMENT[live]] and ' OR ' not in q.upper()]
        bad = [(q, ops, b, bb, t) for q, ops, b, bb, t in room if (q, ops, b, bb, t) not in good]
        for q, ops, b, bb, t in bad:
            ctx.ob(rule, '%s|change_id|room-made-for-expired-only' % tag, False, b.loc(bb, t),
                   '`%s` removes rows with `deadline %s clock`; only a record that is NOT live (`%s`) may be removed to make room' % (q[:80], ops, COMPLEMENT[live]))
        ctx.ob(rule, '%s|change_id|expired-record-does-not-own-its-id' % tag, bool(good), (good[0][2].loc(good[0][3], good[0][4]) if good else (upd[0][0].loc(upd[0][1]) if upd else '')),
               'change_id removes a not-live row under the new id (`DELETE .. WHERE id = ? AND deadline %s clock`) before renaming: %s (without it the primary key of a dead, '
               'unswept row makes the rename fail with DuplicateId although the id is free in the map-with-expiry model)' % (COMPLEMENT[live], bool(good)))
    if live and 'create' in per:
        for s, b, bb, t in per['create'][1]:
            if s is None:
                continue
            q = norm_sql(s)
            ops = deadline_predicates(q, clock)
            ok = ops == [COMPLEMENT[live]]
            ctx.ob(rule, '%s|create|replace-iff-not-live' % tag, ok, b.loc(bb, t),
                   'create may replace an existing row when `deadline %s clock`; liveness is `deadline %s clock`; exact complement '
                   'would be `%s` (otherwise a row is neither live nor replaceable, or live and replaceable)'
                   % (ops, live, COMPLEMENT[live]))
    if live and 'delete_expired' in per:
        allowed = {'>': {'<', '<='}, '>=': {'<'}}[live]
        for i, (s, b, bb, t) in enumerate(per['delete_expired'][1]):
            if s is None:
                continue
            q = norm_sql(s)
            ops = deadline_predicates(q, clock)
            ctx.ob(rule, '%s|delete_expired|only-expired|%d' % (tag, i), len(ops) == 1 and ops[0] in allowed, b.loc(bb, t),
                   'delete_expired removes rows with `deadline %s clock` (must imply not-live, i.e. one of %s)' % (ops, sorted(allowed)))
    return per, n_sql


def _success_targets(b, derived, checks):
    """blocks entered when the statement execution succeeded: the Ok arm of a `match` on its Result, or the Continue arm of `?` applied to it
    (switches that already sit behind the row-count check are the check's own, and `?` inside the Err arm of a match on the execution
    result examines the error, not the outcome: both are skipped)"""
    out = []
    err_regions = set()
    switches = []
    for sb in b.live_blocks():
        t = b.term(sb)
        if not t or t['k'] != 'switch' or 'enum' not in t or t['src']['l'] not in derived:
            continue
        if any(b.dominates(c, sb) for c in checks):
            continue
        switches.append((sb, t, strip_generics(t['enum'])))
    for sb, t, e in switches:
        if e == 'core::result::Result':
            oks = [tg for n, tg in t['ts'] if n == 'Ok']
            errs = [tg for n, tg in t['ts'] if n == 'Err'] + ([t['else']] if 'Err' in t.get('rest', []) else [])
            out += oks
            for et in errs:
                err_regions |= b.reachable(et, avoid=oks)
    for sb, t, e in switches:
        if e == 'core::ops::control_flow::ControlFlow' and sb not in err_regions:
            out += [tg for n, tg in t['ts'] if n == 'Continue']
    return out


def r1_sqlite(ctx):
    ctx.rule('C13.R1', 'P9 constant tables: the SQL constant of every SQLite load/update/update_ttl/delete/change_id filters on '
             '`id = ?` AND the single liveness predicate `deadline > unixepoch()`; create\'s replace-on-conflict predicate is '
             'the exact complement; delete_expired\'s predicate implies not-live; P1: in every mutator the Ok arm of the '
             'statement execution reaches as_unknown_id_error, which maps rows_affected()==0 to UnknownIdError; create inspects rows_affected too '
             '(0 rows = a live record has the id = DuplicateId, not success).')
    per, n_sql = sql_rules(ctx, SQ, 'pavex_session_sqlx::sqlite::SqliteSessionStore', 'unixepoch()', 'sqlite')
    ctx.count('sqlite_sql_constants', n_sql)
    ctx.floor('C13.R1', 'SQL constants in the SQLite store', n_sql, 8)
    # unknown-id mapping — P11 case evaluation: the method is interpreted with the statement executing fine and changing NO row: every path
    # must return an error (whatever the idiom: a helper that maps 0 rows to UnknownId, a `match` on an outcome enum, an early return ..)
    from ..absint_std import StdSem, TagInterp

    class RowsSem(StdSem):
        crate = SQ

        def __init__(self, fb, rows):
            super().__init__(fb)
            self.rows, self.execs = rows, 0

        def domain_call(self, interp, path, body, bb, term, short):
            d = term.get('dest')
            dk = (body.id, d['l']) if d is not None and not d.get('p') else None
            if short == 'sqlx_core::query::Query::execute' and dk is not None:
                self.execs += 1
                path.tags[dk] = 'fut:res:Ok'
                path.env['executed'] = True
                return [('next', path)]
            if short.endswith('::rows_affected') and dk is not None:
                path.alias.pop(dk, None)
                path.tags.pop(dk, None)
                path.num[dk] = self.rows
                return [('next', path)]
            return None

        def descend_into(self, short):
            return BACKEND not in short

    for m in ['update', 'update_ttl', 'delete', 'change_id']:
        if m not in per:
            continue
        found = False
        helper_execs = any(callee(t) == 'sqlx_core::query::Query::execute' for x in per[m][0] for _, t in x.calls())
        for b in per[m][0]:
            execs = [bb for bb, t in b.calls() if callee(t) == 'sqlx_core::query::Query::execute']
            if BACKEND not in b.nroot:
                continue
            if not execs:
                # the statement is executed by a private helper of the store (entered by the interpreter): the method body is the one that awaits it
                if not helper_execs or not b.is_coroutine or not any((callee(t) or '').startswith(SQ + '::') for _, t in b.calls()):
                    continue
                execs = [bb for bb, t in b.calls() if (callee(t) or '').startswith(SQ + '::')][:1]
            found = True
            sem = RowsSem(ctx.fb, '0')
            try:
                outs = TagInterp(sem, max_paths=4000).run(b, {})
            except RuntimeError:
                outs = None
            after = [oc for oc in (outs or []) if oc[0] == 'return' and oc[1].env.get('executed')]
            bad = [oc for oc in after if oc[1].tags.get((b.id, 0)) != 'res:Err']
            ctx.ob('C13.R1', 'sqlite|%s|zero-rows-is-unknown-id' % m, outs is not None and bool(after) and not bad, b.loc(execs[0]),
                   '%s interpreted with the statement succeeding and rows_affected() == 0: %d path(s) return, %d of them do not return an error'
                   % (m, len(after), len(bad)))
        ctx.need('C13.R1', 'execute() call in sqlite %s' % m, found)
    # create: the conditional upsert changes no row when a LIVE record already has this id; reporting that as success means the caller's
    # record was not stored (and the in-memory sibling answers DuplicateId)
    if 'create' in per:
        for b in per['create'][0]:
            execs = [bb for bb, t in b.calls() if callee(t) == 'sqlx_core::query::Query::execute']
            if not execs:
                continue
            rows = [bb for bb, t in b.calls() if (callee(t) or '').endswith('QueryResult::rows_affected') or (callee(t) or '').endswith('::rows_affected')]
            derived = forward_derived(b, {b.term(execs[0])['dest']['l']}, through_calls=True)
            ok_targets = _success_targets(b, derived, rows)
            rets = set(b.return_blocks())
            unchecked = any(body_reaches(b, tg, rets, avoid=rows) for tg in ok_targets)
            ctx.ob('C13.R1', 'sqlite|create|zero-rows-is-duplicate-id', bool(ok_targets) and bool(rows) and not unchecked, b.loc(execs[0]),
                   'the Ok arm of the conditional upsert %s rows_affected(): an upsert that changed no row (a live record has this id) is reported as %s'
                   % ('inspects' if rows and not unchecked else 'does NOT inspect', 'DuplicateId' if rows and not unchecked else 'success although nothing was written'))
    h = ctx.fb.body(SQ, 'pavex_session_sqlx::sqlite::as_unknown_id_error')     # (if the mapping lives in a helper of that name: its own shape)
    if h is not None:
        ok = False
        for bb, j, st in h.all_assigns():
            rv = st['rv']
            if rv['k'] == 'bin' and rv['bop'] == 'Eq' and any(o.get('int') == '0' for o in (rv['a'], rv['b'])):
                # the local feeds a switch whose true edge builds UnknownIdError
                lhs = st['lhs']['l']
                for sb in h.live_blocks():
                    t = h.term(sb)
                    if t and t['k'] == 'switch' and op_place(t['d']) and op_place(t['d'])['l'] in forward_derived(h, {lhs}):
                        true_reach = h.reachable(t['else'], avoid=[x[1] for x in t['ts']])
                        aggs = [st2['rv'] for b2 in true_reach for st2 in h.stmts(b2) if st2.get('rv', {}).get('k') == 'agg']
                        if any(a.get('adt', '').endswith('UnknownIdError') for a in aggs) and any(a.get('var') == 'Err' for a in aggs):
                            ok = True
        ctx.ob('C13.R1', 'sqlite|as_unknown_id_error|rows_affected==0->Err', ok, h.loc(),
               'rows_affected() == 0 branches to Err(UnknownIdError)')


def body_reaches(b, start, targets, avoid=()):
    if start in set(avoid):
        return False
    return bool(b.reachable(start, avoid=avoid) & set(targets))


def r2_atomicity(ctx):
    ctx.rule('C13.R2', 'P3/P1 atomicity by construction: each SQLite trait method performs exactly one statement execution '
             '(execute/fetch_*) on every path; each in-memory trait method acquires the mutex exactly once, the acquisition '
             'dominates every access to the map, and the guard is not released before the last access.')
    execs = ('sqlx_core::query::Query::execute', 'sqlx_core::query::Query::fetch_optional', 'sqlx_core::query::Query::fetch_one',
             'sqlx_core::query::Query::fetch_all', 'sqlx_core::query::Query::fetch', 'sqlx_core::executor::Executor::execute')
    for m in METHODS:
        bodies = impl_method_bodies(ctx, SQ, 'pavex_session_sqlx::sqlite::SqliteSessionStore', m)
        n = sum(1 for b in bodies for bb, t in b.calls() if callee(t) in execs)
        tx = sum(1 for b in bodies for bb, t in b.calls() if 'begin' in (callee(t) or '').split('::')[-1:])
        ctx.ob('C13.R2', 'sqlite|%s|one-statement' % m, n == 1 or tx > 0, bodies[0].loc() if bodies else '',
               '%d statement execution(s), %d transaction(s)' % (n, tx))
    for m in METHODS:
        bodies = impl_method_bodies(ctx, MS, 'pavex_session_memory_store::InMemorySessionStore', m)
        inner = [b for b in bodies if any(callee(t) == 'tokio::sync::mutex::Mutex::lock' for _, t in b.calls())]
        if not ctx.need('C13.R2', 'body of in-memory %s that takes the lock' % m, inner):
            continue
        locks = [(b, bb) for b in bodies for bb, t in b.calls() if callee(t) == 'tokio::sync::mutex::Mutex::lock']
        b = inner[0]
        lb = [bb for (b2, bb) in locks if b2 is b]
        accesses = [(bb, t) for bb, t in b.calls() if any('MutexGuard' in a for a in t['aty'])
                    and callee(t) != 'tokio::sync::mutex::Mutex::lock' and 'mo' not in t and not (callee(t) or '').startswith('core::ops::drop')]
        dom = all(b.dominates(lb[0], bb) for bb, _ in accesses) if lb else False
        # guard released early: an explicit drop(guard) / mem::drop call taking the guard by value
        early = [bb for bb, t in b.calls() if callee(t) in ('core::mem::drop',) and any('MutexGuard' in a and not a.startswith('&') for a in t['aty'])]
        ctx.ob('C13.R2', 'memory|%s|one-lock' % m, len(locks) == 1 and dom and not early, b.loc(lb[0]) if lb else b.loc(),
               '%d lock acquisition(s); dominates all %d map accesses: %s; explicit early release: %s' % (len(locks), len(accesses), dom, bool(early)))


MAP_MUT = {'std::collections::hash::map::HashMap::insert', 'std::collections::hash::map::HashMap::remove',
           'pavex_session_memory_store::InMemorySessionStore::_delete'}
RAW_ALLOWED = {
    # (enclosing item suffix, HashMap method): reason
    ('InMemorySessionStore::get_mut_if_fresh', 'get_mut'): 'guarded accessor: tests is_stale before handing out the record',
    ('InMemorySessionStore::_delete', 'remove'): 'guarded accessor: tests is_stale on the removed record',
    ('SessionStorageBackend>::create', 'insert'): 'insert after the freshness test of the same id',
    ('SessionStorageBackend>::change_id', 'insert'): 'insert of the record returned by _delete(old)',
    ('SessionStorageBackend>::delete_expired', 'iter'): 'scan with its own `deadline <= now` test',
    ('SessionStorageBackend>::delete_expired', 'remove'): 'removal of ids collected by the scan',
    ('InMemorySessionStore::new', 'new'): 'constructor',
}


def r3_memory(ctx):
    ctx.rule('C13.R3', 'P3/P1 in-memory store: (a) every raw HashMap access is one of the enumerated, reasoned sites; the two '
             'guarded accessors, evaluated abstractly for present/absent x stale/fresh, return Ok exactly for a present and fresh record; (b) fail-atomic: no path on which the map was mutated '
             'reaches the construction of an Err result (except the propagation of the mutating helper\'s own failure); '
             '(c) create/change_id insert only after the freshness test / after _delete; (d) is_stale and delete_expired compare '
             '`deadline <= now` in the same direction.')
    # (a) raw sites. The map is reached through *guarded accessors*: the store's own helper functions that look a record up (get / get_mut /
    # remove) — whatever they are called and whatever they take (`&mut self`, the guard, the map). They are discovered, not named.
    HM = 'std::collections::hash::map::HashMap::'
    LOOKUPS = ('get', 'get_mut', 'remove', 'get_key_value', 'remove_entry', 'contains_key', 'entry')
    is_backend = lambda x: BACKEND in x.nroot
    accessors = {}
    for b in ctx.fb.bodies(MS):
        if b.is_promoted or is_backend(b):
            continue
        if any((callee(t) or '').startswith(HM) and callee(t).split('::')[-1] in LOOKUPS and 'mo' not in t for _, t in b.calls()):
            accessors.setdefault(b.nroot, []).append(b)
    # the staleness predicate(s): functions of the crate that return bool and (with their helpers) compare a Timestamp
    from ..callgraph import CallGraph
    g_ms = CallGraph(ctx.fb, [(MS, 'Rlib')])
    def fam_of(root):
        seen, work = {root}, [root]
        while work:
            for c in g_ms.edges.get(work.pop(), ()):
                if c in g_ms.items and c not in seen:
                    seen.add(c)
                    work.append(c)
        return seen
    cmp_fns = {b.nroot for b in ctx.fb.bodies(MS) if not b.is_promoted and not is_backend(b)
               and any((callee(t) or '').startswith('core::cmp::PartialOrd::') and t['aty'] and 'Timestamp' in t['aty'][0] for _, t in b.calls())}
    stale_preds = {b.nroot for b in ctx.fb.bodies(MS) if not b.is_promoted and b.nid == b.nroot and not is_backend(b) and b.locals[0] == 'bool'
                   and not (fam_of(b.nroot) & set(accessors)) and (fam_of(b.nroot) & cmp_fns)}
    ctx.need('C13.R3', 'staleness predicate of the in-memory store (a bool function that compares a Timestamp)', stale_preds)
    n_raw = 0
    for b in ctx.fb.bodies(MS):
        if b.is_promoted:
            continue
        for bb, t in b.calls():
            c = callee(t) or ''
            if c.startswith(HM) and 'mo' not in t:
                n_raw += 1
                meth = c.split('::')[-1]
                m_ = next((m for m in METHODS if b.nroot.endswith('>::' + m)), None)
                why = None
                if b.nroot in accessors and meth in LOOKUPS:
                    why = 'guarded accessor (evaluated below for present/absent x stale/fresh)'
                elif m_ in ('create', 'change_id') and meth == 'insert':
                    why = 'insert after the guards (checked below)'
                elif m_ == 'delete_expired' and meth in ('iter', 'remove', 'retain', 'keys', 'len', 'extract_if', 'iter_mut'):
                    why = 'the expiry scan, with its own `deadline <= now` test'
                elif meth in ('new', 'with_capacity', 'default') and not is_backend(b):
                    why = 'constructor'
                ctx.ob('C13.R3', 'raw-map-site|%s|%s' % (b.nroot.split('::')[-1].replace('>', ''), meth), why is not None, b.loc(bb, t),
                       'HashMap::%s in %s: %s' % (meth, b.nroot, why or 'NOT inside a guarded accessor (a new unguarded access to the session map)'))
    ctx.floor('C13.R3', 'raw HashMap access sites in the in-memory store', n_raw, 6)
    from ..absint_std import StdSem, TagInterp

    class _AccessorSem(StdSem):
        crate = MS

        def __init__(self, fb, present, stale):
            super().__init__(fb)
            self.present, self.stale = present, stale

        def domain_call(self, interp, path, body, bb, term, short):
            d = term.get('dest')
            dk = (body.id, d['l']) if d is not None and not d.get('p') else None
            if short.startswith(HM) and short.split('::')[-1] in ('get', 'get_mut', 'remove') and dk is not None:
                path.alias.pop(dk, None)
                path.memo.pop(dk, None)
                path.tags[dk] = 'opt:Some' if self.present else 'opt:None'
                return [('next', path)]
            if short.startswith(HM) and short.split('::')[-1] == 'contains_key' and dk is not None:
                path.alias.pop(dk, None)
                path.tags.pop(dk, None)
                path.memo[dk] = self.present
                return [('next', path)]
            if short in stale_preds and dk is not None:
                path.alias.pop(dk, None)
                path.tags.pop(dk, None)
                path.memo[dk] = self.stale
                return [('next', path)]
            return None

    for fn in sorted(accessors):
        b = next((x for x in accessors[fn] if x.nid == x.nroot), None)
        if b is None or b.locals[0] == '()':
            continue
        short_fn = fn.split('::')[-1]
        good = True
        detail = []
        for present in (True, False):
            for stale in (True, False):
                sem = _AccessorSem(ctx.fb, present, stale)
                outs = TagInterp(sem).run(b, {})
                got = set()
                for oc, p_, *_ in outs:
                    if oc != 'return':
                        got.add('panic')
                        continue
                    tg = p_.tags.get((b.id, 0))
                    if tg is None and b.locals[0] == 'bool':
                        v, _, _ = TagInterp(sem).bool_value(p_, b, 0)
                        tg = {True: 'yes', False: 'no'}.get(v)
                    got.add({'res:Ok': 'yes', 'opt:Some': 'yes', 'res:Err': 'no', 'opt:None': 'no'}.get(tg, str(tg)))
                want = 'yes' if (present and not stale) else 'no'
                if sorted(got) != [want]:
                    good = False
                detail.append('%s/%s->%s' % ('present' if present else 'absent', 'stale' if stale else 'fresh', ','.join(sorted(got))))
        ctx.ob('C13.R3', 'guarded-accessor|%s' % short_fn, good, b.loc(),
               'evaluated for record present/absent x stale/fresh (Option/Result algebra, closures included): a record is handed out / reported exactly when present and fresh [%s]' % ' '.join(detail))
    ctx.floor('C13.R3', 'guarded accessors of the in-memory store', len(accessors), 2)
    reaches_lookup = {f for f in g_ms.items if fam_of(f) & {a for a, bs in accessors.items() if any((callee(t) or '').split('::')[-1] in ('get', 'get_mut', 'contains_key') and (callee(t) or '').startswith(HM) for x in bs for _, t in x.calls())}}
    reaches_take = {f for f in g_ms.items if fam_of(f) & {a for a, bs in accessors.items() if any((callee(t) or '') == HM + 'remove' for x in bs for _, t in x.calls())}}
    # (b) fail-atomic + (c) ordering
    for m in METHODS:
        bodies = impl_method_bodies(ctx, MS, 'pavex_session_memory_store::InMemorySessionStore', m)
        # the body that does the work: the one that takes the lock, or (when the lock is taken by a helper) the one that touches the map / its accessors
        inner = [b for b in bodies if BACKEND in b.nroot and any(callee(t) == 'tokio::sync::mutex::Mutex::lock' for _, t in b.calls())] or \
                [b for b in bodies if BACKEND in b.nroot and any((callee(t) or '').startswith(HM) or strip_generics(callee(t) or '') in (reaches_lookup | reaches_take) for _, t in b.calls())]
        if not ctx.need('C13.R3', 'the body of %s that works on the record map' % m, inner):
            continue
        b = inner[0]
        muts = [(bb, t) for bb, t in b.calls() if callee(t) in MAP_MUT]
        errs = set()
        for bb, j, st in b.all_assigns():
            rv = st['rv']
            if rv['k'] == 'agg' and rv.get('var') == 'Err' and strip_generics(rv.get('adt', '')) == 'core::result::Result':
                errs.add(bb)
        for bb, t in b.calls():
            if callee(t) == 'core::ops::try_trait::FromResidual::from_residual':
                errs.add(bb)
        for mbb, t in muts:
            exempt = set()
            d = t['dest']
            if not d.get('p'):
                der = forward_derived(b, {d['l']}, through_calls=True)
                for wb in b.live_blocks():
                    w = b.term(wb)
                    if w and w['k'] == 'switch' and 'enum' in w and w['src']['l'] in der and \
                            strip_generics(w['enum']) == 'core::ops::control_flow::ControlFlow':
                        exempt |= {tg for n, tg in w['ts'] if n == 'Break'}
            start = [s for s in b.succ(mbb) if s not in exempt]
            reach = b.reachable(start, avoid=exempt) if start else set()
            bad = sorted(reach & errs)
            ctx.ob('C13.R3', 'fail-atomic|%s|%s' % (m, callee(t).split('::')[-1]), not bad, b.loc(mbb, t),
                   'after %s mutated the map no path reaches the construction of an Err result%s'
                   % (callee(t).split('::')[-1], '' if not bad else ': blocks %s do (a failed call leaves a partial update behind)' % bad))
        if m in ('create', 'change_id'):
            ins = [bb for bb, t in b.calls() if callee(t) == 'std::collections::hash::map::HashMap::insert']
            fresh = [bb for bb, t in b.calls() if strip_generics(callee(t) or '') in reaches_lookup and BACKEND not in (callee(t) or '')]
            dele = [bb for bb, t in b.calls() if strip_generics(callee(t) or '') in reaches_take and BACKEND not in (callee(t) or '')]
            for ib in ins:
                ok = bool(fresh) and b.dominates(fresh[0], ib) and (m != 'change_id' or (bool(dele) and b.dominates(dele[0], ib)))
                ctx.ob('C13.R3', 'insert-after-guards|%s' % m, ok, b.loc(ib),
                       'insert is dominated by the freshness test of the target id%s' % (' and by _delete(old)' if m == 'change_id' else ''))
            if m == 'create' and ins:
                # case evaluation: with a live record under the id, create() returns an error and never reaches the insert; without one
                # (absent, or present but expired) it inserts and succeeds
                class _CreateSem(_AccessorSem):
                    def descend_into(self, short):
                        return BACKEND not in short

                    def domain_call(self, interp, path, body, bb, term, short):
                        if short == HM + 'insert':
                            path.env['inserted'] = True
                        return super().domain_call(interp, path, body, bb, term, short)
                got = {}
                for name_, (pr, st_) in (('live', (True, False)), ('expired', (True, True)), ('absent', (False, False))):
                    try:
                        outs = TagInterp(_CreateSem(ctx.fb, pr, st_), max_paths=4000).run(b, {})
                    except RuntimeError:
                        outs = []
                    got[name_] = sorted({('%s%s' % (str(p_.tags.get((b.id, 0))).replace('res:', ''), '+insert' if p_.env.get('inserted') else '')) if oc == 'return' else 'panic'
                                         for oc, p_, *_ in outs})
                want = {'live': ['Err'], 'expired': ['Ok+insert'], 'absent': ['Ok+insert']}
                ctx.ob('C13.R3', 'create-never-overwrites-live', got == want, b.loc(ins[0]),
                       'create() evaluated with the id live / expired / absent: %s (a live record is never overwritten: %s)' % (got, want))
    # (d) comparison direction
    dirs = {}
    for fn_ in sorted(cmp_fns):
        for b in ctx.fb.bodies_of_item(MS, fn_):
            c = _deadline_cmp(b)
            if c:
                dirs['is_stale'] = c if dirs.get('is_stale') in (None, c) else ('mixed', 'mixed')
    de = impl_method_bodies(ctx, MS, 'pavex_session_memory_store::InMemorySessionStore', 'delete_expired')
    for b in de:
        c = _deadline_cmp(b)
        if c:
            dirs['delete_expired'] = c
    ok = len(dirs) == 2 and len(set(dirs.values())) == 1 and list(dirs.values())[0] == ('le', 'deadline-first')
    ctx.ob('C13.R3', 'expiry-comparison-agreement', ok, '', 'expiry comparisons: %s (both must be `deadline <= now`)' % dirs)


def _deadline_cmp(b):
    defs = Defs(b)
    for bb, t in b.calls():
        c = callee(t) or ''
        if c.startswith('core::cmp::PartialOrd::') and 'Timestamp' in t['aty'][0]:
            op = c.split('::')[-1]
            first = op_place(t['args'][0])
            sl, _ = backward_slice(b, first['l'], defs) if first else ([], set())
            is_deadline = any('f:deadline' in (n.get('rv', {}).get('pl', {}).get('p', []) if 'rv' in n else []) for _, _, n in sl)
            return (op, 'deadline-first' if is_deadline else 'now-first')
    return None


def r4_deadline_and_clock_share_a_resolution(ctx):
    ctx.rule('C13.R4', 'P7 unit discipline: the SQL stores keep the deadline in whole seconds and compare it with the database clock in whole seconds '
             '(`unixepoch()` truncates). Liveness `deadline > clock` is then exact to the second only if the deadline is truncated the same way: the value '
             'of `Timestamp::as_second` is what is bound, with no arithmetic after it. Rounding the deadline UP ("a session must never live for less '
             'than its TTL") while the clock rounds down keeps a record with TTL 0 live until the next whole second: `load` returns it, and a `create` '
             'over the just-expired id is a silent no-op.')
    n = 0
    for b in ctx.fb.bodies(SQ):
        if b.is_promoted:
            continue
        secs = [(bb, t) for bb, t in b.calls() if strip_generics(callee(t) or '').endswith('Timestamp::as_second') and not t['dest'].get('p')]
        if not secs:
            continue
        if not any(x in b.nid for x in ('sqlite', 'unix', 'deadline', 'mysql', 'postgres')) and BACKEND not in b.nroot:
            pass
        defs = Defs(b)
        for bb, t in secs:
            n += 1
            der = forward_derived(b, {t['dest']['l']}, defs, through_calls=False)
            bad = [(xb, st) for xb, j, st in b.all_assigns() if st['rv']['k'] == 'bin' and st['rv']['bop'].startswith(('Add', 'Sub', 'Mul', 'Div'))
                   and any(op_place(o) is not None and op_place(o)['l'] in der for o in (st['rv']['a'], st['rv']['b']))]
            ctx.ob('C13.R4', 'deadline-truncated-like-the-clock|%s|bb%d' % (b.nroot.replace(SQ + '::', '').split('>::')[-1], bb), not bad, b.loc(*(bad[0] if bad else (bb, t))),
                   'the whole-second deadline is used as `as_second()` returns it: %s' % (not bad))
    ctx.floor('C13.R4', 'whole-second deadlines computed in the SQL stores', n, 3)


MAGIC_TOKEN_FEATURES = {
    'arbitrary_precision': 'an object whose first key is `$serde_json::private::Number` is read back as a number (or fails to load)',
    'raw_value': 'an object whose first key is `$serde_json::private::RawValue` is read back as the JSON document inside its string (or fails to load)',
}


def r5_json_codec_features(ctx):
    ctx.rule('C13.R5', 'P9 on the resolved build graph (`cargo metadata --offline --locked` with the sqlite feature: manifests and lock file only, nothing is '
             'compiled or run): the SQL stores keep the state as JSON text and read it back into `serde_json::Value`. The feature set serde_json is '
             'RESOLVED with for that build (features are unified across the graph, so a dependency can switch one on) contains none of the features '
             'that make `Value::deserialize` interpret a magic key inside user data (`arbitrary_precision`, `raw_value`): with one of them `load` does '
             'not return what `create` / `update` wrote for a state that contains the token. And it contains `float_roundtrip`: the state is read back from JSON text, and '
             'only the exact float parser returns every f64 as it was written.')
    import json, subprocess
    from ..engine import REPO
    try:
        r = subprocess.run(['cargo', 'metadata', '--offline', '--locked', '--format-version', '1', '--features', 'pavex_session_sqlx/sqlite'],
                           cwd=REPO, stdout=subprocess.PIPE, stderr=subprocess.PIPE, text=True, timeout=300,
                           env=dict(__import__('os').environ, CARGO_NET_OFFLINE='true'))
        meta = json.loads(r.stdout)
    except Exception as e:
        ctx.need('C13.R5', 'cargo metadata of the workspace (%s)' % str(e)[:200], None)
        return
    pk = {p['id']: p for p in meta['packages']}
    nodes = {n['id']: n for n in meta['resolve']['nodes']}
    sqlx_store = [i for i, p in pk.items() if p['name'] == 'pavex_session_sqlx']
    if not ctx.need('C13.R5', 'package pavex_session_sqlx in the workspace', sqlx_store):
        return
    # the packages the sqlite store is built with: its dependency closure
    seen, work = set(sqlx_store), list(sqlx_store)
    while work:
        for d in nodes[work.pop()].get('dependencies', []):
            if d not in seen:
                seen.add(d)
                work.append(d)
    sj = [i for i in seen if pk[i]['name'] == 'serde_json']
    ctx.floor('C13.R5', 'serde_json packages in the dependency closure of pavex_session_sqlx', len(sj), 1)
    ctx.count('packages_in_the_closure_of_the_sqlx_store', len(seen))
    for i in sj:
        feats = sorted(nodes[i].get('features', []))
        ctx.count('serde_json_features_resolved', len(feats))
        ctx.ob('C13.R5', 'json-codec-feature-required|serde_json|float_roundtrip', 'float_roundtrip' in feats, 'Cargo.lock',
               'serde_json %s is resolved %s `float_roundtrip`: without it the fast float parser reads some doubles back one ULP off '
               '(1.0715660391465826e-75 is stored and 1.0715660391465825e-75 is loaded)' % (pk[i]['version'], 'with' if 'float_roundtrip' in feats else 'WITHOUT'))
        for f, what in sorted(MAGIC_TOKEN_FEATURES.items()):
            who = sorted({pk[n]['name'] for n in seen for d in pk[n]['dependencies'] if d['name'] == 'serde_json' and f in d.get('features', [])})
            ctx.ob('C13.R5', 'json-codec-feature|serde_json|%s' % f, f not in feats, 'Cargo.lock',
                   'serde_json %s is resolved with %s; `%s` %s' % (pk[i]['version'], feats, f,
                                                                   'is off' if f not in feats else 'is ON (requested by %s): %s' % (who or '?', what)))


def check(ctx):
    r5_json_codec_features(ctx)
    r4_deadline_and_clock_share_a_resolution(ctx)
    r1_sqlite(ctx)
    r2_atomicity(ctx)
    r3_memory(ctx)


def check_thorough(ctx):
    """Sibling cross-check, informational only: the Postgres / MySQL stores are outside the property's scope ("each bundled
    session store (in-memory, SQLite)") and cannot be exercised offline, so deviations are attached to the evidence as
    notes and never raise a violation."""
    from ..engine import Ctx
    side = Ctx(ctx.prop, ctx.fb, ctx.tier)
    for tag, ty, clock in (('postgres', 'pavex_session_sqlx::postgres::PostgresSessionStore', "(now() AT TIME ZONE 'UTC')"),
                           ('mysql', 'pavex_session_sqlx::mysql::MySqlSessionStore', 'UNIX_TIMESTAMP()')):
        sql_rules(side, SQ, ty, clock, tag, rule='C13.R1-siblings')
    for ob in side.obs:
        if not ob.ok:
            ctx.notes.append('sibling cross-check (informational, out of scope): %s @ %s: %s' % (ob.key, ob.loc, ob.detail))
    ctx.count('sibling_obligations_informational', len(side.obs))


CLAUSE += ' Also: serde_json is resolved without a magic-token feature (arbitrary_precision / raw_value) in the closure of the SQL store.'
