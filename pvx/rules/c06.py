"""C06 — Errors reach the right handler, every observer, and stop the pipeline.

Decided clauses: the component database registers matchers, then fallback error handlers, then response transformers, in that
order; error-handler lookup walks scopes like constructor lookup (nearest first, a miss continues to the parents); observers
are spliced in registration order (previous -> next -> response) and borrow the error; observer chains are snapshots.
Which handler runs for a given failure is not decided.
"""
from ..facts import callee, op_place, strip_generics
from ..flow import Defs, backward_slice, slice_calls
from .chains_common import chain_snapshots, chain_always_pushed, chain_only_pushed, scope_lookup_shape, concrete_before_templated, own_scope_everywhere, A
from .compiler_common import PX

LEVEL = 'other'
TECHNIQUE = 'static analysis: ordering by dominance in the call-graph builder, scope-walk shape (sibling of C04.R1), provenance of observer chains, always-appended'
CLAUSE = ('ComponentDb::build registers all matchers, switches matcher auto-registration on, attaches the fallback error handler to every '
          'fallible component still lacking one, then adds the IntoResponse transformers; ErrorHandlersDb::get_or_try_bind tries the current '
          'scope first, continues to the parents on every miss and never to children; in build_call_graph observers are visited in '
          'registration order, each new observer is ordered after the previous one and the last one before the response node, and each '
          'borrows the error; a nested blueprint receives a snapshot of the observer chain at the point where it is nested. Every write to handler_id2error_observer_ids derives from the observer chain handed over; chains are never taken or replaced.')
TRUSTED = ['HappensBefore edges are honoured by the ordering pass (C01)']

DB = A + 'components::db::ComponentDb::'
CGB = A + 'call_graph::core_graph::build_call_graph'


def r1_build_order(ctx):
    ctx.rule('C06.R1', 'P2: in ComponentDb::build the calls register_all_matchers < (autoregister_matchers = true) < attach_missing_error_handlers '
             '(in the error-handler pass) < add_into_response_transformers each dominate the next and the end of the function.')
    b = ctx.need('C06.R1', 'ComponentDb::build', ctx.fb.body('pavexc', DB + 'build'))
    if b is None:
        return
    def site(name):
        return [bb for bb, t in b.calls() if (callee(t) or '').endswith('::' + name)]
    seq = ['register_all_matchers', 'add_into_response_transformers']
    m, r = site(seq[0]), site(seq[1])
    flag = [bb for bb, j, st in b.all_assigns() if st['lhs'].get('p') and st['lhs']['p'][-1] == 'f:autoregister_matchers' and st['rv']['k'] == 'use' and st['rv']['op'].get('int') == '1']
    rets = b.return_blocks()
    ok = bool(m) and bool(r) and bool(flag) and b.dominates(m[0], flag[0]) and b.dominates(flag[0], r[0]) and all(b.dominates(r[0], x) for x in rets)
    ctx.ob('C06.R1', 'matchers<flag<transformers', ok, b.loc(m[0]) if m else b.loc(), 'register_all_matchers (bb%s) < autoregister_matchers=true (bb%s) < add_into_response_transformers (bb%s) < return' % (m, flag, r))
    # fallback error handlers: somewhere between, on every path
    eh = [bb for bb, t in b.calls() if any(k in (callee(t) or '') for k in ('attach_missing_error_handlers', 'process_error_handlers', 'add_fallback_error_handler', 'error_handlers'))]
    names = sorted({(callee(t) or '').split('::')[-1] for bb, t in b.calls() if bb in eh})
    ok2 = bool(eh) and any(b.dominates(x, r[0]) for x in eh) if r else False
    ctx.ob('C06.R1', 'fallback-handlers-before-transformers', ok2, b.loc(eh[0]) if eh else b.loc(), 'error-handler passes %s run on every path before the response transformers are added' % names)


def r2_observer_splice(ctx):
    ctx.rule('C06.R2', 'P7/P2: where the call graph builder splices the error observers in (build_call_graph or a private helper of it), inside the loop '
             'over the observer ids (forward, no rev) the HappensBefore edge goes from the PREVIOUS observer node — the loop-carried value that is '
             'set from the node added in the last iteration, or the tail of the vector those nodes are pushed to — to the node added in THIS '
             'iteration; after the loop the last observer gets a HappensBefore edge to the error handler\'s response node; each observer node '
             'gets a SharedBorrow edge from the pavex::Error node; enforce_invariants is given error_observer_ids.len().')
    from .compiler_common import family_bodies
    META = A + 'call_graph::core_graph::CallGraphEdgeMetadata'
    main = ctx.fb.body('pavexc', CGB)
    if not ctx.need('C06.R2', 'build_call_graph', main):
        return
    fam = [x for x in family_bodies(ctx, 'pavexc', [CGB]) if not x.is_promoted]

    def meta_of(b, defs, t):
        pl = op_place(t['args'][-1])
        if pl is None:
            return None
        sl, _ = backward_slice(b, pl['l'], defs, through_calls=False)
        for _, _, n in sl:
            rv = n.get('rv')
            if rv and rv['k'] == 'agg' and strip_generics(rv.get('adt', '')) == META:
                return rv['var']
        return None

    holders = []
    for x in fam:
        d = Defs(x)
        hb = [(bb, t) for bb, t in x.calls() if (callee(t) or '').endswith('::update_edge') and meta_of(x, d, t) == 'HappensBefore']
        if hb:
            holders.append((x, d, hb))
    if not ctx.need('C06.R2', 'HappensBefore edges in the call graph builder', holders):
        return
    b, defs, hb = max(holders, key=lambda h: len(h[2]))
    # the loop over the observer ids: an Iterator::next over a slice of component ids whose loop contains a HappensBefore edge
    loops = []
    for nb, nt in b.calls():
        if callee(nt) != 'core::iter::traits::iterator::Iterator::next' or not nt.get('aty') or 'slice::iter::Iter' not in nt['aty'][0] or 'Idx<' not in nt['aty'][0]:
            continue
        none_t = some_t = None
        for sb in b.reachable(b.succ(nb)):
            w = b.term(sb)
            if w and w['k'] == 'switch' and 'enum' in w and strip_generics(w['enum']) == 'core::option::Option' and w['src']['l'] == nt['dest']['l']:
                from ..tables import switch_edges
                e = switch_edges(w)
                none_t, some_t = e.get('None'), e.get('Some')
                if none_t is None:
                    none_t = [x for x in b.succ(sb) if x != some_t][0] if some_t is not None else None
                if some_t is None:
                    some_t = [x for x in b.succ(sb) if x != none_t][0] if none_t is not None else None
                break
        if none_t is None or some_t is None:
            continue
        inner = {x for x in b.reachable([some_t], avoid=[none_t]) if nb in b.reachable([x], avoid=[none_t])} | {some_t}
        if any(bb in inner for bb, _ in hb):
            loops.append((nb, inner, none_t))
    if not ctx.need('C06.R2', 'loop over the observer ids around a HappensBefore edge', loops):
        return
    nb, inner, none_t = min(loops, key=lambda l: len(l[1]))

    def root(op, depth=0):
        """('call', bb) / ('var', local) / ('param', local) / ('other', None): immediate provenance through copies, references and payload reads"""
        pl = op_place(op) if isinstance(op, dict) and ('cp' in op or 'mv' in op) else op
        seen = set()
        while pl is not None and pl['l'] not in seen and depth < 40:
            depth += 1
            seen.add(pl['l'])
            l = pl['l']
            if 1 <= l <= b.raw['argc']:
                return ('param', l)
            ds = defs.full.get(l, [])
            if len(ds) > 1:
                return ('var', l)
            if not ds:
                return ('other', None)
            dbb, j, node = ds[0]
            if node.get('k') == 'call':
                c = (callee(node) or '').split('::')[-1]
                if c in ('last', 'copied', 'cloned', 'unwrap', 'deref', 'as_ref', 'clone', 'expect', 'last_mut') and node['args']:
                    q = op_place(node['args'][0])
                    if c in ('last', 'last_mut') and q is not None:
                        return ('tail', root_local(q))
                    pl = q
                    continue
                return ('call', dbb)
            rv = node.get('rv')
            if rv and rv['k'] == 'use':
                pl = op_place(rv['op'])
            elif rv and rv['k'] in ('ref', 'cfd'):
                pl = rv['pl']
            elif rv and rv['k'] == 'agg' and rv.get('var') == 'Some' and rv['ops']:
                pl = op_place(rv['ops'][0])
            else:
                return ('other', None)
        return ('other', None)

    def root_local(pl):
        seen = set()
        while pl is not None and pl['l'] not in seen:
            seen.add(pl['l'])
            ds = defs.full.get(pl['l'], [])
            if len(ds) == 1 and ds[0][2].get('k') == 'call' and (callee(ds[0][2]) or '').split('::')[-1] in ('deref', 'deref_mut', 'as_slice', 'as_mut_slice', 'as_ref', 'as_mut', 'borrow', 'borrow_mut') and ds[0][2]['args']:
                pl = op_place(ds[0][2]['args'][0])
                continue
            if len(ds) != 1 or 'rv' not in ds[0][2]:
                return pl['l']
            rv = ds[0][2]['rv']
            if rv['k'] == 'use':
                pl = op_place(rv['op'])
            elif rv['k'] in ('ref', 'cfd'):
                pl = rv['pl']
            else:
                return pl['l']
        return pl['l'] if pl else None

    def is_new(r):
        return r[0] == 'call' and r[1] in inner

    # loop-carried "previous": a local with several definitions, one of them inside the loop and derived from the new node; or the tail of a
    # vector that is pushed the new node inside the loop
    def carried(l):
        ins = [(dbb, node) for dbb, j, node in defs.full.get(l, []) if dbb in inner]
        outs = [(dbb, node) for dbb, j, node in defs.full.get(l, []) if dbb not in inner]
        if not ins or not outs:
            return False
        for dbb, node in ins:
            rv = node.get('rv')
            src = None
            if rv and rv['k'] == 'agg' and rv['ops']:
                src = rv['ops'][0]
            elif rv and rv['k'] == 'use':
                src = rv['op']
            if src is None or not is_new(root(src)):
                return False
        return True

    def pushed_new(vec_local):
        for pb, pt in b.calls():
            if pb in inner and (callee(pt) or '').split('::')[-1] in ('push', 'push_back') and pt['args']:
                q = op_place(pt['args'][0])
                if q is not None and root_local(q) == vec_local and is_new(root(pt['args'][-1])):
                    return True
        return False

    def role(op):
        r = root(op)
        if is_new(r):
            return 'new'
        if r[0] == 'var' and carried(r[1]):
            return 'previous'
        if r[0] == 'tail' and r[1] is not None and pushed_new(r[1]):
            return 'previous'
        return 'other'

    edges = [(bb, role(t['args'][1]), role(t['args'][2]), bb in inner) for bb, t in hb]
    got = sorted((a, c, 'in' if i else 'after') for _, a, c, i in edges)
    want = [('previous', 'new', 'in'), ('previous', 'other', 'after')]
    ctx.ob('C06.R2', 'observers-chained-in-registration-order', got == want, b.loc(edges[0][0]) if edges else b.loc(),
           'HappensBefore edges: %s (documented: previous -> new inside the loop, previous -> response node after it)' % got)
    borrows = [(role(t['args'][1]), role(t['args'][2])) for bb, t in b.calls() if (callee(t) or '').endswith('::update_edge') and meta_of(b, defs, t) == 'SharedBorrow'
               and bb in inner and role(t['args'][2]) == 'new']
    ctx.ob('C06.R2', 'observers-borrow-the-error', bool(borrows) and all(a == 'other' for a, _ in borrows), b.loc(), 'each new observer node gets a SharedBorrow edge from the error node: %s' % borrows)
    # forward iteration
    revs = [bb for x in fam for bb, t in x.calls() if callee(t) == 'core::iter::traits::iterator::Iterator::rev' and 'slice::iter::Iter' in t['aty'][0] and 'Idx<' in t['aty'][0]]
    ctx.ob('C06.R2', 'forward-iteration', not revs, b.loc(), 'no reversed iteration over the observer ids: %s' % (not revs))
    inv = [(bb, t) for bb, t in main.calls() if (callee(t) or '').endswith('core_graph::enforce_invariants')]
    oks = [bb for bb, j, st in main.all_assigns() if st['lhs'] == {'l': 0} and st['rv']['k'] == 'agg' and st['rv'].get('var') == 'Ok']
    ctx.ob('C06.R2', 'invariants-before-ok', bool(inv) and bool(oks) and all(main.dominates(inv[0][0], o) for o in oks), main.loc(inv[0][0]) if inv else main.loc(),
           'enforce_invariants(..) dominates Ok(call graph)')


def r3_lookup(ctx):
    ctx.rule('C06.R3', 'P2/P3 (sibling of C04.R1): ErrorHandlersDb::get_or_try_bind walks scopes FIFO from the failing component\'s scope, tests the '
             'current scope first, extends with direct_parent_ids only, and a scope without a matching handler (with or without other '
             'handlers) always falls through to its parents.')
    scope_lookup_shape(ctx, 'C06.R3', A + 'error_handlers::ErrorHandlersDb::get_or_try_bind', A + 'error_handlers::ErrorHandlersInScope::get_or_try_bind')
    concrete_before_templated(ctx, 'C06.R3', A + 'error_handlers::ErrorHandlersInScope::get_or_try_bind', A + 'error_handlers::ErrorHandlersInScope::get')
    own_scope_everywhere(ctx, 'C06.R3')


def r4_observer_snapshots(ctx):
    ctx.rule('C06.R4', 'P7: the observer chain handed to a nested blueprint is a clone taken in the arm that visits the nested blueprint (observers '
             'registered later in the parent do not run for routes of the nested blueprint).')
    chain_snapshots(ctx, 'C06.R4', 'current_observer_chain', 'observer chain')
    chain_always_pushed(ctx, 'C06.R4', ['ErrorObserver'], 'observer chain')
    chain_only_pushed(ctx, 'C06.R4')


def r5_error_ref_index_agrees(ctx):
    ctx.rule('C06.R5', 'P4 agreement between writer and reader of `error_ref_input_index`: the `#[error_handler]` macro writes the position of the '
             '`#[px(error_ref)]` parameter and pavexc reads it as an index into the callable\'s FULL input list (receiver included) to learn which '
             'error type the handler is filed under. Macro side: in pavex_macros::error_handler every position comes from `enumerate()` / `position()` '
             'applied to the un-adapted iterator over `sig.inputs` (`Punctuated<FnArg>::iter()`): an `enumerate` over a `filter_map` / `skip` / `filter` '
             'numbers a different sequence, and `&self, #[px(error_ref)] e: &AuthError` is then filed under the receiver\'s type. Compiler side: the '
             'index is applied to `inputs()` of the callable as it is (no arithmetic on the way).')
    MC = ('pavex_macros', 'ProcMacro')
    if MC not in ctx.fb.available():
        ctx.need('C06.R5', 'fact file of the proc-macro crate pavex_macros', None)
        return
    n = 0
    for b in ctx.fb.bodies(*MC):
        if b.is_promoted or not b.nid.startswith('pavex_macros::error_handler::'):
            continue
        for bb, t in b.calls():
            m = (callee(t) or '').split('::')[-1]
            if (callee(t) or '').startswith('core::iter::traits::iterator::Iterator::') and m in ('enumerate', 'position', 'rposition'):
                ty = t['aty'][0] if t['aty'] else ''
                if 'FnArg' not in ty and 'PatType' not in ty and 'Receiver' not in ty:
                    continue
                n += 1
                plain = strip_generics(ty.lstrip('&').replace('mut ', '')).split('<')[0] in ('syn::punctuated::Iter', 'syn::punctuated::IterMut', 'core::slice::iter::Iter') \
                    and 'core::iter::adapters::' not in ty and 'FnArg' in ty
                ctx.ob('C06.R5', 'positions-in-the-full-input-list|%s|%s' % (b.nid.replace('pavex_macros::', ''), m), plain, b.loc(bb, t),
                       '%s() numbers %s: %s' % (m, ty[:140], 'the inputs as the compiler sees them' if plain else 'NOT the full, unfiltered list of inputs — the position it yields is not the index pavexc applies to the callable\'s inputs'))
    ctx.floor('C06.R5', 'position computations over the handler\'s inputs in pavex_macros::error_handler', n, 1)
    # compiler side
    EH = 'pavexc::compiler::component::error_handler::'
    k = 0
    for b in ctx.fb.bodies('pavexc'):
        if b.is_promoted or not b.nid.startswith(EH):
            continue
        defs = None
        for bb, j, st in b.all_assigns():
            rv = st['rv']
            pl = rv.get('pl') if rv['k'] in ('ref', 'cfd') else (op_place(rv['op']) if rv['k'] == 'use' else None)
            idx = [e for e in ((pl or {}).get('p') or []) if e.startswith('i:')]
            if not idx or 'rustdoc_ir::callable::CallableInput' not in str((pl or {}).get('fo') or b.locals[pl['l']]):
                continue
            defs = defs or Defs(b)
            il = int(idx[0][2:])
            sl, locs = backward_slice(b, il, defs, through_calls=False)
            reads = any('f:error_ref_input_index' in ((nd['rv'].get('pl') or op_place(nd['rv'].get('op') or {}) or {}).get('p') or []) for _, _, nd in sl if 'rv' in nd)
            from_param = any(1 <= l <= b.raw['argc'] and b.locals[l] == 'usize' for l in locs | {il})
            if not (reads or from_param):
                continue
            k += 1
            arith = [nd['rv']['bop'] for _, _, nd in sl if 'rv' in nd and nd['rv']['k'] == 'bin']
            ctx.ob('C06.R5', 'index-applied-as-is|%s' % b.nid.replace(EH, ''), not arith, b.loc(bb, st),
                   'inputs()[error_ref_input_index]: arithmetic on the index on the way: %s' % (arith or 'none'))
    ctx.floor('C06.R5', 'places where pavexc indexes the handler\'s inputs with error_ref_input_index', k, 1)


def r6_observers_recorded_per_handler(ctx):
    from .chains_common import chain_recorded_per_handler
    ctx.rule('C06.R6', 'P7 provenance (sibling of C05.R5): every write to `handler_id2error_observer_ids` stores a value computed from the observer '
             'chain the registering function was handed and from nothing kept across handlers.')
    chain_recorded_per_handler(ctx, 'C06.R6', 'handler_id2error_observer_ids', 'error observer chain')


def r7_generic_matching_is_faithful(ctx):
    ctx.rule('C06.R7', 'shared with C17.R13: whether the generic error handler registered for an error type is the one that is wired is decided by `Type::is_a_template_for`: a matcher that wrongly says "no match" lets a later catch-all handler (or the fallback) answer instead. The recursive calls of the template matcher keep the roles of template and concrete operand, and parts of the two '
             'operands are not compared by derived equality outside the reviewed sites.')
    from .c17 import r13_template_roles_and_relation
    from ..engine import Ctx
    side = Ctx(ctx.prop, ctx.fb, ctx.tier)
    r13_template_roles_and_relation(side)
    for ob in side.obs:
        ctx.ob('C06.R7', ob.key, ob.ok, ob.loc, ob.detail, ob.nontrivial)


def r8_the_handler_found_for_the_type_is_the_one_used(ctx):
    from ..govern import controlling_switches
    from ..flow import forward_derived
    ctx.rule('C06.R8', 'P12 decision audit in `ComponentDb::attach_missing_error_handlers`: the handler looked up for the error\'s OWN type '
             '(`get_or_try_bind(scope, error_type, ..)`, the lookup that is not keyed by `pavex_error`) is the handler that gets attached whenever the lookup '
             'finds a valid one. The places where the payload of that result is opened are governed by the shape of that result only (Some / None, '
             'Valid / Invalid) — by no other lookup, scope comparison or flag: "the catch-all registered closer wins" sends the error to a handler that was '
             'not written for it, and the dedicated handler never runs.')
    item = PX + 'analyses::components::db::ComponentDb::attach_missing_error_handlers'
    bodies = [b for b in ctx.fb.bodies_of_item('pavexc', item) if not b.is_promoted]
    if not ctx.need('C06.R8', 'attach_missing_error_handlers', bodies):
        return
    n = 0
    for b in bodies:
        defs = Defs(b)
        for bb, t in b.calls():
            if not (callee(t) or '').endswith('ErrorHandlersDb::get_or_try_bind') and not (callee(t) or '').endswith('::get_or_try_bind'):
                continue
            key = op_place(t['args'][2]) if len(t['args']) > 2 else None
            names = set()
            if key is not None:
                sl, _ = backward_slice(b, key['l'], defs)
                from ..govern import field_reads_of_slice
                names = {f for f in field_reads_of_slice(sl)} if sl else set()
            if any('pavex_error' in str(x) for x in names):
                continue            # the catch-all lookup
            n += 1
            R = t['dest']['l']
            d = forward_derived(b, {R}, defs)
            # the result may be wrapped before it is opened (`Resolution::Dedicated(entry)`): follow it through aggregates
            grew = True
            while grew:
                grew = False
                for xb, j, st in b.all_assigns():
                    rv_ = st['rv']
                    if rv_['k'] == 'agg' and not st['lhs'].get('p') and st['lhs']['l'] not in d and \
                            any(op_place(o) is not None and op_place(o)['l'] in d for o in rv_['ops']):
                        d |= forward_derived(b, {st['lhs']['l']}, defs)
                        grew = True
            opened = set()
            for xb, j, st in b.all_assigns():
                ops, pls = __import__('pvx.flow', fromlist=['rv_operands']).rv_operands(st['rv'])
                for q in pls + [op_place(o) for o in ops if op_place(o) is not None]:
                    if q['l'] in d and any(p.startswith('d:Valid') for p in q.get('p', [])):
                        opened.add(xb)
            if not opened:
                ctx.ob('C06.R8', 'payload-opened', False, b.loc(bb, t), 'the valid handler found for the error type is never opened in this body')
                continue
            bad = []
            for xb in sorted(opened):
                for sb, st in controlling_switches(b, xb):
                    if b.dominates(sb, bb):
                        continue            # decided before the lookup was made (the loop, earlier `continue`s)
                    pl = op_place(st['d']) if 'd' in st else None
                    src = st.get('src')
                    l = src['l'] if src else (pl['l'] if pl else None)
                    if l is None:
                        continue
                    if l in d:
                        continue
                    sl, _ = backward_slice(b, l, defs)
                    cs = sorted({(x or '?').split('::')[-1].split('<')[0] for x, _, _ in slice_calls(sl)} - {'get_or_try_bind'})
                    if not cs and any((nd is t) for _, _, nd in sl):
                        continue
                    bad.append('%s at %s' % (cs or 'a flag', b.loc(sb)))
            ctx.ob('C06.R8', 'specific-handler-used-when-found', not bad, b.loc(bb, t),
                   'the payload of the type-specific lookup is opened under conditions that derive from the lookup itself%s' % (
                       '' if not bad else ' — NO: also from ' + '; '.join(sorted(set(bad)))))
    ctx.floor('C06.R8', 'type-specific handler lookups in attach_missing_error_handlers', n, 1)


def check(ctx):
    r8_the_handler_found_for_the_type_is_the_one_used(ctx)
    r7_generic_matching_is_faithful(ctx)
    r6_observers_recorded_per_handler(ctx)
    r1_build_order(ctx)
    r2_observer_splice(ctx)
    r3_lookup(ctx)
    r4_observer_snapshots(ctx)
    r5_error_ref_index_agrees(ctx)


CLAUSE += " Also: the handler found for the error's own type is attached whenever it is found, whatever the catch-all lookup says."
