//! pvx-facts: a rule-free MIR fact extractor for the pavex workspace.
//!
//! Injected with RUSTC_WORKSPACE_WRAPPER under `cargo +nightly check`. For every workspace crate it
//! dumps one JSON file into $PVX_FACTS_DIR describing ADTs, impls and the *pre-borrowck, pre-coroutine
//! transform* MIR (`mir_promoted`) of every body. It contains no rules: it is a faithful dump.
#![feature(rustc_private)]
#![allow(clippy::all)]

extern crate rustc_abi;
extern crate rustc_data_structures;
extern crate rustc_driver;
extern crate rustc_hir;
extern crate rustc_interface;
extern crate rustc_middle;
extern crate rustc_session;
extern crate rustc_span;

use std::fmt::Write as _;

use rustc_driver::Compilation;
use rustc_hir::def::DefKind;
use rustc_hir::def_id::{DefId, LocalDefId};
use rustc_middle::mir::{
    self, AggregateKind, BasicBlock, Body, Const, ConstValue, Operand, Place, PlaceElem, Rvalue,
    StatementKind, TerminatorKind,
};
use rustc_middle::ty::print::{with_no_trimmed_paths, with_no_visible_paths, with_resolve_crate_name};
use rustc_middle::ty::{self, Ty, TyCtxt};
use rustc_span::Span;

// ---------------------------------------------------------------------------------------------
// Minimal JSON writer
// ---------------------------------------------------------------------------------------------

fn jstr(out: &mut String, s: &str) {
    out.push('"');
    for c in s.chars() {
        match c {
            '"' => out.push_str("\\\""),
            '\\' => out.push_str("\\\\"),
            '\n' => out.push_str("\\n"),
            '\r' => out.push_str("\\r"),
            '\t' => out.push_str("\\t"),
            c if (c as u32) < 0x20 => {
                let _ = write!(out, "\\u{:04x}", c as u32);
            }
            c => out.push(c),
        }
    }
    out.push('"');
}

struct Obj<'a> {
    out: &'a mut String,
    first: bool,
}
impl<'a> Obj<'a> {
    fn new(out: &'a mut String) -> Self {
        out.push('{');
        Obj { out, first: true }
    }
    fn key(&mut self, k: &str) {
        if !self.first {
            self.out.push(',');
        }
        self.first = false;
        jstr(self.out, k);
        self.out.push(':');
    }
    fn s(&mut self, k: &str, v: &str) {
        self.key(k);
        jstr(self.out, v);
    }
    fn n(&mut self, k: &str, v: i128) {
        self.key(k);
        let _ = write!(self.out, "{}", v);
    }
    fn b(&mut self, k: &str, v: bool) {
        self.key(k);
        self.out.push_str(if v { "true" } else { "false" });
    }
    fn raw(&mut self, k: &str, v: &str) {
        self.key(k);
        self.out.push_str(v);
    }
    fn end(self) {
        self.out.push('}');
    }
}

fn jarr<T>(out: &mut String, items: impl IntoIterator<Item = T>, mut f: impl FnMut(&mut String, T)) {
    out.push('[');
    let mut first = true;
    for it in items {
        if !first {
            out.push(',');
        }
        first = false;
        f(out, it);
    }
    out.push(']');
}

// ---------------------------------------------------------------------------------------------
// Extraction
// ---------------------------------------------------------------------------------------------

struct Cx<'tcx> {
    tcx: TyCtxt<'tcx>,
}

impl<'tcx> Cx<'tcx> {
    fn path(&self, did: DefId) -> String {
        with_no_trimmed_paths!(self.tcx.def_path_str(did))
    }
    fn ty(&self, t: Ty<'tcx>) -> String {
        with_no_trimmed_paths!(format!("{}", t))
    }

    fn span_obj(&self, o: &mut Obj<'_>, span: Span) {
        let sm = self.tcx.sess.source_map();
        let exp = span.from_expansion();
        // Location of the outermost call site (what the user wrote).
        let root = if exp { span.source_callsite() } else { span };
        let lo = sm.lookup_char_pos(root.lo());
        o.n("ln", lo.line as i128);
        if exp {
            let bt: Vec<_> = span.macro_backtrace().collect();
            let name = |e: &rustc_span::ExpnData| match e.kind {
                rustc_span::ExpnKind::Macro(_, sym) => sym.to_string(),
                rustc_span::ExpnKind::Desugaring(d) => format!("desugar:{:?}", d),
                rustc_span::ExpnKind::AstPass(p) => format!("astpass:{:?}", p),
                rustc_span::ExpnKind::Root => "root".to_string(),
            };
            if let Some(inner) = bt.first() {
                o.s("mi", &name(inner));
            }
            if let Some(outer) = bt.last() {
                o.s("mo", &name(outer));
            }
        }
    }

    fn file_of(&self, span: Span) -> String {
        let sm = self.tcx.sess.source_map();
        let root = if span.from_expansion() { span.source_callsite() } else { span };
        let lo = sm.lookup_char_pos(root.lo());
        format!("{}", lo.file.name.prefer_local_unconditionally())
    }

    fn place(&self, out: &mut String, body: &Body<'tcx>, p: &Place<'tcx>) {
        // {"l":3,"p":["*","f:state","d:Changed","i:4","[]"]}
        let mut o = Obj::new(out);
        o.n("l", p.local.as_u32() as i128);
        if !p.projection.is_empty() {
            o.key("p");
            let tcx = self.tcx;
            let mut pty = mir::PlaceTy::from_ty(body.local_decls[p.local].ty);
            let out2: &mut String = o.out;
            out2.push('[');
            let mut first = true;
            for elem in p.projection.iter() {
                if !first {
                    out2.push(',');
                }
                first = false;
                let s = match elem {
                    PlaceElem::Deref => "*".to_string(),
                    PlaceElem::Field(f, _) => {
                        let name = self.field_name(pty, f);
                        format!("f:{}", name)
                    }
                    PlaceElem::Downcast(sym, idx) => match sym {
                        Some(s) => format!("d:{}", s),
                        None => format!("d:#{}", idx.as_u32()),
                    },
                    PlaceElem::Index(l) => format!("i:{}", l.as_u32()),
                    PlaceElem::ConstantIndex { offset, from_end, .. } => {
                        format!("ci:{}{}", if from_end { "-" } else { "" }, offset)
                    }
                    PlaceElem::Subslice { from, to, from_end } => {
                        format!("ss:{}:{}:{}", from, to, from_end)
                    }
                    PlaceElem::OpaqueCast(_) => "oc".to_string(),
                    PlaceElem::UnwrapUnsafeBinder(_) => "ub".to_string(),
                };
                jstr(out2, &s);
                pty = pty.projection_ty(tcx, elem);
            }
            out2.push(']');
            // enum ADT of every downcast and owner ADT of every field projection, in order
            let mut enums: Vec<String> = Vec::new();
            let mut owners: Vec<String> = Vec::new();
            let mut pty2 = mir::PlaceTy::from_ty(body.local_decls[p.local].ty);
            for elem in p.projection.iter() {
                match elem {
                    PlaceElem::Downcast(..) => {
                        if let ty::Adt(adt, _) = pty2.ty.kind() {
                            enums.push(self.path(adt.did()));
                        } else {
                            enums.push(self.ty(pty2.ty));
                        }
                    }
                    PlaceElem::Field(..) => {
                        if let ty::Adt(adt, _) = pty2.ty.kind() {
                            owners.push(self.path(adt.did()));
                        } else {
                            owners.push(String::new());
                        }
                    }
                    _ => {}
                }
                pty2 = pty2.projection_ty(tcx, elem);
            }
            if !enums.is_empty() {
                o.key("e");
                jarr(o.out, enums.iter(), |out, e| jstr(out, e));
            }
            if owners.iter().any(|s| !s.is_empty()) {
                o.key("fo");
                jarr(o.out, owners.iter(), |out, e| jstr(out, e));
            }
        }
        o.end();
    }

    fn field_name(&self, pty: mir::PlaceTy<'tcx>, f: rustc_abi::FieldIdx) -> String {
        match pty.ty.kind() {
            ty::Adt(adt, _) => {
                let variant = match pty.variant_index {
                    Some(v) => adt.variant(v),
                    None => {
                        if adt.is_enum() {
                            return format!("{}", f.as_u32());
                        }
                        adt.non_enum_variant()
                    }
                };
                variant
                    .fields
                    .get(f)
                    .map(|fd| fd.name.to_string())
                    .unwrap_or_else(|| format!("{}", f.as_u32()))
            }
            _ => format!("{}", f.as_u32()),
        }
    }

    fn operand(&self, out: &mut String, body: &Body<'tcx>, op: &Operand<'tcx>) {
        match op {
            Operand::Copy(p) => {
                out.push_str("{\"cp\":");
                self.place(out, body, p);
                out.push('}');
            }
            Operand::Move(p) => {
                out.push_str("{\"mv\":");
                self.place(out, body, p);
                out.push('}');
            }
            Operand::Constant(c) => self.constant(out, &c.const_),
            _ => {
                out.push_str("{\"other\":true}");
            }
        }
    }

    fn constant(&self, out: &mut String, c: &Const<'tcx>) {
        let mut o = Obj::new(out);
        let ty = c.ty();
        match ty.kind() {
            ty::FnDef(did, args) => {
                o.s("fn", &self.path(*did));
                o.s("fnx", &with_no_trimmed_paths!(self.tcx.def_path_str_with_args(*did, args)));
            }
            _ => {
                o.s("ty", &self.ty(ty));
                match c {
                    Const::Val(v, t) => {
                        let is_str_like = match t.kind() {
                            ty::Ref(_, inner, _) => {
                                inner.is_str()
                                    || matches!(inner.kind(), ty::Slice(e) if *e == self.tcx.types.u8)
                            }
                            _ => false,
                        };
                        if is_str_like {
                            if let ConstValue::Slice { .. } | ConstValue::Indirect { .. } = v {
                                if let Some(bytes) = v.try_get_slice_bytes_for_diagnostics(self.tcx) {
                                    o.s("str", &String::from_utf8_lossy(bytes));
                                }
                            }
                        } else if let Some(bytes) = self.byte_array_ref(v, *t) {
                            o.s("bytes", &String::from_utf8_lossy(&bytes));
                        } else if let Some(si) = v.try_to_scalar_int() {
                            let bits = si.to_bits_unchecked();
                            o.raw("int", &format!("\"{}\"", bits));
                        } else if matches!(v, ConstValue::ZeroSized) {
                            o.b("zst", true);
                        } else if let ConstValue::Scalar(mir::interpret::Scalar::Ptr(ptr, _)) = v {
                            // `&STATIC`: name the static item
                            let (prov, _) = ptr.prov_and_relative_offset();
                            if let mir::interpret::GlobalAlloc::Static(sid) = self.tcx.global_alloc(prov.alloc_id()) {
                                o.s("static", &self.path(sid));
                            }
                        }
                    }
                    Const::Unevaluated(u, _) => {
                        o.s("uneval", &self.path(u.def));
                        if let Some(p) = u.promoted {
                            o.n("promoted", p.as_u32() as i128);
                        }
                    }
                    Const::Ty(_, ct) => {
                        o.s("tyconst", &with_no_trimmed_paths!(format!("{}", ct)));
                    }
                }
            }
        }
        o.end();
    }

    /// Bytes behind a `&[u8; N]` constant (the new `format_args!` lowering encodes its template this way).
    fn byte_array_ref(&self, v: &ConstValue, t: Ty<'tcx>) -> Option<Vec<u8>> {
        let ty::Ref(_, inner, _) = t.kind() else { return None };
        let ty::Array(elem, len) = inner.kind() else { return None };
        if *elem != self.tcx.types.u8 {
            return None;
        }
        let n = len.try_to_target_usize(self.tcx)? as usize;
        let ConstValue::Scalar(mir::interpret::Scalar::Ptr(ptr, _)) = v else { return None };
        let (prov, offset) = ptr.prov_and_relative_offset();
        let alloc = self.tcx.global_alloc(prov.alloc_id());
        let mir::interpret::GlobalAlloc::Memory(mem) = alloc else { return None };
        let a = mem.inner();
        let start = offset.bytes() as usize;
        if start + n > a.len() {
            return None;
        }
        Some(a.inspect_with_uninit_and_ptr_outside_interpreter(start..start + n).to_vec())
    }

    fn rvalue(&self, out: &mut String, body: &Body<'tcx>, rv: &Rvalue<'tcx>) {
        let mut o = Obj::new(out);
        match rv {
            Rvalue::Use(op, ..) => {
                o.s("k", "use");
                o.key("op");
                self.operand(o.out, body, op);
            }
            Rvalue::Repeat(op, _) => {
                o.s("k", "repeat");
                o.key("op");
                self.operand(o.out, body, op);
            }
            Rvalue::Ref(_, bk, p) => {
                o.s("k", "ref");
                o.s(
                    "bk",
                    match bk {
                        mir::BorrowKind::Shared => "shared",
                        mir::BorrowKind::Fake(_) => "fake",
                        mir::BorrowKind::Mut { .. } => "mut",
                    },
                );
                o.key("pl");
                self.place(o.out, body, p);
            }
            Rvalue::ThreadLocalRef(d) => {
                o.s("k", "tls");
                o.s("def", &self.path(*d));
            }
            Rvalue::RawPtr(_, p) => {
                o.s("k", "rawptr");
                o.key("pl");
                self.place(o.out, body, p);
            }
            Rvalue::Cast(ck, op, t) => {
                o.s("k", "cast");
                o.s("ck", &format!("{:?}", ck));
                o.s("ty", &self.ty(*t));
                o.key("op");
                self.operand(o.out, body, op);
            }
            Rvalue::BinaryOp(bop, ops) => {
                o.s("k", "bin");
                o.s("bop", &format!("{:?}", bop));
                o.key("a");
                self.operand(o.out, body, &ops.0);
                o.key("b");
                self.operand(o.out, body, &ops.1);
            }
            Rvalue::UnaryOp(uop, op) => {
                o.s("k", "un");
                o.s("uop", &format!("{:?}", uop));
                o.key("op");
                self.operand(o.out, body, op);
            }
            Rvalue::Discriminant(p) => {
                o.s("k", "discr");
                o.key("pl");
                self.place(o.out, body, p);
                let pty = p.ty(body, self.tcx).ty;
                o.s("ty", &self.ty(pty));
            }
            Rvalue::Aggregate(kind, ops) => {
                o.s("k", "agg");
                match &**kind {
                    AggregateKind::Array(_) => o.s("ak", "array"),
                    AggregateKind::Tuple => o.s("ak", "tuple"),
                    AggregateKind::Adt(did, vidx, _, _, _) => {
                        o.s("ak", "adt");
                        o.s("adt", &self.path(*did));
                        let adt = self.tcx.adt_def(*did);
                        let v = adt.variant(*vidx);
                        o.s("var", &v.name.to_string());
                        o.key("fields");
                        jarr(o.out, v.fields.iter(), |out, f| jstr(out, &f.name.to_string()));
                    }
                    AggregateKind::Closure(did, _) => {
                        o.s("ak", "closure");
                        o.s("def", &self.path(*did));
                    }
                    AggregateKind::Coroutine(did, _) => {
                        o.s("ak", "coroutine");
                        o.s("def", &self.path(*did));
                    }
                    AggregateKind::CoroutineClosure(did, _) => {
                        o.s("ak", "coroutine_closure");
                        o.s("def", &self.path(*did));
                    }
                    AggregateKind::RawPtr(..) => o.s("ak", "rawptr"),
                }
                o.key("ops");
                jarr(o.out, ops.iter(), |out, op| self.operand(out, body, op));
            }
            Rvalue::CopyForDeref(p) => {
                o.s("k", "cfd");
                o.key("pl");
                self.place(o.out, body, p);
            }
            Rvalue::WrapUnsafeBinder(op, _) => {
                o.s("k", "wub");
                o.key("op");
                self.operand(o.out, body, op);
            }
        }
        o.end();
    }

    fn operand_ty(&self, body: &Body<'tcx>, op: &Operand<'tcx>) -> String {
        self.ty(op.ty(body, self.tcx))
    }

    /// If `discr` is a local assigned in this block by `Discriminant(place)`, return the ADT.
    fn switch_enum(
        &self,
        body: &Body<'tcx>,
        bb: BasicBlock,
        discr: &Operand<'tcx>,
    ) -> Option<(ty::AdtDef<'tcx>, Place<'tcx>)> {
        let p = discr.place()?;
        let l = p.as_local()?;
        for st in body.basic_blocks[bb].statements.iter().rev() {
            if let StatementKind::Assign(b) = &st.kind {
                if b.0.as_local() == Some(l) {
                    if let Rvalue::Discriminant(src) = &b.1 {
                        let t = src.ty(body, self.tcx).ty;
                        if let ty::Adt(adt, _) = t.kind() {
                            if adt.is_enum() {
                                return Some((*adt, *src));
                            }
                        }
                    }
                    return None;
                }
            }
        }
        None
    }

    fn terminator(
        &self,
        out: &mut String,
        body: &Body<'tcx>,
        owner: LocalDefId,
        bb: BasicBlock,
        term: &mir::Terminator<'tcx>,
    ) {
        let mut o = Obj::new(out);
        self.span_obj(&mut o, term.source_info.span);
        match &term.kind {
            TerminatorKind::Goto { target } => {
                o.s("k", "goto");
                o.n("t", target.as_u32() as i128);
            }
            TerminatorKind::SwitchInt { discr, targets } => {
                o.s("k", "switch");
                o.key("d");
                self.operand(o.out, body, discr);
                o.s("dty", &self.operand_ty(body, discr));
                let en = self.switch_enum(body, bb, discr);
                if let Some((adt, src)) = &en {
                    o.s("enum", &self.path(adt.did()));
                    o.key("src");
                    self.place(o.out, body, src);
                }
                o.key("ts");
                let tcx = self.tcx;
                jarr(o.out, targets.iter(), |out, (val, t)| {
                    out.push('[');
                    let mut name = None;
                    if let Some((adt, _)) = &en {
                        for (vidx, d) in adt.discriminants(tcx) {
                            if d.val == val {
                                name = Some(adt.variant(vidx).name.to_string());
                            }
                        }
                    }
                    match name {
                        Some(n) => jstr(out, &n),
                        None => jstr(out, &format!("{}", val)),
                    }
                    let _ = write!(out, ",{}]", t.as_u32());
                });
                o.n("else", targets.otherwise().as_u32() as i128);
                if let Some((adt, _)) = &en {
                    // names of the variants not explicitly listed (they go to `otherwise`)
                    let listed: Vec<u128> = targets.iter().map(|(v, _)| v).collect();
                    o.key("rest");
                    let rest: Vec<String> = adt
                        .discriminants(tcx)
                        .filter(|(_, d)| !listed.contains(&d.val))
                        .map(|(v, _)| adt.variant(v).name.to_string())
                        .collect();
                    jarr(o.out, rest.iter(), |out, n| jstr(out, n));
                }
            }
            TerminatorKind::UnwindResume => o.s("k", "resume"),
            TerminatorKind::UnwindTerminate(_) => o.s("k", "terminate"),
            TerminatorKind::Return => o.s("k", "return"),
            TerminatorKind::Unreachable => o.s("k", "unreachable"),
            TerminatorKind::Drop { place, target, unwind, .. } => {
                o.s("k", "drop");
                o.key("pl");
                self.place(o.out, body, place);
                o.n("t", target.as_u32() as i128);
                if let mir::UnwindAction::Cleanup(u) = unwind {
                    o.n("u", u.as_u32() as i128);
                }
            }
            TerminatorKind::Call { func, args, destination, target, unwind, fn_span, .. } => {
                o.s("k", "call");
                self.call_common(&mut o, body, owner, func, args.iter().map(|a| &a.node));
                o.key("dest");
                self.place(o.out, body, destination);
                if let Some(t) = target {
                    o.n("t", t.as_u32() as i128);
                }
                if let mir::UnwindAction::Cleanup(u) = unwind {
                    o.n("u", u.as_u32() as i128);
                }
                let sm = self.tcx.sess.source_map();
                let fs = if fn_span.from_expansion() { fn_span.source_callsite() } else { *fn_span };
                o.n("fln", sm.lookup_char_pos(fs.lo()).line as i128);
            }
            TerminatorKind::TailCall { func, args, .. } => {
                o.s("k", "tailcall");
                self.call_common(&mut o, body, owner, func, args.iter().map(|a| &a.node));
            }
            TerminatorKind::Assert { cond, expected, msg, target, unwind } => {
                o.s("k", "assert");
                o.key("cond");
                self.operand(o.out, body, cond);
                o.b("exp", *expected);
                let kind = format!("{:?}", msg);
                let kind = kind.split('(').next().unwrap_or("").to_string();
                o.s("msg", &kind);
                o.n("t", target.as_u32() as i128);
                if let mir::UnwindAction::Cleanup(u) = unwind {
                    o.n("u", u.as_u32() as i128);
                }
            }
            TerminatorKind::Yield { value, resume, drop, .. } => {
                o.s("k", "yield");
                o.key("v");
                self.operand(o.out, body, value);
                o.n("t", resume.as_u32() as i128);
                if let Some(d) = drop {
                    o.n("dr", d.as_u32() as i128);
                }
            }
            TerminatorKind::CoroutineDrop => o.s("k", "codrop"),
            TerminatorKind::FalseEdge { real_target, imaginary_target } => {
                o.s("k", "goto");
                o.n("t", real_target.as_u32() as i128);
                o.n("imag", imaginary_target.as_u32() as i128);
            }
            TerminatorKind::FalseUnwind { real_target, .. } => {
                o.s("k", "goto");
                o.n("t", real_target.as_u32() as i128);
                o.b("falseunwind", true);
            }
            TerminatorKind::InlineAsm { .. } => o.s("k", "asm"),
        }
        o.end();
    }

    fn call_common<'a>(
        &self,
        o: &mut Obj<'_>,
        body: &Body<'tcx>,
        owner: LocalDefId,
        func: &Operand<'tcx>,
        args: impl Iterator<Item = &'a Operand<'tcx>> + Clone,
    ) where
        'tcx: 'a,
    {
        let tcx = self.tcx;
        let fty = func.ty(body, tcx);
        match fty.kind() {
            ty::FnDef(did, gargs) => {
                o.s("f", &self.path(*did));
                o.s("fx", &with_no_trimmed_paths!(tcx.def_path_str_with_args(*did, gargs)));
                o.key("ga");
                jarr(o.out, gargs.iter(), |out, a| {
                    jstr(out, &with_no_trimmed_paths!(format!("{}", a)))
                });
                // declared names of the callee's generic parameters, in the order of `ga`
                o.key("gn");
                jarr(o.out, ty::GenericArgs::identity_for_item(tcx, *did).iter(), |out, a| {
                    jstr(out, &with_no_trimmed_paths!(format!("{}", a)))
                });
                // parent (trait or impl) information
                if let Some(parent) = tcx.opt_parent(*did) {
                    match tcx.def_kind(parent) {
                        DefKind::Trait => o.s("tr", &self.path(parent)),
                        DefKind::Impl { .. } => {
                            let self_ty = tcx.type_of(parent).instantiate_identity().skip_norm_wip();
                            o.s("impl_self", &self.ty(self_ty));
                        }
                        _ => {}
                    }
                }
                // Resolve trait method calls to their impl when statically possible.
                if matches!(tcx.def_kind(*did), DefKind::AssocFn | DefKind::Fn) {
                    let is_trait_item = tcx
                        .opt_parent(*did)
                        .map(|p| matches!(tcx.def_kind(p), DefKind::Trait))
                        .unwrap_or(false);
                    if is_trait_item {
                        let has_params = gargs.iter().any(|a| {
                            use rustc_middle::ty::TypeVisitableExt;
                            a.has_param() || a.has_aliases() || a.has_infer()
                        });
                        if !has_params {
                            let env = ty::TypingEnv::post_analysis(tcx, owner.to_def_id());
                            if let Ok(Some(inst)) = ty::Instance::try_resolve(tcx, env, *did, gargs) {
                                let rid = inst.def_id();
                                if rid != *did {
                                    o.s("res", &self.path(rid));
                                }
                            }
                        }
                    }
                }
            }
            _ => {
                o.key("fp");
                self.operand(o.out, body, func);
                o.s("fty", &self.ty(fty));
            }
        }
        o.key("args");
        jarr(o.out, args.clone(), |out, a| self.operand(out, body, a));
        o.key("aty");
        jarr(o.out, args, |out, a| jstr(out, &self.operand_ty(body, a)));
    }

    fn body(&self, out: &mut String, did: LocalDefId, body: &Body<'tcx>, promoted: Option<u32>) {
        let tcx = self.tcx;
        let mut o = Obj::new(out);
        let def_id = did.to_def_id();
        let mut id = self.path(def_id);
        if let Some(p) = promoted {
            id = format!("{}::{{promoted#{}}}", id, p);
        }
        o.s("id", &id);
        o.s("dk", &format!("{:?}", tcx.def_kind(def_id)));
        let root = tcx.typeck_root_def_id(def_id);
        o.s("root", &self.path(root));
        if promoted.is_some() {
            o.b("promoted", true);
        }
        o.b("coroutine", body.coroutine.is_some());
        o.s("file", &self.file_of(body.span));
        {
            let sm = tcx.sess.source_map();
            let sp = body.span;
            let sp = if sp.from_expansion() { sp.source_callsite() } else { sp };
            o.n("ln", sm.lookup_char_pos(sp.lo()).line as i128);
            o.n("ln_end", sm.lookup_char_pos(sp.hi()).line as i128);
        }
        o.b("exp", body.span.from_expansion());
        // impl / trait context of the root item
        if let Some(parent) = tcx.opt_parent(root) {
            match tcx.def_kind(parent) {
                DefKind::Impl { .. } => {
                    let self_ty = tcx.type_of(parent).instantiate_identity().skip_norm_wip();
                    o.s("impl_self", &self.ty(self_ty));
                    if let Some(tr) = tcx.impl_opt_trait_ref(parent) {
                        let tr = tr.instantiate_identity().skip_norm_wip();
                        o.s("impl_trait", &self.path(tr.def_id));
                        o.s("impl_trait_x", &with_no_trimmed_paths!(format!("{}", tr)));
                    }
                }
                DefKind::Trait => o.s("in_trait", &self.path(parent)),
                _ => {}
            }
        }
        if matches!(tcx.def_kind(root), DefKind::Fn | DefKind::AssocFn) {
            o.s("vis", &format!("{:?}", tcx.visibility(root)));
        }
        if matches!(tcx.def_kind(def_id), DefKind::Fn | DefKind::AssocFn | DefKind::Closure) {
            o.b("tc", tcx.codegen_fn_attrs(def_id).flags.contains(rustc_middle::middle::codegen_fn_attrs::CodegenFnAttrFlags::TRACK_CALLER));
        }
        o.n("argc", body.arg_count as i128);
        o.key("locals");
        jarr(o.out, body.local_decls.iter(), |out, d| jstr(out, &self.ty(d.ty)));
        o.key("vars");
        jarr(o.out, body.var_debug_info.iter(), |out, v| {
            let mut vo = Obj::new(out);
            vo.s("n", &v.name.to_string());
            match &v.value {
                mir::VarDebugInfoContents::Place(p) => {
                    vo.key("pl");
                    self.place(vo.out, body, p);
                }
                mir::VarDebugInfoContents::Const(_) => vo.b("const", true),
            }
            vo.end();
        });
        o.key("blocks");
        jarr(o.out, body.basic_blocks.iter_enumerated(), |out, (bb, data)| {
            let mut bo = Obj::new(out);
            if data.is_cleanup {
                bo.b("cleanup", true);
            }
            bo.key("st");
            let stmts = data.statements.iter().filter(|s| {
                matches!(s.kind, StatementKind::Assign(..) | StatementKind::SetDiscriminant { .. })
            });
            jarr(bo.out, stmts, |out, st| {
                let mut so = Obj::new(out);
                self.span_obj(&mut so, st.source_info.span);
                match &st.kind {
                    StatementKind::Assign(b) => {
                        so.key("lhs");
                        self.place(so.out, body, &b.0);
                        if !b.0.projection.is_empty() {
                            so.s("lty", &self.ty(b.0.ty(body, self.tcx).ty));
                        }
                        so.key("rv");
                        self.rvalue(so.out, body, &b.1);
                    }
                    StatementKind::SetDiscriminant { place, variant_index } => {
                        so.key("setdiscr");
                        self.place(so.out, body, place);
                        so.n("var", variant_index.as_u32() as i128);
                    }
                    _ => {}
                }
                so.end();
            });
            bo.key("term");
            match &data.terminator {
                Some(t) => self.terminator(bo.out, body, did, bb, t),
                None => bo.out.push_str("null"),
            }
            bo.end();
        });
        o.end();
    }

    fn adts(&self, out: &mut String) {
        let tcx = self.tcx;
        let sm = tcx.sess.source_map();
        let items = tcx.hir_crate_items(());
        let defs: Vec<LocalDefId> = items
            .definitions()
            .filter(|d| matches!(tcx.def_kind(*d), DefKind::Struct | DefKind::Enum | DefKind::Union))
            .collect();
        jarr(out, defs.iter(), |out, did| {
            let did = did.to_def_id();
            let adt = tcx.adt_def(did);
            let mut o = Obj::new(out);
            o.s("id", &self.path(did));
            o.s("kind", if adt.is_enum() { "enum" } else if adt.is_union() { "union" } else { "struct" });
            o.s("vis", &format!("{:?}", tcx.visibility(did)));
            let span = tcx.def_span(did);
            o.s("file", &self.file_of(span));
            o.n("ln", sm.lookup_char_pos(span.lo()).line as i128);
            o.key("attrs");
            self.attrs(o.out, did);
            o.key("variants");
            jarr(o.out, adt.variants().iter(), |out, v| {
                let mut vo = Obj::new(out);
                vo.s("n", &v.name.to_string());
                vo.key("attrs");
                self.attrs(vo.out, v.def_id);
                vo.key("fields");
                jarr(vo.out, v.fields.iter(), |out, f| {
                    let mut fo = Obj::new(out);
                    fo.s("n", &f.name.to_string());
                    let fty = tcx.type_of(f.did).instantiate_identity().skip_norm_wip();
                    fo.s("ty", &self.ty(fty));
                    fo.s("vis", &format!("{:?}", f.vis));
                    fo.key("attrs");
                    self.attrs(fo.out, f.did);
                    fo.end();
                });
                vo.end();
            });
            o.end();
        });
    }

    fn attrs(&self, out: &mut String, did: DefId) {
        let tcx = self.tcx;
        let sm = tcx.sess.source_map();
        let mut v: Vec<String> = Vec::new();
        if let Some(local) = did.as_local() {
            let hir_id = tcx.local_def_id_to_hir_id(local);
            for a in tcx.hir_attrs(hir_id) {
                match a {
                    rustc_hir::Attribute::Unparsed(item) => {
                        let sp = item.span;
                        if let Ok(s) = sm.span_to_snippet(sp) {
                            v.push(s);
                        }
                    }
                    rustc_hir::Attribute::Parsed(kind) => {
                        let d = format!("{:?}", kind);
                        let name: String =
                            d.chars().take_while(|c| c.is_alphanumeric() || *c == '_').collect();
                        if name != "DocComment" {
                            v.push(format!("parsed:{}", name));
                        }
                    }
                }
            }
        }
        jarr(out, v.iter(), |out, s| jstr(out, s));
    }

    fn impls(&self, out: &mut String) {
        let tcx = self.tcx;
        let items = tcx.hir_crate_items(());
        let defs: Vec<LocalDefId> =
            items.definitions().filter(|d| matches!(tcx.def_kind(*d), DefKind::Impl { .. })).collect();
        jarr(out, defs.iter(), |out, did| {
            let did = did.to_def_id();
            let mut o = Obj::new(out);
            let self_ty = tcx.type_of(did).instantiate_identity().skip_norm_wip();
            o.s("self", &self.ty(self_ty));
            if let Some(tr) = tcx.impl_opt_trait_ref(did) {
                let tr = tr.instantiate_identity().skip_norm_wip();
                o.s("trait", &self.path(tr.def_id));
                o.s("trait_x", &with_no_trimmed_paths!(format!("{}", tr)));
            }
            let span = tcx.def_span(did);
            o.s("file", &self.file_of(span));
            o.b("derived", span.from_expansion());
            o.key("items");
            jarr(o.out, tcx.associated_item_def_ids(did).iter(), |out, i| jstr(out, &self.path(*i)));
            o.end();
        });
    }

    fn fns(&self, out: &mut String) {
        // signatures of all fn-like items (inputs/outputs as strings)
        let tcx = self.tcx;
        let items = tcx.hir_crate_items(());
        let defs: Vec<LocalDefId> = items
            .definitions()
            .filter(|d| matches!(tcx.def_kind(*d), DefKind::Fn | DefKind::AssocFn))
            .collect();
        jarr(out, defs.iter(), |out, did| {
            let did = did.to_def_id();
            let mut o = Obj::new(out);
            o.s("id", &self.path(did));
            let sig = tcx.fn_sig(did).instantiate_identity().skip_norm_wip().skip_binder();
            o.key("inputs");
            jarr(o.out, sig.inputs().iter(), |out, t| jstr(out, &self.ty(*t)));
            o.s("output", &self.ty(sig.output()));
            o.s("vis", &format!("{:?}", tcx.visibility(did)));
            o.b("async", tcx.asyncness(did).is_async());
            o.end();
        });
    }
}

struct Cb;

impl rustc_driver::Callbacks for Cb {
    fn after_expansion<'tcx>(
        &mut self,
        _c: &rustc_interface::interface::Compiler,
        tcx: TyCtxt<'tcx>,
    ) -> Compilation {
        let dir = match std::env::var("PVX_FACTS_DIR") {
            Ok(d) => d,
            Err(_) => return Compilation::Continue,
        };
        let crate_name = tcx.crate_name(rustc_hir::def_id::LOCAL_CRATE).to_string();
        if let Ok(only) = std::env::var("PVX_FACTS_ONLY") {
            if !only.split(',').any(|c| c == crate_name) {
                return Compilation::Continue;
            }
        }
        let crate_types: Vec<String> = tcx.crate_types().iter().map(|t| format!("{:?}", t)).collect();
        let is_test = tcx.sess.opts.test;
        let stable = tcx.stable_crate_id(rustc_hir::def_id::LOCAL_CRATE);
        let cx = Cx { tcx };
        let mut out = String::with_capacity(1 << 24);
        with_no_trimmed_paths!(with_no_visible_paths!(with_resolve_crate_name!({
            let mut o = Obj::new(&mut out);
            o.s("crate", &crate_name);
            o.s("crate_type", &crate_types.join(","));
            o.b("test", is_test);
            o.key("adts");
            cx.adts(o.out);
            o.key("impls");
            cx.impls(o.out);
            o.key("fns");
            cx.fns(o.out);
            o.key("bodies");
            let owners: Vec<LocalDefId> = tcx
                .hir_body_owners()
                .filter(|d| {
                    matches!(
                        tcx.def_kind(*d),
                        DefKind::Fn
                            | DefKind::AssocFn
                            | DefKind::Closure
                            | DefKind::Const { .. }
                            | DefKind::AssocConst { .. }
                            | DefKind::Static { .. }
                    )
                })
                .collect();
            o.out.push('[');
            let mut first = true;
            for did in owners {
                let (steal, promoted) = tcx.mir_promoted(did);
                let body = steal.borrow();
                if !first {
                    o.out.push(',');
                }
                first = false;
                cx.body(o.out, did, &body, None);
                let proms = promoted.borrow();
                for (i, pb) in proms.iter_enumerated() {
                    o.out.push(',');
                    cx.body(o.out, did, pb, Some(i.as_u32()));
                }
            }
            o.out.push(']');
            o.end();
        })));
        let fname = format!(
            "{}/{}-{}{}-{:x}.json",
            dir,
            crate_name,
            crate_types.join("_"),
            if is_test { "-test" } else { "" },
            stable.as_u64()
        );
        let tmp = format!("{}.tmp{}", fname, std::process::id());
        std::fs::write(&tmp, out).expect("pvx-facts: cannot write fact file");
        std::fs::rename(&tmp, &fname).expect("pvx-facts: cannot rename fact file");
        Compilation::Continue
    }
}

fn main() {
    let mut args: Vec<String> = std::env::args().collect();
    // Invoked as `pvx-facts /path/to/rustc <args...>` by cargo (RUSTC_WORKSPACE_WRAPPER).
    if args.len() > 1 && (args[1].ends_with("rustc") || args[1].contains("/rustc")) {
        args.remove(1);
    }
    rustc_driver::run_compiler(&args, &mut Cb);
}
