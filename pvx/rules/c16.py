"""C16 — Graceful shutdown drains in-flight requests and stops accepting new ones.

Decided clauses (ordering / pairing, on every CFG path): acceptor shutdown sequencing, worker drain sequencing, every served
connection is tracked by the graceful-shutdown coordinator, shutdown messages have priority, the handle awaits completion.
Liveness under all schedules is not decided.
"""
from ..facts import callee, op_place, strip_generics
from ..flow import Defs, backward_slice, slice_calls, rv_operands
from ..tables import guard_context

LEVEL = 'other'
TECHNIQUE = 'static analysis: ordering / must-pass-through on the async bodies of the acceptor and the workers (pre-transform MIR with real Yield terminators, private sync/async helpers inlined), provenance of timeouts and joined futures, who-may-call socket options'
CLAUSE = ('the acceptor drops the listener set before it tells any worker to shut down and always sends the completion; in forced mode '
          'nothing is awaited before that; in graceful mode the configured timeout, unmodified, bounds a loop that joins all workers; the '
          'worker closes its inbox, drains it, waits for tracked connections under the configured timeout, then reports completion; every '
          'served connection is registered with the coordinator; shutdown inboxes are polled first; the handle awaits completion iff the '
          'command was delivered.')
TRUSTED = ['tokio channels / JoinSet / timeout and hyper_util::GracefulShutdown behave as documented',
           'dropping the JoinSet of accept tasks closes the listeners']

CR = 'pavex'
SH = 'pavex::server::server_handle::'
WK = 'pavex::server::worker::'
MODE = 'pavex::server::shutdown_mode::ShutdownMode'
TIMEOUT = 'tokio::time::timeout::timeout'
SEND1 = 'tokio::sync::oneshot::Sender::send'


KEEP = {WK + 'Worker::handle_connection', SH + 'WorkerHandle::shutdown', WK + 'WorkerHandle::shutdown', WK + 'Worker::poll_inboxes',
        SH + 'Acceptor::poll_inboxes'}


_serve = {}


def serve_fn(ctx):
    """the function that serves one accepted connection: the (only) function of pavex::server that registers a connection with the
    GracefulShutdown coordinator (`watch`) — `Worker::handle_connection` today, whatever it is called or wherever it lives tomorrow"""
    k = id(ctx.fb)
    if k not in _serve:
        c = sorted({b.nroot for b in ctx.fb.bodies(CR) if not b.is_promoted and b.nid.startswith('pavex::server::')
                    and any(callee(t) == 'hyper_util::server::graceful::GracefulShutdown::watch' for _, t in b.calls())})
        _serve[k] = c[0] if len(c) == 1 else WK + 'Worker::handle_connection'
    return _serve[k]


def coroutine_of(ctx, rule, item):
    """the async body of `item`, with the private (sync or async) helpers it was split into inlined (P13); the functions the rules
    anchor on are kept as calls"""
    from ..inline import inlined
    bs = [b for b in ctx.fb.bodies_of_item(CR, item) if b.is_coroutine and b.nid == item + '::{closure#0}']
    b = ctx.need(rule, 'async body of ' + item, bs[0] if len(bs) == 1 else None)
    return inlined(ctx.fb, b, keep=KEEP | {serve_fn(ctx)}) if b is not None else None


def blocks_calling(body, name, pred=None):
    return [bb for bb, t in body.calls() if callee(t) == name and (pred is None or pred(t))]


def yields(body):
    return [bb for bb in body.live_blocks() if body.term(bb) and body.term(bb)['k'] == 'yield']


def timeout_provenance(body, t):
    """(reads Graceful.timeout, arithmetic/calls on the way)"""
    defs = Defs(body)
    pl = op_place(t['args'][0])
    sl, _ = backward_slice(body, pl['l'], defs) if pl else ([], set())
    reads = set()
    for _, _, node in sl:
        if 'rv' in node:
            ops, pls = rv_operands(node['rv'])
            for q in pls + [op_place(o) for o in ops if op_place(o)]:
                pp = q.get('p', [])
                for i, el in enumerate(pp):
                    if el.startswith('d:') and i + 1 < len(pp):
                        reads.add(el[2:] + '.' + pp[i + 1][2:])
                    if el.startswith('f:') and el == 'f:timeout':
                        reads.add('timeout')
    AWAIT = {'core::future::future::Future::poll', 'core::future::get_context', 'core::future::into_future::IntoFuture::into_future',
             'core::future::poll_fn::poll_fn', 'core::pin::Pin::new_unchecked'}   # receiving the command that carries the mode
    calls = sorted({c for c, _, _ in slice_calls(sl) if c and not c.startswith('core::clone') and c not in AWAIT})
    arith = [n['rv']['bop'] for _, _, n in sl if 'rv' in n and n['rv']['k'] == 'bin']
    return reads, calls, arith


def r1_acceptor(ctx):
    ctx.rule('C16.R1', 'P2/P1 Acceptor::shutdown: the JoinSet of accept tasks is dropped in a block that dominates every '
             'WorkerHandle::shutdown call and the completion send; every path to return sends the completion; every Yield is under the '
             'Graceful arm (Forced awaits nothing); the only await is tokio::time::timeout(<Graceful.timeout unmodified>, <loop joining all '
             'workers>).')
    b = coroutine_of(ctx, 'C16.R1', SH + 'Acceptor::shutdown')
    if b is None:
        return
    # drop of the listener set: explicit mem::drop or a Drop terminator on a local of that type
    def is_listener_set(ty):
        return 'JoinSet<(' in ty and 'IncomingStream' in ty
    drops = [bb for bb, t in b.calls() if callee(t) == 'core::mem::drop' and is_listener_set(t['aty'][0])]
    for bb in b.live_blocks():
        t = b.term(bb)
        if t and t['k'] == 'drop' and not t['pl'].get('p') and is_listener_set(b.locals[t['pl']['l']]):
            drops.append(bb)
    from ..inline import closures_of
    from .compiler_common import slice_calls_with_closures
    wshut = blocks_calling(b, WK + 'WorkerHandle::shutdown')
    # .. or told from a closure handed to an iterator adaptor (`handles.into_iter().map(|h| h.shutdown(..)).collect()`): the telling
    # happens where the iterator is driven
    told_in = [x.nid for x in closures_of(ctx.fb, b) if not x.is_coroutine and blocks_calling(x, WK + 'WorkerHandle::shutdown')]
    if told_in:
        defs0 = Defs(b)
        for bb, t in b.calls():
            c = callee(t) or ''
            if c.startswith('core::iter::traits::iterator::Iterator::') and c.split('::')[-1] in ('collect', 'for_each', 'fold', 'count', 'last', 'try_for_each'):
                sl0, _ = backward_slice(b, op_place(t['args'][0])['l'], defs0)
                if any('rv' in n and n['rv']['k'] == 'agg' and n['rv'].get('ak') == 'closure' and strip_generics(n['rv'].get('def', '')) in told_in for _, _, n in sl0):
                    wshut.append(bb)
    sends = blocks_calling(b, SEND1)
    ctx.need('C16.R1', 'WorkerHandle::shutdown call in Acceptor::shutdown', wshut)
    ctx.need('C16.R1', 'completion send in Acceptor::shutdown', sends)
    ok = bool(drops) and all(any(b.dominates(d, x) for d in drops) for x in wshut + sends)
    ctx.ob('C16.R1', 'listeners-dropped-first', ok, b.loc(drops[0]) if drops else b.loc(),
           'the accept JoinSet is dropped (blocks %s) before any worker is told to shut down (blocks %s) and before completion is signalled' % (drops, wshut))
    rets = set(b.return_blocks())
    reach = b.reachable_from_entry(avoid=sends)
    ctx.ob('C16.R1', 'completion-always-sent', bool(sends) and not (reach & rets), b.loc(sends[0]) if sends else b.loc(),
           'every path to the end of Acceptor::shutdown passes through completion_notifier.send(())')
    ys = yields(b)
    bad = [y for y in ys if guard_context(b, y).get(MODE) != {'Graceful'}]
    ctx.ob('C16.R1', 'forced-awaits-nothing', not bad, b.loc(bad[0]) if bad else b.loc(),
           '%d suspension point(s); all under the Graceful arm: %s' % (len(ys), not bad))
    touts = [(bb, t) for bb, t in b.calls() if callee(t) == TIMEOUT]
    if ctx.need('C16.R1', 'tokio::time::timeout in Acceptor::shutdown', touts):
        bb, t = touts[0]
        reads, calls, arith = timeout_provenance(b, t)
        ctx.ob('C16.R1', 'timeout-unmodified|acceptor', 'Graceful.timeout' in reads and not arith and not calls, b.loc(bb, t),
               'timeout(..) receives %s; calls on the way: %s; arithmetic: %s' % (sorted(reads), calls, arith))
        ctx.ob('C16.R1', 'one-await', len(touts) == 1 and guard_context(b, bb).get(MODE) == {'Graceful'}, b.loc(bb, t),
               'exactly one timeout(..) and it is under the Graceful arm')
    # the joined loop
    inner = [x for x in closures_of(ctx.fb, b) if x.is_coroutine]
    found = False
    for ib in inner:
        jn = blocks_calling(ib, 'tokio::task::join_set::JoinSet::join_next')
        if jn:
            found = True
            in_loop = jn[0] in ib.reachable(ib.succ(jn[0]))
            ctx.ob('C16.R1', 'joins-all-workers', in_loop, ib.loc(jn[0]),
                   'join_next() is awaited in a loop (until the set is empty): %s' % in_loop)
    ctx.need('C16.R1', 'async block joining the workers', found)
    # spawn_local of the shutdown futures so that they are all polled: the future given to spawn_local derives from WorkerHandle::shutdown
    sp = [(bb, t) for bb, t in b.calls() if callee(t) == 'tokio::task::join_set::JoinSet::spawn_local']
    if ctx.need('C16.R1', 'spawn_local of worker shutdown futures', sp):
        defs = Defs(b)
        pl = op_place(sp[0][1]['args'][1])
        sl, _ = backward_slice(b, pl['l'], defs)
        ctx.ob('C16.R1', 'joined-futures-are-worker-shutdowns', (WK + 'WorkerHandle::shutdown') in slice_calls_with_closures(b, sl),
               b.loc(sp[0][0]), 'the futures joined under the timeout are the WorkerHandle::shutdown futures')


def r2_worker(ctx):
    ctx.rule('C16.R2', 'P2 Worker::run, graceful arm: connection_inbox.close() dominates the drain loop (recv in a cycle that calls '
             'handle_connection), every path from close() to the completion send passes through timeout(<Graceful.timeout unmodified>, '
             'shutdown_coordinator.shutdown()), and the send precedes leaving the loop; forced arm: no suspension between the mode switch '
             'and the send.')
    b = coroutine_of(ctx, 'C16.R2', WK + 'Worker::run')
    if b is None:
        return
    close = blocks_calling(b, 'tokio::sync::mpsc::bounded::Receiver::close')
    recv = blocks_calling(b, 'tokio::sync::mpsc::bounded::Receiver::recv')
    touts = [(bb, t) for bb, t in b.calls() if callee(t) in (TIMEOUT, TIMEOUT.replace('::timeout::timeout', '::timeout::timeout_at'))]
    sends = blocks_calling(b, SEND1)
    gs = blocks_calling(b, 'hyper_util::server::graceful::GracefulShutdown::shutdown')
    hc = blocks_calling(b, serve_fn(ctx))
    for what, v in (('close()', close), ('recv()', recv), ('timeout()', touts), ('completion send', sends), ('GracefulShutdown::shutdown', gs)):
        ctx.need('C16.R2', what + ' in Worker::run', v)
    if not (close and recv and touts and sends and gs):
        return
    tb, tt = touts[0]
    ctx.ob('C16.R2', 'close-before-drain', b.dominates(close[0], recv[0]) and guard_context(b, close[0]).get(MODE) == {'Graceful'}, b.loc(close[0]),
           'connection_inbox.close() (Graceful arm) dominates the drain loop')
    in_loop = recv[0] in b.reachable(b.succ(recv[0]))
    drains = any(h in b.reachable(b.succ(recv[0]), avoid=[tb]) and recv[0] in b.reachable(b.succ(h), avoid=[tb]) for h in hc)
    ctx.ob('C16.R2', 'drain-loop', in_loop and drains, b.loc(recv[0]),
           'recv() is awaited in a loop (%s) whose body hands the connection to handle_connection and comes back (%s)' % (in_loop, drains))
    ctx.ob('C16.R2', 'drain-before-wait', b.dominates(recv[0], tb), b.loc(tb, tt), 'the drain loop dominates the wait on the coordinator')
    reach = b.reachable(b.succ(close[0]), avoid=[tb])
    ctx.ob('C16.R2', 'wait-before-completion', not (reach & set(sends)), b.loc(sends[0]),
           'every path from close() to completion_notifier.send(()) passes through timeout(.., coordinator.shutdown())')
    reads, calls, arith = timeout_provenance(b, tt)
    if callee(tt) == TIMEOUT:
        ctx.ob('C16.R2', 'timeout-unmodified|worker', 'Graceful.timeout' in reads and not arith and not calls, b.loc(tb, tt),
               'timeout(..) receives %s; calls on the way: %s; arithmetic: %s' % (sorted(reads), calls, arith))
    else:
        # timeout_at(deadline, ..): the deadline is now + the unmodified timeout, computed without a panicking addition (a caller may pass
        # Duration::MAX: `Instant + Duration` panics on overflow, tokio::time::timeout saturates)
        safe = {'tokio::time::instant::Instant::now', 'std::time::Instant::now', 'tokio::time::instant::Instant::checked_add', 'std::time::Instant::checked_add',
                'core::option::Option::unwrap_or', 'core::option::Option::unwrap_or_else', 'tokio::time::instant::Instant::far_future'}
        other = [c for c in calls if c not in safe]
        ctx.ob('C16.R2', 'timeout-unmodified|worker', 'Graceful.timeout' in reads and not arith and not other, b.loc(tb, tt),
               'timeout_at(..) receives a deadline built from %s; calls on the way: %s (an `Instant + Duration` addition panics on overflow); arithmetic: %s' % (sorted(reads), calls, arith))
    defs = Defs(b)
    pl = op_place(tt['args'][1])
    sl, _ = backward_slice(b, pl['l'], defs)
    ctx.ob('C16.R2', 'waits-on-coordinator', 'hyper_util::server::graceful::GracefulShutdown::shutdown' in {c for c, _, _ in slice_calls(sl)},
           b.loc(tb, tt), 'the future under the timeout is GracefulShutdown::shutdown()')
    # forced arm: from the Forced edge to the send, no yield
    from ..tables import enum_switches, switch_edges
    sw = [(sb, st) for sb, st in enum_switches(b, MODE)]
    if ctx.need('C16.R2', 'match on ShutdownMode in Worker::run', sw):
        sb, st = sw[0]
        ft = switch_edges(st).get('Forced')
        region = b.reachable(ft, avoid=sends) if ft is not None else set()
        ys = [y for y in yields(b) if y in region]
        ctx.ob('C16.R2', 'forced-awaits-nothing', ft is not None and not ys, b.loc(sb),
               'no suspension point between the Forced arm and the completion send')
    # send precedes the exit of the event loop: after the send no poll_fn (next iteration) is reachable
    pf = blocks_calling(b, 'core::future::poll_fn::poll_fn')
    after = b.reachable(b.succ(sends[0]))
    ctx.ob('C16.R2', 'exit-after-completion', not (set(pf) & after), b.loc(sends[0]), 'after the completion send the event loop is left (no further poll)')


def r3_tracked(ctx):
    ctx.rule('C16.R3', 'P7: in Worker::handle_connection the future handed to spawn_local derives from GracefulShutdown::watch(serve_connection(..)) '
             '— every served connection is tracked by the coordinator that graceful shutdown waits on.')
    b = ctx.need('C16.R3', 'Worker::handle_connection', ctx.fb.body(CR, serve_fn(ctx)))
    if b is None:
        return
    sp = [(bb, t) for bb, t in b.calls() if callee(t) == 'tokio::task::local::spawn_local']
    if not ctx.need('C16.R3', 'spawn_local in handle_connection', sp):
        return
    defs = Defs(b)
    for bb, t in sp:
        pl = op_place(t['args'][0])
        sl, _ = backward_slice(b, pl['l'], defs)
        calls = {c for c, _, _ in slice_calls(sl)}
        ok = 'hyper_util::server::graceful::GracefulShutdown::watch' in calls and 'hyper_util::server::conn::auto::Builder::serve_connection' in calls
        ctx.ob('C16.R3', 'served-connection-is-watched', ok, b.loc(bb, t), 'spawned future derives from watch(serve_connection(..)): %s' % ok)
    # serve_connection is not spawned/awaited anywhere else in the server module
    n = 0
    for x in ctx.fb.bodies(CR):
        if x.is_promoted:
            continue
        for bb, t in x.calls():
            if callee(t) == 'hyper_util::server::conn::auto::Builder::serve_connection':
                n += 1
                ctx.ob('C16.R3', 'serve_connection-site|%s' % x.nroot.split('::')[-1], x.nroot == serve_fn(ctx), x.loc(bb, t),
                       'serve_connection called in %s' % x.nroot)
    ctx.floor('C16.R3', 'serve_connection call sites', n, 1)


def r4_priority(ctx):
    ctx.rule('C16.R4', 'P2: both poll_inboxes poll the shutdown/command inbox first (its poll dominates the poll of the connection source); '
             'WorkerHandle::shutdown enqueues the command synchronously (the send is in the fn body, not in the returned async block).')
    for item, first, second in ((SH + 'Acceptor::poll_inboxes', ('tokio::sync::mpsc::bounded::Receiver::poll_recv', 'ServerCommand'),
                                 ('tokio::task::join_set::JoinSet::poll_join_next', 'IncomingStream')),
                                (WK + 'Worker::poll_inboxes', ('tokio::sync::mpsc::unbounded::UnboundedReceiver::poll_recv', 'ShutdownWorkerCommand'),
                                 ('tokio::sync::mpsc::bounded::Receiver::poll_recv', 'ConnectionMessage'))):
        b = ctx.need('C16.R4', item, ctx.fb.body(CR, item))
        if b is None:
            continue
        f = [bb for bb, t in b.calls() if callee(t) == first[0] and first[1] in t['aty'][0]]
        s = [bb for bb, t in b.calls() if callee(t) == second[0] and second[1] in t['aty'][0]]
        ok = bool(f) and bool(s) and b.dominates(f[0], s[0]) and f[0] not in b.reachable(b.succ(s[0]))
        ctx.ob('C16.R4', 'shutdown-first|%s' % item.split('::')[-2], ok, b.loc(f[0]) if f else b.loc(),
               'the %s inbox is polled before the %s source' % (first[1], second[1]))
    outer = ctx.need('C16.R4', 'WorkerHandle::shutdown', ctx.fb.body(CR, WK + 'WorkerHandle::shutdown'))
    if outer is not None:
        snd = blocks_calling(outer, 'tokio::sync::mpsc::unbounded::UnboundedSender::send')
        inner = [x for x in ctx.fb.bodies_of_item(CR, WK + 'WorkerHandle::shutdown') if x.is_coroutine]
        inner_snd = [1 for x in inner for bb, t in x.calls() if 'Sender::send' in (callee(t) or '') and 'ShutdownWorkerCommand' in t['aty'][0]]
        ctx.ob('C16.R4', 'shutdown-enqueued-synchronously', bool(snd) and not inner_snd and not outer.is_coroutine, outer.loc(snd[0]) if snd else outer.loc(),
               'the shutdown command is sent in the synchronous part of WorkerHandle::shutdown')


def r5_handle(ctx):
    ctx.rule('C16.R5', 'P1: ServerHandle::shutdown awaits the completion receiver exactly on the branch where sending the command succeeded; '
             'awaiting the handle resolves on Sender::closed().')
    b = coroutine_of(ctx, 'C16.R5', SH + 'ServerHandle::shutdown')
    if b is not None:
        snd = blocks_calling(b, 'tokio::sync::mpsc::bounded::Sender::send')
        # whichever way the outcome of the send is tested: `is_ok()`, `is_err()` + early return, a `match` / `if let` on the Result
        tests = [(bb, t, (callee(t) or '').split('::')[-1]) for bb, t in b.calls() if callee(t) in ('core::result::Result::is_ok', 'core::result::Result::is_err')]
        aw = [bb for bb, t in b.calls() if callee(t) == 'core::future::into_future::IntoFuture::into_future' and 'oneshot::Receiver' in t['aty'][0]]
        ok = False
        decisions = []     # (delivered target, [not delivered targets])
        for _, t, m in tests:
            d = t['dest']['l']
            for sb in b.live_blocks():
                w = b.term(sb)
                if w and w['k'] == 'switch' and 'enum' not in w and op_place(w['d']) and op_place(w['d'])['l'] == d:
                    true_t, false_t = w['else'], [tg for v, tg in w['ts'] if v == '0']
                    decisions.append((true_t, false_t) if m == 'is_ok' else (false_t[0], [true_t]) if false_t else None)
        if snd and not tests:
            from ..tables import switch_edges
            for sb in b.live_blocks():
                w = b.term(sb)
                if w and w['k'] == 'switch' and 'enum' in w and strip_generics(w['enum']) == 'core::result::Result' and 'SendError' in (b.locals[w['src']['l']] or ''):
                    e = switch_edges(w)
                    if 'Ok' in e or 'Err' in e:
                        okt = e.get('Ok', w.get('else'))
                        errt = e.get('Err', w.get('else'))
                        decisions.append((okt, [errt]))
        for dec in decisions:
            if dec is None or not aw:
                continue
            true_t, false_t = dec
            ok = aw[0] in b.reachable(true_t, avoid=false_t) and not any(aw[0] in b.reachable(f, avoid=[true_t]) for f in false_t)
        ctx.ob('C16.R5', 'awaits-completion-iff-delivered', ok, b.loc(aw[0]) if aw else b.loc(),
               'the oneshot completion is awaited on (and only on) the is_ok() branch of sending the Shutdown command')
    inner = [x for x in ctx.fb.bodies(CR) if x.is_coroutine and x.nroot.endswith('IntoFuture>::into_future') and 'ServerHandle' in x.nroot]
    if ctx.need('C16.R5', 'IntoFuture for ServerHandle', inner):
        cl = blocks_calling(inner[0], 'tokio::sync::mpsc::bounded::Sender::closed')
        ctx.ob('C16.R5', 'handle-resolves-on-closed', bool(cl), inner[0].loc(), 'awaiting the handle awaits command_outbox.closed()')


# socket options that change what happens to data that is still unsent when the server closes a connection
LOSSY_SOCKET_OPTIONS = {'set_linger': 'SO_LINGER: with a zero timeout close() discards unsent data and resets the connection',
                        'set_tcp_user_timeout': 'TCP_USER_TIMEOUT: unacknowledged data is dropped after the timeout',
                        'shutdown': 'shutdown() of the listening/accepted socket by the server before the response is flushed'}


def r6_socket_options(ctx):
    ctx.rule('C16.R6', 'P3 who-may-call (expected count 0, with a positive control): the runtime configures its listening sockets only with options that '
             'do not affect how a close delivers pending data; no call to set_linger / set_tcp_user_timeout on a socket2::Socket, std or tokio '
             'TcpListener / TcpStream anywhere in pavex::server (accepted sockets inherit the listener\'s SO_LINGER: a zero linger turns the close '
             'at the end of a graceful shutdown into a reset that truncates the response in flight).')
    seen = []
    for b in ctx.fb.bodies(CR):
        if b.is_promoted or not b.nid.startswith('pavex::server') and not b.nid.startswith('<pavex::server'):
            continue
        for bb, t in b.calls():
            c = callee(t) or ''
            if not any(k in c for k in ('socket2::', 'TcpListener', 'TcpStream', 'TcpSocket')):
                continue
            m = c.split('::')[-1]
            seen.append(m)
            if m in LOSSY_SOCKET_OPTIONS:
                ctx.ob('C16.R6', 'socket-option|%s|%s' % (b.nid.replace('pavex::server::', ''), m), False, b.loc(bb, t),
                       '%s calls %s — %s' % (b.nid.split('::')[-2] if b.nid.endswith('}') else b.nid.split('::')[-1], c, LOSSY_SOCKET_OPTIONS[m]))
    ctx.floor('C16.R6', 'socket configuration calls seen in pavex::server (positive control: set_reuse_address, set_nonblocking, bind, listen, accept)', len(seen), 8)
    ctx.ob('C16.R6', 'no-lossy-socket-option', not any(m in LOSSY_SOCKET_OPTIONS for m in seen), '',
           'socket calls in pavex::server: %s' % sorted(set(seen)))


def r7_queued_started(ctx):
    ctx.rule('C16.R7', 'P2 ordering (necessary condition for "requests queued at a worker but not yet started are served"): hyper\'s auto '
             'connection, when told to shut down before its first poll, closes the socket without reading the request that is already in it '
             '(graceful_shutdown in the ReadVersion state); the connections taken from the inbox by the drain loop are only spawned, and a '
             'spawn_local task is not polled before the spawning task suspends — so between the exit of the drain loop and the call that '
             'signals the coordinator (GracefulShutdown::shutdown, whose first poll sends the signal) the worker must suspend at least once '
             'on something other than the (closed, empty) inbox.')
    b = coroutine_of(ctx, 'C16.R7', WK + 'Worker::run')
    if b is None:
        return
    recv = blocks_calling(b, 'tokio::sync::mpsc::bounded::Receiver::recv')
    gs = blocks_calling(b, 'hyper_util::server::graceful::GracefulShutdown::shutdown')
    hc = blocks_calling(b, serve_fn(ctx))
    if not (ctx.need('C16.R7', 'recv() in Worker::run', recv) and ctx.need('C16.R7', 'GracefulShutdown::shutdown in Worker::run', gs)):
        return
    drained = [h for h in hc if h in b.reachable(b.succ(recv[0]), avoid=gs) and recv[0] in b.reachable(b.succ(h), avoid=gs)]
    if not ctx.need('C16.R7', 'handle_connection inside the drain loop', drained):
        return
    ys = set(yields(b))
    awaits = []
    for bb, t in b.calls():
        if callee(t) != 'core::future::into_future::IntoFuture::into_future':
            continue
        if not (b.dominates(recv[0], bb) and b.dominates(bb, gs[0])):
            continue
        after = b.reachable(b.succ(bb), avoid=gs)
        if recv[0] in after:
            continue                              # still inside the drain loop (the inbox await itself)
        if after & ys:
            pl = op_place(t['args'][0])
            awaits.append((bb, b.locals[pl['l']] if pl else '?'))
    ctx.ob('C16.R7', 'drained-connections-polled-before-signal', bool(awaits), b.loc(gs[0]),
           'suspension points between the exit of the drain loop and GracefulShutdown::shutdown(): %s'
           % ([ty for _, ty in awaits] or 'none — the connections spawned by the drain loop get their first poll after the signal and are closed unread'))


def r8_queue_fits_one_tick(ctx):
    ctx.rule('C16.R8', 'P7/P9 constant provenance: the graceful arm gives the drained connections ONE suspension (C16.R7) before the coordinator is '
             'signalled. A tokio LocalSet polls at most 61 spawned tasks per tick, so one suspension reaches every drained connection only while a '
             'worker\'s inbox cannot hold more than that: every capacity handed to Worker::new is a constant, and it is <= 61 — or the worker '
             'suspends once per drained connection (a yield inside the drain loop).')
    TICK = 61
    from ..flow import rv_operands
    server = [x for x in ctx.fb.bodies(CR) if not x.is_promoted and x.nid.startswith('pavex::server::')]

    def const_item(path):
        for x in ctx.fb.bodies(CR):
            if x.nid == strip_generics(path):
                return [int(o['int']) for _, _, st in x.all_assigns() for o in rv_operands(st['rv'])[0] if 'int' in o]
        return []

    def values_of(b, op, depth=0):
        """the constants an operand can carry: literals, crate constants, fields (the constants stored into fields of that name), parameters
        (the values the callers inside pavex::server pass); None = computed at run time"""
        if 'int' in op:
            return [int(op['int'])]
        if 'uneval' in op and 'promoted' not in op:
            return const_item(op['uneval']) or [None]
        pl = op_place(op)
        if pl is None or depth > 3:
            return [None]
        defs = Defs(b)
        sl, locs = backward_slice(b, pl['l'], defs, through_calls=False)
        vals, fields = [], {e[2:] for e in pl.get('p', []) if e.startswith('f:') and not e[2:].isdigit()}
        for _, _, nd in sl:
            rv = nd.get('rv')
            if not rv:
                continue
            if rv['k'] == 'use' and 'int' in rv['op']:
                vals.append(int(rv['op']['int']))
            elif rv['k'] == 'use' and 'uneval' in rv['op'] and 'promoted' not in rv['op']:
                vals += const_item(rv['op']['uneval']) or [None]
            elif rv['k'] not in ('use', 'ref', 'cast'):
                vals.append(None)
            ops_, pls_ = rv_operands(rv)
            for q in pls_ + [op_place(o) for o in ops_ if op_place(o)]:
                fields |= {e[2:] for e in q.get('p', []) if e.startswith('f:') and not e[2:].isdigit()}
        if vals:
            return vals
        if fields:
            for x in server:
                for xb, j, st in x.all_assigns():
                    rv = st['rv']
                    if rv['k'] == 'agg' and rv.get('ak') == 'adt':
                        for fname, o in zip(rv.get('fields', []), rv['ops']):
                            if fname in fields:
                                vals += values_of(x, o, depth + 1)
            if vals:
                return vals
        params = [l for l in locs | {pl['l']} if 1 <= l <= b.raw['argc']]
        if params and b.nid == b.nroot:
            for x in server:
                for xb, t2 in x.calls():
                    if callee(t2) == b.nid and len(t2['args']) >= max(params):
                        for k in params:
                            vals += values_of(x, t2['args'][k - 1], depth + 1)
        return vals or [None]

    caps = []
    for b in server:
        for bb, t in b.calls():
            if callee(t) != WK + 'Worker::new' or len(t['args']) < 2:
                continue
            caps.append((b, bb, t, values_of(b, t['args'][1])))
    if not ctx.need('C16.R8', 'calls of Worker::new in pavex::server', caps):
        return
    # a drain loop that suspends per connection does not depend on the bound
    run = coroutine_of(ctx, 'C16.R8', WK + 'Worker::run')
    per_conn = False
    if run is not None:
        recv = blocks_calling(run, 'tokio::sync::mpsc::bounded::Receiver::recv')
        gs = blocks_calling(run, 'hyper_util::server::graceful::GracefulShutdown::shutdown')
        hc = [h for h in blocks_calling(run, serve_fn(ctx)) if recv and gs and h in run.reachable(run.succ(recv[0]), avoid=gs) and recv[0] in run.reachable(run.succ(h), avoid=gs)]
        for h in hc:
            for bb, t in run.calls():
                if callee(t) == 'core::future::into_future::IntoFuture::into_future' and bb in run.reachable(run.succ(h), avoid=recv + gs) \
                        and 'Recv' not in (t['aty'][0] if t['aty'] else ''):
                    per_conn = True
    for b, bb, t, vals in caps:
        ok = per_conn or (bool(vals) and all(v is not None and v <= TICK for v in vals))
        ctx.ob('C16.R8', 'inbox-capacity|%s' % b.nroot.replace('pavex::server::', ''), ok, b.loc(bb, t),
               'inbox capacity handed to Worker::new: %s (limit for a single suspension: %d; per-connection suspension in the drain loop: %s)'
               % (vals, TICK, per_conn))


def r9_the_socket_served_is_the_socket_accepted(ctx):
    ctx.rule('C16.R9', 'P7 provenance (second necessary condition for "requests queued at a worker are served", next to C16.R7): the stream handed to hyper '
             '(`serve_connection`) in the serve function is the accepted `TcpStream` of the connection message, wrapped by the I/O adaptor and otherwise only '
             'moved. A socket that is re-registered on the way (`into_std` / `from_std`, a new `TcpSocket`) has lost its readiness: its first read is '
             'Pending, so the one suspension after the drain loop no longer lets the connection read the request that is already waiting, and the '
             'shutdown signal closes it unanswered.')
    item = serve_fn(ctx)
    bodies = [b for b in ctx.fb.bodies_of_item(CR, item) if not b.is_promoted]
    if not ctx.need('C16.R9', 'bodies of the serve function', bodies):
        return
    ALLOWED = {'new', 'into', 'from', 'into_owned', 'deref', 'deref_mut', 'as_mut', 'as_ref', 'pin', 'new_unchecked'}
    n = 0
    for b in bodies:
        defs = Defs(b)
        for bb, t in b.calls():
            c = callee(t) or ''
            if not c.endswith('::serve_connection') and not c.endswith('::serve_connection_with_upgrades'):
                continue
            n += 1
            pl = op_place(t['args'][1]) if len(t['args']) > 1 else None
            cs = []
            if pl is not None:
                sl, _ = backward_slice(b, pl['l'], defs)
                cs = sorted({(x or '?').split('::')[-1].split('<')[0] for x, _, _ in slice_calls(sl)})
            bad = [x for x in cs if x not in ALLOWED]
            ctx.ob('C16.R9', 'stream-only-moved|%s' % item.split('::')[-1], not bad, b.loc(bb, t),
                   'the I/O object served derives from the connection message through %s%s' % (cs or 'plain moves', '' if not bad else ' — not moves: %s' % bad))
    ctx.floor('C16.R9', 'serve_connection call sites', n, 1)


def check(ctx):
    r9_the_socket_served_is_the_socket_accepted(ctx)
    r1_acceptor(ctx)
    r2_worker(ctx)
    r3_tracked(ctx)
    r4_priority(ctx)
    r5_handle(ctx)
    r6_socket_options(ctx)
    r7_queued_started(ctx)
    r8_queue_fits_one_tick(ctx)


CLAUSE += ' Also: the stream served is the accepted stream, wrapped and otherwise only moved.'
