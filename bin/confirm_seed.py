#!/usr/bin/env python3
"""confirm_seed.py <seed-dir> [--crates a,b]: in the scratch worktree /tmp/wt-me (at /repo HEAD), confirm that
 (1) demo passes without the patch, (2) demo fails with the patch, (3) the touched crates' existing tests pass with the patch,
 (4) the workspace still type-checks. Writes <seed-dir>/confirm.json. Never touches /repo's working tree."""
import json, os, subprocess, sys, re
seed = os.path.abspath(sys.argv[1])
WT = os.environ.get('PVX_WT', '/tmp/wt-me')
env = dict(os.environ, CARGO_TARGET_DIR=os.environ.get('PVX_WT', '/tmp/wt-me') + '-target', CARGO_NET_OFFLINE='true')
def sh(cmd, **kw):
    r = subprocess.run(cmd, shell=True, cwd=WT, env=env, stdout=subprocess.PIPE, stderr=subprocess.STDOUT, text=True, **kw)
    return r.returncode, r.stdout
def reset():
    sh('git reset -q; git checkout -q -- . ; git clean -fdq')
meta = json.load(open(os.path.join(seed, 'meta.json')))
demo_cmd = meta['demo_cmd']
demo_cmd = re.sub(r'/tmp/wt-c\d+(-target)?', lambda m: WT + (m.group(1) or ''), demo_cmd)
cmds = [c.strip() for c in re.findall(r'cargo test[^&;(\[\n]*', demo_cmd)]
cmds = [c if ' -j' in c else c + ' -j 6' for c in cmds]
cmds = [re.sub(r'\s+\(.*$', '', c) for c in cmds]
demo_cmd = ' && '.join(dict.fromkeys(cmds)) if cmds else demo_cmd
out = {'demo_cmd': demo_cmd}
reset()
sh('git checkout -q --detach $(git -C /repo rev-parse HEAD)')
def apply(f):
    rc, o = sh('git apply %s' % f)
    if rc != 0:
        rc, o = sh('git apply -3 %s' % f)
    return rc, o
rc, o = apply(os.path.join(seed, 'demo.diff'))
out['demo_applies'] = rc == 0
rc, o = sh(demo_cmd)
out['demo_without_patch'] = 'PASS' if rc == 0 else 'FAIL'
out['demo_without_patch_tail'] = o[-600:] if rc != 0 else ''
rc, o = apply(os.path.join(seed, 'patch.diff'))
out['patch_applies'] = rc == 0
rc, o = sh(demo_cmd)
out['demo_with_patch'] = 'PASS' if rc == 0 else 'FAIL'
out['demo_with_patch_tail'] = o[-1500:]
# existing tests of the touched crates, with the patch only
reset()
apply(os.path.join(seed, 'patch.diff'))
rc, files = sh('git diff --name-only')
crates = set()
for f in files.split():
    d = os.path.dirname(f)
    while d and not os.path.exists(os.path.join(WT, d, 'Cargo.toml')):
        d = os.path.dirname(d)
    if d:
        for line in open(os.path.join(WT, d, 'Cargo.toml')):
            m = re.match(r'name\s*=\s*"(.+?)"', line)
            if m:
                crates.add(m.group(1)); break
out['crates'] = sorted(crates)
res = {}
for c in sorted(crates):
    feat = ' --features sqlite' if c == 'pavex_session_sqlx' else ''
    tests = ' --lib --tests' if c != 'pavex_session_sqlx' else ' --lib --test sqlite'
    rc, o = sh('cargo test --offline -p %s%s%s 2>&1 | grep -E "^test result|FAILED|panicked|error(\[|:)" | head -20' % (c, feat, tests))
    res[c] = o.strip().splitlines()
out['existing_tests_with_patch'] = res
rc, o = sh('cargo check --offline --workspace 2>&1 | tail -2')
out['workspace_check_with_patch'] = o.strip()
reset()
out['confirmed'] = (out['demo_without_patch'] == 'PASS' and out['demo_with_patch'] == 'FAIL' and
                    all(not any('FAILED' in l or 'error' in l for l in v) and v for v in res.values()) and 'Finished' in out['workspace_check_with_patch'])
json.dump(out, open(os.path.join(seed, 'confirm.json'), 'w'), indent=1)
print(seed, 'confirmed' if out['confirmed'] else 'NOT CONFIRMED', out['demo_without_patch'], out['demo_with_patch'], res)
