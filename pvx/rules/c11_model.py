"""C11.R5 — typestate exploration of the session state machine, with every transfer function read off the MIR.

Abstract state of one request:  K  id kind (Existing / ToBeRenamed / NewlyGenerated)
                                S  server-state cell (NotLoaded / Unchanged / DoesNotExist / MarkedForDeletion / Changed)
                                inv invalidated flag; cu client state updated; ne "payload may be non-empty"
                                rc / ro  what the session knows about the store record under its current / old id: Y, N, ?

Operations are the public `Session` methods and the client-state mutators; each is executed by the abstract interpreter (pvx/absint.py) on its MIR body,
descending into the crate's own helpers (insert -> insert_raw -> force_load_mut -> force_load, finalize -> sync). The only
hand-written semantics are the contract of the storage backend (the `SessionStorageBackend` trait docs):
    create(x): DuplicateId if a record exists        update / update_ttl(x): UnknownId if none exists
    delete(x): UnknownId if none exists              change_id(o, n): UnknownId if o has none, DuplicateId if n has one
    load(x): Some iff a record exists
and "?" (the session never looked) is resolved optimistically: an operation on "?" succeeds, because failing there is the
documented behaviour (a record may expire at any time) and not a defect.

Explored: every sequence of operations from the two initial states (no cookie / cookie of an existing session), closed
under the reachable abstract states, each sequence ended by `finalize` (= sync + end-of-request checks).
Violations (each keyed by the cell it happens in; the shortest history is the witness):
    sync-fails      a store call made by sync fails because of what the session itself did earlier in the request
    sync-panics     a panic / unreachable!() inside sync or after it in finalize is reachable
    record-survives the session is invalidated at the end of the request but a record it knows of is still in the store
    state-lost      the request ends with a (possibly non-empty) clean state in memory and no record under the cookie's id
    orphan-record   the id is advanced while a record is still stored under the id that is dropped
    cookie          finalize (interpreted to its return value) answers None / a session cookie / a removal cookie inconsistently with the
                    end state: invalidated + client had a cookie => removal cookie; alive + (record exists or client had a cookie) => session cookie
"""
from collections import deque
from ..facts import callee, op_place, strip_generics
from ..absint import Interp, Semantics, PathState, closure_upvars
from ..flow import Defs, backward_slice, slice_calls, rv_operands

CR = 'pavex_session'
M = 'pavex_session::session_::'
STORE = 'pavex_session::store_::SessionStore::'
SS, CID, CS = M + 'ServerState', M + 'CurrentSessionId', M + 'ClientState'
ERR = 'pavex_session::store_::errors::'
OPT, RES, CF = 'core::option::Option', 'core::result::Result', 'core::ops::control_flow::ControlFlow'
MISSING = 'pavex_session::config::state::MissingServerState'
CREATION = 'pavex_session::config::state::ServerStateCreation'
BY_DESIGN_PANICS = ('source of randomness',)


class SessionSem(Semantics):
    def __init__(self, ctx):
        self.ctx = ctx
        self.fb = ctx.fb
        self.unknown = []        # things the interpreter did not understand (fail closed)
        self._roles = {}
        self._exec = {}
        self._priv = {}
        self.depth = 0
        self.n_store_calls = 0

    # ---- helpers ----------------------------------------------------------------------------------------------------
    def exec_body(self, name):
        if name not in self._exec:
            bodies = self.fb.bodies_of_item(CR, name)
            co = [b for b in bodies if b.is_coroutine and b.nid == name + '::{closure#0}']
            fn = [b for b in bodies if b.nid == name]
            self._exec[name] = co[0] if co else (fn[0] if fn else None)
        return self._exec[name]

    def switched_type(self, body, bb, term):
        """full type of the place whose discriminant is switched on"""
        d = op_place(term['d'])
        for st in body.stmts(bb):
            if st.get('lhs') and d and st['lhs'].get('l') == d['l'] and not st['lhs'].get('p') and st['rv']['k'] == 'discr':
                return st['rv'].get('ty', '')
        src = term.get('src')
        if src and not src.get('p'):
            return body.locals[src['l']]
        return ''

    def id_roles(self, body, bb, term):
        """static: which id(s) the SessionId arguments of a store call denote: 'old' / 'new' / 'cur'"""
        k = (body.id, bb)
        if k in self._roles:
            return self._roles[k]
        defs = Defs(body)
        roles = []
        for a, ty in zip(term['args'][1:], term['aty'][1:]):
            if 'SessionId' not in ty:
                continue
            pl = op_place(a)
            got = set()
            if pl is not None:
                sl, _ = backward_slice(body, pl['l'], defs)
                for _, _, node in sl:
                    if 'rv' not in node:
                        continue
                    ops, pls = rv_operands(node['rv'])
                    for q in pls + [op_place(o) for o in ops if op_place(o) is not None]:
                        pp = q.get('p', [])
                        for i, el in enumerate(pp):
                            if el.startswith('d:') and i + 1 < len(pp) and pp[i + 1].startswith('f:'):
                                v, f = el[2:], pp[i + 1][2:]
                                if v == 'ToBeRenamed':
                                    got.add(f)
                                elif v in ('Existing', 'NewlyGenerated'):
                                    got.add('cur')
                for c, _, _ in slice_calls(sl):
                    if c == M + 'CurrentSessionId::old_id':
                        got.add('old')
                    elif c == M + 'CurrentSessionId::new_id':
                        got.add('new')
            roles.append(got)
        self._roles[k] = roles
        return roles

    def rec_key(self, env, role):
        if env['K'] == 'ToBeRenamed':
            return 'ro' if role == 'old' else 'rc'
        return 'rc'

    # ---- hooks ------------------------------------------------------------------------------------------------------
    def enum_switch(self, interp, path, body, bb, term, enum):
        env = path.env
        if enum == SS:
            # a state value held in a local (moved out of the cell, or about to be stored) rather than the cell itself
            src = term.get('src')
            if src is not None:
                pp = [e for e in src.get('p', []) if e != '*']
                t = None
                if not pp:
                    t = path.tags.get((body.id, src['l']))
                elif pp in (['d:Some', 'f:0'], ['d:Ok', 'f:0']):
                    t = path.tags.get((body.id, src['l']))
                    if not (t and t.startswith('ss:')):
                        t = path.tags.get((body.id, src['l'], 'in'))
                if t and t.startswith('ss:') and t != 'ss:NotLoaded':
                    return [t[3:].replace('+fresh', '')]
            return [env['S']] if env['S'] != 'NotLoaded' else []
        if enum == CID:
            return [env['K']]
        if enum == CS:
            return ['Updated' if env['cu'] else 'Unchanged']
        if enum == MISSING:
            return ['Allow' if env['allow'] else 'Reject']
        if enum == CREATION:
            return ['NeverSkip' if env['neverskip'] else 'SkipIfEmpty']
        if enum == OPT:
            src = term.get('src')
            tag = interp.tag_of(path, body, src) if src and not src.get('p') else None
            if tag in ('opt:Some', 'opt:None'):
                return [tag[4:]]
            if tag and tag.startswith('ss:'):
                return ['None'] if tag == 'ss:NotLoaded' else ['Some']
            ty = self.switched_type(body, bb, term)
            if '&str' in ty or 'SameSite' in ty:
                # cookie attributes taken from the configuration: no effect on the model, one edge is enough
                names = [n for n, _ in term['ts']] + list(term.get('rest', []))
                return ['None'] if 'None' in names else names[:1]
            if 'ServerState' in ty and 'Option<' in ty:
                return ['None'] if env['S'] == 'NotLoaded' else ['Some']
            if 'SessionRecord' in ty:
                return [env.get('loaded', 'None')]
            return None
        if enum in (RES, CF):
            ok = env.get('last', 'Ok') == 'Ok'
            if enum == RES:
                return ['Ok'] if ok else ['Err']
            return ['Continue'] if ok else ['Break']
        if enum.startswith(ERR):
            last = env.get('last')
            if isinstance(last, tuple):
                names = [n for n, _ in term['ts']] + list(term.get('rest', []))
                hit = [n for n in names if n.startswith(last[1])]
                if hit:
                    return hit[:1]
                self.unknown.append('no %s variant in %s' % (last[1], enum))
            return None
        return None

    def assign(self, interp, path, body, bb, st):
        lhs, rv = st['lhs'], st['rv']
        env = path.env
        k = (body.id, lhs['l'])
        if rv['k'] == 'agg' and rv.get('ak') == 'adt':
            adt = strip_generics(rv['adt'])
            if not lhs.get('p'):
                if adt == SS:
                    fresh = False
                    if 'state' in rv.get('fields', []):
                        pl = op_place(rv['ops'][rv['fields'].index('state')])
                        fresh = pl is not None and path.tags.get((body.id, pl['l'])) == 'fresh'
                    self._pending = (k, 'ss:' + rv['var'] + ('+fresh' if fresh else ''))
                elif adt == CID:
                    self._pending = (k, 'id:' + rv['var'] + ':' + self._id_payload(interp, path, body, rv))
                elif adt == OPT:
                    inner = None
                    if rv['var'] == 'Some' and rv['ops']:
                        pl = op_place(rv['ops'][0])
                        if pl is not None and not pl.get('p'):
                            inner = path.tags.get((body.id, pl['l']))
                    if inner and inner.startswith('cookie:'):
                        self._pending = (k, 'some:' + inner)
                    else:
                        self._pending = (k, inner if inner and inner.startswith('ss:') else 'opt:' + rv['var'])
                elif adt == 'pavex_session::store_::SessionRecordRef':
                    self._pending = (k, 'rec:state')
                elif adt == RES and lhs['l'] == 0:
                    env['reterr'] = rv['var'] == 'Err'
                    if rv['var'] == 'Ok' and rv['ops']:
                        pl = op_place(rv['ops'][0])
                        env['ret'] = (path.tags.get((body.id, pl['l'])) if pl is not None and not pl.get('p') else None) or '?'
                elif adt == CS and rv['var'] == 'Updated':
                    env['cu'] = True
            else:
                if adt == CS and rv['var'] == 'Updated':
                    env['cu'] = True
                if adt == RES and lhs['l'] == 0:
                    env['reterr'] = rv['var'] == 'Err'
        # in-place transition through a `&mut ServerState` (e.g. `*state = ServerState::Changed { .. }`)
        if lhs.get('p') and all(e == '*' for e in lhs['p']) and strip_generics(st.get('lty') or '') == SS:
            if rv['k'] == 'agg' and rv.get('ak') == 'adt' and strip_generics(rv['adt']) == SS:
                fresh = False
                if 'state' in rv.get('fields', []):
                    pl = op_place(rv['ops'][rv['fields'].index('state')])
                    fresh = pl is not None and path.tags.get((body.id, pl['l'])) == 'fresh'
                self.write_state(env, rv['var'] + ('+fresh' if fresh else ''))
            elif rv['k'] == 'use' and op_place(rv['op']) is not None and not op_place(rv['op']).get('p'):
                t = path.tags.get((body.id, op_place(rv['op'])['l']))
                if t and t.startswith('ss:'):
                    self.write_state(env, t[3:])
                else:
                    self.unknown.append('write through &mut ServerState with unknown variant at %s' % body.loc(bb, st))
        # stores into the session's fields
        lty = st.get('lty') or ''
        if lhs.get('p') and lhs['p'][-1] in ('f:server_state', 'f:id') and rv['k'] == 'use':
            pl = op_place(rv['op'])
            tag = path.tags.get((body.id, pl['l'])) if pl is not None and not pl.get('p') else None
            if lhs['p'][-1] == 'f:server_state':
                if tag and tag.startswith('ss:'):
                    self.write_state(env, tag[3:])
                else:
                    self.unknown.append('write of Session.server_state with unknown variant at %s' % body.loc(bb, st))
            else:
                if tag and tag.startswith('id:'):
                    self.write_id(env, tag[3:], body.loc(bb, st))
                else:
                    self.unknown.append('write of Session.id with unknown variant at %s' % body.loc(bb, st))

    _pending = None

    def bool_switch(self, interp, path, body, bb, term):
        pl = op_place(term['d'])
        if pl is None:
            return None
        k = (body.id, 'cfgbool', bb)
        if k not in self._roles:
            v = None
            for st in body.stmts(bb):
                if st.get('lhs') == {'l': pl['l']} and st['rv']['k'] == 'use' and op_place(st['rv']['op']) is not None:
                    pp = op_place(st['rv']['op']).get('p', [])
                    if pp and pp[-1] in ('f:secure', 'f:http_only'):
                        v = False
            self._roles[k] = v
        return self._roles[k]

    def _id_payload(self, interp, path, body, rv):
        """for CurrentSessionId aggregates: where does the (new) id come from: 'new_id', 'old_id', 'random', '?'"""
        srcs = []
        for o in rv['ops']:
            pl = op_place(o)
            t = path.tags.get((body.id, pl['l'])) if pl is not None and not pl.get('p') else None
            srcs.append(t or '?')
        return ','.join(srcs)

    def write_state(self, env, var):
        fresh = var.endswith('+fresh')
        var = var.replace('+fresh', '')
        if var == 'NotLoaded':
            env['S'] = 'NotLoaded'
            return
        env['S'] = var
        if fresh and not env.get('touched'):
            env['ne'] = False
        if var in ('DoesNotExist', 'MarkedForDeletion'):
            env['ne'] = False

    def write_id(self, env, desc, loc):
        var, payload = desc.split(':', 1)
        old_k = env['K']
        if var == 'Existing':
            src = payload.split(',')[0]
            if old_k == 'ToBeRenamed':
                if src == 'val:new_id' or src == 'f:new':
                    if env['ro'] == 'Y':
                        env['orphan'] = 'record under the old id dropped by the id update at %s' % loc
                    env['ro'] = 'N'
                elif src in ('val:old_id', 'f:old'):
                    if env['rc'] == 'Y':
                        env['orphan'] = 'record under the new id dropped by the id update at %s' % loc
                    env['rc'] = env['ro']
                    env['ro'] = 'N'
                else:
                    self.unknown.append('Existing(..) built from an unrecognised id (%s) at %s' % (src, loc))
            env['K'] = 'Existing'
        elif var == 'ToBeRenamed':
            if old_k == 'ToBeRenamed':
                # old kept, new replaced by a fresh id: whatever was stored under the previous `new` is forgotten
                if env['rc'] == 'Y':
                    env['orphan'] = 'record under the previous new id forgotten by cycle_id at %s' % loc
                env['rc'] = 'N'
            elif old_k == 'Existing':
                env['ro'] = env['rc']
                env['rc'] = 'N'
            else:
                self.unknown.append('ToBeRenamed built for a newly generated id at %s' % loc)
            env['K'] = 'ToBeRenamed'
        elif var == 'NewlyGenerated':
            if old_k != 'NewlyGenerated':
                # the id(s) the store and the client know this session by are forgotten: whatever is stored under them can no longer be
                # deleted, renamed or answered with a removal cookie
                if env['rc'] in ('Y', '?') or env['ro'] in ('Y', '?'):
                    env['orphan'] = 'the session forgets the id it is known by (%s -> NewlyGenerated at %s) while a record may exist under it' % (old_k, loc)
                env['rc'], env['ro'] = 'N', 'N'
            elif env['rc'] == 'Y':
                env['orphan'] = 'record under the previous id forgotten by cycle_id at %s' % loc
                env['rc'] = 'N'
            env['K'] = 'NewlyGenerated'

    def _set_tag_after(self, interp, path, body, st_local_key):
        pass

    def call(self, interp, path, body, bb, term, name):
        env = path.env
        d = term.get('dest')
        dk = (body.id, d['l']) if d is not None and not d.get('p') else None

        def clear_dest():
            if dk is not None:
                path.alias.pop(dk, None)
                path.memo.pop(dk, None)
                path.tags.pop(dk, None)

        def arg_local(i):
            pl = op_place(term['args'][i]) if len(term['args']) > i else None
            return pl['l'] if pl is not None and all(e == '*' for e in pl.get('p', [])) else None

        def arg_tag(i):
            l = arg_local(i)
            return path.tags.get((body.id, l)) if l is not None else None

        short = strip_generics(name)
        if short == 'core::ops::try_trait::Try::branch' and dk is not None and arg_local(0) is not None:
            # `?`: what is inside Ok(..) / Some(..) is what is inside Continue(..)
            src = (body.id, arg_local(0))
            keep_t = {kk[2:]: vv for kk, vv in path.tags.items() if len(kk) >= 3 and kk[:2] == src and kk[2] == 'in'}
            keep_m = {kk[2:]: vv for kk, vv in path.memo.items() if isinstance(kk, tuple) and len(kk) >= 3 and kk[:2] == src and kk[2] == 'in'}
            clear_dest()
            for d_ in (path.tags, path.memo):
                for kk in [kk for kk in d_ if isinstance(kk, tuple) and len(kk) > 2 and kk[:2] == dk]:
                    del d_[kk]
            for suf, vv in keep_t.items():
                path.tags[dk + suf] = vv
            for suf, vv in keep_m.items():
                path.memo[dk + suf] = vv
            return [('next', path)]
        # a record built by a local closure (`let record = || SessionRecordRef { state: .., ttl }; .. store.update(&id, record())`)
        if short in ('core::ops::function::Fn::call', 'core::ops::function::FnMut::call_mut', 'core::ops::function::FnOnce::call_once') \
                and dk is not None and 'SessionRecordRef' in body.locals[d['l']]:
            kinds = set()
            for cl in self.fb.bodies_of_item(body.crate, body.nroot):
                if cl.nid == cl.nroot or cl.is_promoted or 'SessionRecordRef' not in cl.locals[0]:
                    continue
                for _, _, st in cl.all_assigns():
                    rv = st['rv']
                    if rv['k'] == 'agg' and rv.get('ak') == 'adt' and strip_generics(rv['adt']) == 'pavex_session::store_::SessionRecordRef':
                        kinds.add('rec:state')
                for _, t2 in cl.calls():
                    if strip_generics(callee(t2) or '') == 'pavex_session::store_::SessionRecordRef::empty':
                        kinds.add('rec:empty')
            clear_dest()
            if len(kinds) == 1:
                path.tags[dk] = kinds.pop()
            return [('next', path)]
        # --- the storage backend --------------------------------------------------------------------------------
        if short.startswith(STORE):
            meth = short[len(STORE):]
            self.n_store_calls += 1
            clear_dest()
            roles = self.id_roles(body, bb, term)
            # what the path knows about each id argument takes precedence (ids handed to a helper arrive as parameters)
            dyn = []
            for i, ty in enumerate(term['aty'][1:], start=1):
                if 'SessionId' not in ty:
                    continue
                t = arg_tag(i)
                dyn.append({'f:old': 'old', 'val:old_id': 'old', 'f:new': 'new', 'val:new_id': 'new', 'f:cur': 'cur'}.get(t))
            roles = [({d_} if d_ else got) for d_, got in zip(dyn, roles)] if len(dyn) == len(roles) else roles
            rl = []
            for got in roles:
                if len(got) != 1:
                    self.unknown.append('id argument of store.%s at %s has ambiguous provenance %s' % (meth, body.loc(bb, term), sorted(got)))
                    rl.append('cur')
                else:
                    rl.append(next(iter(got)))
            keys = [self.rec_key(env, r) for r in rl]
            cell = '%s*%s' % (env['S'], env['K'])
            out = 'Ok'
            pre = dict(env)
            if meth == 'load':
                v = env[keys[0]]
                succ = []
                for val in (['Y', 'N'] if v == '?' else [v]):
                    p = path.fork()
                    p.env[keys[0]] = val
                    p.env['loaded'] = 'Some' if val == 'Y' else 'None'
                    p.env['last'] = 'Ok'
                    p.trail.append(('store', 'load', rl, p.env['loaded'], cell))
                    succ.append(('next', p))
                return succ
            if meth in ('create', 'update'):
                rk = None
                for i, ty in enumerate(term['aty']):
                    if 'SessionRecordRef' in ty:
                        rk = arg_tag(i)
                if rk not in ('rec:empty', 'rec:state'):
                    self.unknown.append('record argument of store.%s at %s has unknown provenance' % (meth, body.loc(bb, term)))
                elif rk == 'rec:empty' and env['S'] in ('Changed', 'Unchanged') and env['ne']:
                    env['wrong_record'] = 'store.%s at %s writes the EMPTY record while the session holds a (possibly non-empty) %s state' % (meth, body.loc(bb, term), env['S'])
            if meth == 'create':
                if env[keys[0]] == 'Y':
                    out = ('Err', 'DuplicateId')
                else:
                    env[keys[0]] = 'Y'
            elif meth in ('update', 'update_ttl'):
                if env[keys[0]] == 'N':
                    out = ('Err', 'UnknownId')
                else:
                    env[keys[0]] = 'Y'
            elif meth == 'delete':
                if env[keys[0]] == 'N':
                    out = ('Err', 'UnknownId')
                else:
                    env[keys[0]] = 'N'
            elif meth == 'change_id':
                if len(keys) != 2:
                    self.unknown.append('change_id with %d id arguments' % len(keys))
                elif keys[0] == keys[1]:
                    self.unknown.append('change_id(old, new) where both denote the same id at %s' % body.loc(bb, term))
                elif env[keys[0]] == 'N':
                    out = ('Err', 'UnknownId')
                elif env[keys[1]] == 'Y':
                    out = ('Err', 'DuplicateId')
                else:
                    env[keys[0]], env[keys[1]] = 'N', 'Y'
            else:
                self.unknown.append('unmodelled store method %s' % meth)
            succ = []
            # the one thing the environment can do on its own: the record expires between two calls. The code provides for it (it tolerates
            # UnknownId in several places); explore that outcome once per path. A failure that is merely propagated on such a path is the
            # documented behaviour, what the tolerant branches do afterwards is checked like everything else.
            if out == 'Ok' and meth in ('update', 'update_ttl', 'delete', 'change_id') and not pre.get('raced'):
                p2 = path.fork()
                p2.env.update(pre)
                p2.env['raced'] = True
                p2.env[keys[0]] = 'N'
                p2.env['last'] = ('Err', 'UnknownId')
                p2.trail.append(('store', meth, rl, ('Err', 'UnknownId'), cell, body.loc(bb, term)))
                succ.append(('next', p2))
            env['last'] = out
            path.trail.append(('store', meth, rl, out, cell, body.loc(bb, term)))
            succ.append(('next', path))
            return succ
        # --- propagation of results -----------------------------------------------------------------------------
        if short.endswith('FromResidual::from_residual') or short.endswith('::from_residual'):
            if d is not None and d['l'] == 0 and not d.get('p'):
                env['reterr'] = True
            return None
        if short == 'pavex_session::store_::SessionRecordRef::empty':
            clear_dest()
            if dk is not None:
                path.tags[dk] = 'rec:empty'
            return [('next', path)]
        if short == M + 'new_cell_with':
            t = arg_tag(0)
            clear_dest()
            if dk is not None:
                if t and t.startswith('ss:'):
                    path.tags[dk] = t
                elif t == 'opt:None':
                    path.tags[dk] = 'ss:NotLoaded'
            return [('next', path)]
        if short.startswith('core::cell::once::OnceCell::') and term['aty'] and 'ServerState' in term['aty'][0]:
            m = short.split('::')[-1]
            clear_dest()
            if m == 'set':
                t = arg_tag(1)
                if t and t.startswith('ss:'):
                    was_empty = env['S'] == 'NotLoaded'
                    if was_empty:
                        self.write_state(env, t[3:])
                    env['last'] = 'Ok'
                    if dk is not None:
                        path.tags[dk] = 'res:Ok' if was_empty else 'res:Err'
                else:
                    self.unknown.append('OnceCell::set with unknown state at %s' % body.loc(bb, term))
            elif m == 'take':
                # the state moves out; the map closure decides what comes back
                pass
            return [('next', path)]
        if short == 'core::option::Option::map' and term['aty'] and 'ServerState' in term['aty'][0] and len(term['args']) == 2:
            clear_dest()
            cl = arg_local(1)
            if env['S'] == 'NotLoaded':
                if dk is not None:
                    path.tags[dk] = 'opt:None'
                return [('next', path)]
            ups, cdef = closure_upvars(interp, path, body, cl) if cl is not None else ({}, None)
            cbody = None
            if cdef:
                cands = [b for b in self.fb.bodies_of_item(CR, body.nroot) if b.id == cdef or b.nid == strip_generics(cdef)]
                cbody = cands[0] if cands else None
            if cbody is None:
                self.unknown.append('closure of Option::map over the server state not found at %s' % body.loc(bb, term))
                return [('next', path)]
            succ = []
            sub = path.fork()
            sub.env['clo'] = None
            for oc in interp.run(cbody, None, upvars=ups, path=sub):
                if oc[0] != 'return':
                    succ.append(('panic', oc[1], oc[2]))
                    continue
                p = oc[1]
                t = p.tags.get((cbody.id, 0))
                if dk is not None:
                    if t and t.startswith('ss:'):
                        p.tags[dk] = t
                    else:
                        self.unknown.append('post-state closure returns an unknown variant at %s' % cbody.loc())
                succ.append(('next', p))
            return succ
        if short == 'core::bool::{impl bool}::then' and len(term['args']) == 2:
            # `cond.then(|| value)`: Some(closure result) when the condition holds, None otherwise
            cond = interp.bool_value(path, body, arg_local(0))[0] if arg_local(0) is not None else None
            cl = arg_local(1)
            clear_dest()
            succ = []
            if cond is not True and dk is not None:
                pn = path.fork() if cond is None else path
                pn.tags[dk] = 'opt:None'
                succ.append(('next', pn))
            if cond is not False:
                ups, cdef = closure_upvars(interp, path, body, cl) if cl is not None else ({}, None)
                cands = [b for b in self.fb.bodies_of_item(CR, body.nroot) if cdef and (b.id == cdef or b.nid == strip_generics(cdef))]
                if not cands:
                    self.unknown.append('closure of bool::then not found at %s' % body.loc(bb, term))
                    return [('next', path)]
                sub = path.fork()
                for oc in interp.run(cands[0], None, upvars=ups, path=sub):
                    if oc[0] != 'return':
                        succ.append(('panic', oc[1], oc[2]))
                        continue
                    p = oc[1]
                    t = p.tags.get((cands[0].id, 0))
                    if dk is not None:
                        p.tags[dk] = ('some:' + t) if t else 'opt:Some'
                    succ.append(('next', p))
            return succ
        if short in ('core::result::Result::is_ok', 'core::result::Result::is_err'):
            t = arg_tag(0)
            clear_dest()
            if t in ('res:Ok', 'res:Err') and dk is not None:
                path.memo[dk] = (t == 'res:Ok') == short.endswith('is_ok')
            return [('next', path)]
        if short in ('core::option::Option::is_some', 'core::option::Option::is_none'):
            t = arg_tag(0)
            clear_dest()
            val = None
            if t in ('opt:Some', 'opt:None'):
                val = (t == 'opt:Some')
            elif t and t.startswith('ss:'):
                val = t != 'ss:NotLoaded'
            elif term['aty'] and 'ServerState' in term['aty'][0]:
                val = env['S'] != 'NotLoaded'
            if val is not None and dk is not None:
                path.memo[dk] = val if short.endswith('is_some') else not val
            return [('next', path)]
        if short == M + 'InvalidationFlag::invalidate':
            env['inv'] = True
            return None
        if short == M + 'InvalidationFlag::is_invalidated':
            clear_dest()
            if dk is not None:
                path.memo[dk] = env['inv']
            return [('next', path)]
        if short.startswith('std::collections::hash::map::HashMap::'):
            m = short.split('::')[-1]
            clear_dest()
            if m == 'new' and dk is not None:
                path.tags[dk] = 'fresh'
            elif m == 'insert' and not env.get('client_op'):
                env['ne'] = True
                env['touched'] = True
            elif m == 'is_empty' and env.get('ne') is False and dk is not None:
                path.memo[dk] = True
            return [('next', path)]
        if short == 'core::cmp::PartialEq::eq' or short == 'core::cmp::PartialEq::ne':
            clear_dest()
            if term['aty'] and CREATION in term['aty'][0] and dk is not None:
                v = self._const_variant(body, term, CREATION)
                if v in ('NeverSkip', 'SkipIfEmpty'):
                    val = (env['neverskip'] == (v == 'NeverSkip'))
                    path.memo[dk] = val if short.endswith('eq') else not val
            return [('next', path)]
        if short.startswith('biscotti::') or short in ('core::convert::Into::into', 'core::convert::From::from'):
            t0 = arg_tag(0)
            clear_dest()
            if dk is not None:
                if short.endswith('RemovalCookie::new'):
                    path.tags[dk] = 'cookie:removal'
                elif short.endswith('ResponseCookie::new'):
                    path.tags[dk] = 'cookie:response'
                elif t0 and t0.startswith('cookie:'):
                    path.tags[dk] = t0
                elif t0 and t0.startswith('ss:') and d is not None and 'OnceCell' in body.locals[d['l']]:
                    path.tags[dk] = t0          # `OnceCell::from(state)`: a cell holding that state
            return [('next', path)]
        if short == 'pavex_session::id::SessionId::random':
            clear_dest()
            if dk is not None:
                path.tags[dk] = 'val:random'
            return [('next', path)]
        # --- the crate's own functions: descend -------------------------------------------------------------------
        if (short.startswith(M) or self._crate_private(short)) and self.depth < 6:
            cb = self.exec_body(short)
            if cb is not None:
                arg_tags = [arg_tag(i) for i in range(len(term['args']))]
                arg_bools = []
                for i in range(len(term['args'])):
                    l_ = arg_local(i)
                    arg_bools.append(interp.bool_value(path, body, l_)[0] if l_ is not None and body.locals[l_] == 'bool' else None)
                clear_dest()
                self.depth += 1
                try:
                    sub = path.fork()
                    sub.env['reterr'] = False
                    # an `async fn` is entered through its coroutine: its parameters are the fields of the coroutine's environment,
                    # which the body first moves into locals `_k = move (_1.<i>)`; plain functions take them as _1.._n
                    for i, t_ in enumerate(arg_tags):
                        if t_ is not None:
                            sub.tags[(cb.id, 1 + i)] = t_
                            sub.tags[(cb.id, 1, i)] = t_
                    for i, v_ in enumerate(arg_bools):
                        if v_ is not None:
                            sub.memo[(cb.id, 1 + i)] = v_
                            sub.memo[(cb.id, 1, i)] = v_
                    outs = interp.run(cb, None, path=sub)
                finally:
                    self.depth -= 1
                succ = []
                for oc in outs:
                    if oc[0] != 'return':
                        succ.append(('panic', oc[1], oc[2]))
                        continue
                    p = oc[1]
                    p.env['last'] = 'Err' if p.env.get('reterr') else 'Ok'
                    if p.env['last'] == 'Err':
                        p.env['last'] = ('Err', '*')
                    p.env['reterr'] = env.get('reterr', False)
                    if dk is not None:
                        t = p.tags.get((cb.id, 0))
                        if short.endswith('::old_id') or short.endswith('::new_id'):
                            if t in ('opt:Some', 'opt:None'):
                                p.tags[dk + ('in',)] = 'val:' + short.split('::')[-1]
                            else:
                                t = 'val:' + short.split('::')[-1]
                        if t:
                            p.tags[dk] = t
                        for kk, vv in list(p.tags.items()):          # what the helper put inside the Ok(..) / Some(..) it returns
                            if len(kk) >= 3 and kk[:2] == (cb.id, 0) and kk[2] == 'in':
                                p.tags[dk + kk[2:]] = vv
                        r = interp.root(p, cb, 0)
                        v, _, _ = interp.bool_value(p, cb, 0)
                        if v is not None and body.locals[d['l']] == 'bool':
                            p.memo[dk] = v
                    succ.append(('next', p))
                return succ
        return None

    def _crate_private(self, short):
        """a function of pavex_session outside the session module that is not part of the public API (pub(crate) / pub(super) / private):
        session logic that was moved next to the data it works on (e.g. cookie building on the cookie configuration) is still session logic"""
        if not short.startswith(CR + '::'):
            return False
        if short not in self._priv:
            try:
                b = self.fb.body(CR, short)
            except KeyError:
                b = None
            self._priv[short] = b is not None and b.raw.get('vis') not in (None, 'Public') and not b.raw.get('exp')
        return self._priv[short]

    def _const_variant(self, body, term, enum):
        """variant of the promoted constant a config value is compared with"""
        from ..flow import slice_strs
        for a in term['args']:
            pl = op_place(a)
            if pl is None:
                continue
            sl, _ = backward_slice(body, pl['l'], through_calls=False)
            for _, _, n in sl:
                rv = n.get('rv')
                if rv and rv['k'] == 'use' and 'uneval' in rv['op'] and rv['op'].get('promoted') is not None:
                    pid = '%s::{promoted#%d}' % (body.id, int(rv['op']['promoted']))
                    for b in self.fb.bodies(CR):
                        if b.id == pid:
                            for _, _, s in b.all_assigns():
                                r2 = s['rv']
                                if r2['k'] == 'agg' and strip_generics(r2.get('adt', '')) == enum:
                                    return r2['var']
        return None


class TaggingInterp(Interp):
    """Interp + tagging of whole-local aggregate assignments (the hook decides the tag; it is installed after the generic
    bookkeeping of the statement, which clears the previous tag of the destination)."""

    def _stmt(self, path, body, bb, st, upvars):
        self.sem._pending = None
        lhs0 = st.get('lhs')
        if lhs0 is not None and not lhs0.get('p'):
            k0 = (body.id, lhs0['l'])
            for d_ in (path.tags, path.memo):
                for kk in [kk for kk in d_ if isinstance(kk, tuple) and len(kk) > 2 and kk[:2] == k0]:
                    del d_[kk]
        super()._stmt(path, body, bb, st, upvars)
        if self.sem._pending is not None:
            k, tag = self.sem._pending
            path.tags[k] = tag
            self.sem._pending = None
        lhs = st.get('lhs')
        rv = st['rv']
        if lhs is None or lhs.get('p'):
            return
        k = (body.id, lhs['l'])
        if rv['k'] in ('use', 'ref', 'cfd'):
            pl = op_place(rv['op']) if rv['k'] == 'use' else rv['pl']
            if pl is not None and pl.get('p'):
                pp = [e for e in pl['p'] if e != '*']
                # field reads that denote ids: _x = (self.id as ToBeRenamed).old / (.. as Existing).0
                for i, el in enumerate(pp):
                    if el == 'd:ToBeRenamed' and i + 1 < len(pp) and pp[i + 1] in ('f:old', 'f:new'):
                        path.tags[k] = pp[i + 1]
                    elif el in ('d:Existing', 'd:NewlyGenerated') and i + 1 < len(pp) and pp[i + 1] == 'f:0':
                        path.tags[k] = 'f:cur'
                # the payload of a tagged Option / Result, an element of a tagged tuple
                base = (body.id, pl['l'])
                if pp in (['d:Some', 'f:0'], ['d:Ok', 'f:0'], ['d:Err', 'f:0'], ['d:Continue', 'f:0']):
                    t = path.tags.get(base + ('in',))
                    if t is not None:
                        path.tags[k] = t
                    for kk, vv in list(path.tags.items()):      # a tuple payload keeps its element tags
                        if len(kk) == 4 and kk[:3] == base + ('in',):
                            path.tags[k + (kk[3],)] = vv
                    for kk, vv in list(path.memo.items()):
                        if isinstance(kk, tuple) and len(kk) == 4 and kk[:3] == base + ('in',):
                            path.memo[k + (kk[3],)] = vv
                elif len(pp) == 1 and pp[0].startswith('f:') and pp[0][2:].isdigit():
                    i = int(pp[0][2:])
                    if base + (i,) in path.tags:
                        path.tags[k] = path.tags[base + (i,)]
                    if base + (i,) in path.memo:
                        path.memo[k] = path.memo[base + (i,)]
        elif rv['k'] == 'agg' and rv.get('ak') == 'tuple':
            for i, o in enumerate(rv['ops']):
                path.tags.pop(k + (i,), None)
                path.memo.pop(k + (i,), None)
                pl = op_place(o)
                if pl is not None and not pl.get('p'):
                    t = path.tags.get((body.id, pl['l']))
                    if t is not None:
                        path.tags[k + (i,)] = t
                    if body.locals[pl['l']] == 'bool':
                        v, _, _ = self.bool_value(path, body, pl['l'])
                        if v is not None:
                            path.memo[k + (i,)] = v
                elif isinstance(o, dict) and 'int' in o and o.get('ty') == 'bool':
                    path.memo[k + (i,)] = o['int'] != '0'
        elif rv['k'] == 'agg' and rv.get('ak') == 'adt' and strip_generics(rv['adt']) in (OPT, RES) and rv['ops']:
            # remember what is inside Some(..) / Ok(..)
            pl = op_place(rv['ops'][0])
            path.tags.pop(k + ('in',), None)
            if pl is not None and not pl.get('p'):
                src = (body.id, pl['l'])
                if src in path.tags:
                    path.tags[k + ('in',)] = path.tags[src]
                for kk, vv in list(path.tags.items()):
                    if len(kk) == 3 and kk[:2] == src and isinstance(kk[2], int):
                        path.tags[k + ('in', kk[2])] = vv
                for kk, vv in list(path.memo.items()):
                    if isinstance(kk, tuple) and len(kk) == 3 and kk[:2] == src and isinstance(kk[2], int):
                        path.memo[k + ('in', kk[2])] = vv


INIT_ENV = dict(K=None, S=None, inv=False, cu=False, ne=False, rc='N', ro='N', allow=False, neverskip=True,
                last='Ok', reterr=False, orphan=None, touched=False, loaded='None', client_op=False, had=False, ret=None, wrong_record=None, raced=False, nr=False)
STATE_KEYS = ('K', 'S', 'inv', 'cu', 'ne', 'rc', 'ro', 'allow', 'neverskip', 'had', 'nr')


def _state(env):
    return tuple(env[k] for k in STATE_KEYS)


def explore(ctx, ops, terminal):
    sem = SessionSem(ctx)
    interp = TaggingInterp(sem, max_paths=400000)
    inits = []
    for allow in (False, True):
        for neverskip in (True, False):
            e = dict(INIT_ENV, K='NewlyGenerated', S='DoesNotExist', rc='N', allow=allow, neverskip=neverskip, had=False)
            inits.append((e, 'request without a session cookie'))
            e = dict(INIT_ENV, K='Existing', S='NotLoaded', rc='?', ne=True, allow=allow, neverskip=neverskip, had=True)
            inits.append((e, 'request with a session cookie'))
    seen = {}
    work = deque()
    for e, why in inits:
        s = _state(e)
        if s not in seen:
            seen[s] = (None, why)
            work.append(e)
    violations = {}
    observed_cells = set()
    next_request_states = []
    n_runs = 0

    def history(s):
        h = []
        while s is not None:
            prev, what = seen[s]
            h.append(what)
            s = prev
        return list(reversed(h))

    def cfg(e):
        return 'missing_server_state=%s, server_state_creation=%s' % ('Allow' if e['allow'] else 'Reject', 'NeverSkip' if e['neverskip'] else 'SkipIfEmpty')

    def report(kind, key, e0, opname, detail):
        k = '%s|%s' % (kind, key)
        if e0.get('nr'):
            # the history crossed a request boundary: the creation policy decides whether "a cookie without a record" is an ordinary
            # state, so it is part of the identity of the violation
            k += '|in-the-request-after-a-cookie-without-a-record|%s' % ('NeverSkip' if e0['neverskip'] else 'SkipIfEmpty')
        if k not in violations:
            violations[k] = (history(_state(e0)) + [opname], cfg(e0), detail)

    def run_op(e0, opname, body):
        nonlocal n_runs
        n_runs += 1
        env = dict(e0, last='Ok', reterr=False, orphan=None, touched=False, loaded='None', client_op=opname.startswith('client.'), ret=None, wrong_record=None, raced=False)
        return interp.run(body, env)

    while work:
        e0 = work.popleft()
        s0 = _state(e0)
        for opname, body in ops + [terminal]:
            is_terminal = opname == terminal[0]
            for oc in run_op(e0, opname, body):
                p = oc[1]
                env = p.env
                cell = '%s*%s' % (e0['S'], e0['K'])
                stores = [t for t in p.trail if t[0] == 'store' and t[1] != 'load']
                for t in stores:
                    observed_cells.add((t[1], t[4].split('*')[0], t[4].split('*')[1]))
                if oc[0] == 'panic':
                    if any(x in (oc[2] or '') for x in BY_DESIGN_PANICS):
                        continue
                    where = 'sync' if opname in ('sync', terminal[0]) else opname
                    report('%s-panics' % where, cell, e0, opname, 'panic reachable: "%s"; store calls on the path: %s' % (
                        (oc[2] or '?')[:120], [(t[1], t[3] if t[3] == 'Ok' else t[3][1]) for t in stores]))
                    continue
                if env.get('reterr'):
                    bad = [t for t in stores if t[3] != 'Ok']
                    if bad and not env.get('raced'):
                        t = bad[-1]
                        report('sync-fails', '%s|%s|%s' % (t[1], t[4], t[3][1]), e0, opname,
                               'store.%s(%s) at %s fails with %s in cell (state=%s, id=%s): the session itself left the store in that condition earlier '
                               'in this request; the error is returned to the caller' % (t[1], ','.join(t[2]), t[5], t[3][1], t[4].split('*')[0], t[4].split('*')[1]))
                    continue
                if opname in ('delete', 'invalidate') and env['S'] not in ('MarkedForDeletion', 'DoesNotExist'):
                    report('%s-keeps-server-state' % opname, cell, e0, opname,
                           '%s() returns with the server state still %s (before: state=%s, id=%s): the values the request dropped are what sync() '
                           'will write, and what the next request reads' % (opname, env['S'], e0['S'], e0['K']))
                if opname == 'invalidate' and not env['inv']:
                    report('invalidate-leaves-session-valid', cell, e0, opname, 'invalidate() returns without the invalidation flag set')
                if env.get('orphan'):
                    report('orphan-record', cell, e0, opname, env['orphan'])
                if env.get('wrong_record'):
                    report('state-lost', 'empty-record|' + cell, e0, opname, env['wrong_record'])
                if is_terminal:
                    if env['inv'] and (env['rc'] == 'Y' or (env['K'] == 'ToBeRenamed' and env['ro'] == 'Y')):
                        report('record-survives-invalidate', cell, e0, opname,
                               'the session is invalidated but the record the session created/knows under its %s id is still in the store '
                               '(state=%s, id=%s at finalize)' % ('current' if env['rc'] == 'Y' else 'old', e0['S'], e0['K']))
                    if not env['inv'] and env['S'] == 'Unchanged' and env['ne'] and env['rc'] == 'N':
                        report('state-lost', cell, e0, opname, 'the request ends with a clean in-memory state but there is no record under the id the cookie carries')
                    if not env['inv'] and env['S'] in ('Changed', 'MarkedForDeletion'):
                        report('sync-panics', 'finalize-after-sync|' + env['S'], e0, opname, 'finalize() reaches unreachable!(): the state is still %s after sync' % env['S'])
                    ret = env.get('ret')
                    if ret not in ('opt:None', 'some:cookie:removal', 'some:cookie:response'):
                        sem.unknown.append('finalize returns a value the interpreter could not classify (%s)' % ret)
                    elif env['inv'] and e0['had'] and ret != 'some:cookie:removal':
                        report('cookie', 'no-removal-cookie|' + cell, e0, opname, 'the session is invalidated and the client holds a session cookie, but finalize returns %s instead of a removal cookie' % ret)
                    elif not env['inv'] and ret == 'some:cookie:removal':
                        report('cookie', 'removal-cookie-for-a-live-session|' + cell, e0, opname, 'the session is not invalidated but finalize returns a removal cookie')
                    elif not env['inv'] and (env['rc'] == 'Y' or e0['had']) and ret != 'some:cookie:response':
                        report('cookie', 'no-session-cookie|' + cell, e0, opname,
                               'the session is alive (%s) but finalize returns %s: the next request cannot find its state' % (
                                   'a record exists under its id' if env['rc'] == 'Y' else 'the client already holds its cookie', ret))
                    # closure over REQUESTS: a session cookie handed out while the session knows that there is no record under its id
                    # (client-side values only, SkipIfEmpty; or a missing record that was allowed) is a state the session itself
                    # produced; the next request starts there, and there the missing record is a fact, not a race.
                    # (a request that arrived without a cookie and never touched the client-side state has nothing to put in a cookie: the
                    # path on which the client state "is not empty" is infeasible there)
                    if not env['inv'] and ret == 'some:cookie:response' and env['rc'] == 'N' and (e0['had'] or env['cu']):
                        nxt = dict(INIT_ENV, K='Existing', S='NotLoaded', rc='N', ne=False, allow=e0['allow'], neverskip=e0['neverskip'], had=True, nr=True)
                        s1 = _state(nxt)
                        if s1 not in seen:
                            seen[s1] = (s0, opname + ' -> session cookie without a record ; NEXT REQUEST with that cookie')
                            work.append(nxt)
                            next_request_states.append(cfg(nxt))
                    continue
                s1 = _state(env)
                if s1 not in seen:
                    seen[s1] = (s0, opname)
                    work.append(dict(INIT_ENV, **{k: env[k] for k in STATE_KEYS}))
    return dict(violations=violations, observed_cells=observed_cells, n_states=len(seen), n_runs=n_runs, n_paths=interp.n_paths, n_store_calls=sem.n_store_calls, next_request_states=next_request_states,
                unknown=sorted(set(sem.unknown)))


def r5_typestate(ctx):
    ctx.rule('C11.R5', 'P11 typestate exploration: every public Session operation is interpreted abstractly on its MIR (id kind x server-state '
             'cell x invalidated x what the session knows about the store), closed over all operation sequences of a request and ended by '
             'finalize; no sequence may make a store call of sync fail because of the session\'s own earlier calls, reach a panic in sync, '
             'leave a record behind an invalidated session, lose a clean state, or orphan a record.')
    names = ['insert_raw', 'remove_raw', 'clear', 'delete', 'cycle_id', 'invalidate', 'sync', 'force_load']
    sem0 = SessionSem(ctx)
    ops = []
    for n in names:
        b = ctx.need('C11.R5', 'body of Session::' + n, sem0.exec_body(M + 'Session::' + n))
        if b is not None:
            ops.append((n, b))
    client = ['insert_raw', 'remove_raw', 'clear']
    for n in client:
        b = ctx.need('C11.R5', 'body of ClientSessionStateMut::' + n, sem0.exec_body(M + 'ClientSessionStateMut::' + n))
        if b is not None:
            ops.append(('client.' + n, b))
    sync = sem0.exec_body(M + 'Session::sync')
    fin = ctx.need('C11.R5', 'body of Session::finalize', sem0.exec_body(M + 'Session::finalize'))
    if sync is None or fin is None or len(ops) != len(names) + len(client):
        return
    res = explore(ctx, ops, ('finalize', fin))
    ctx.c11_model = res
    ctx.count('typestate_states', res['n_states'])
    ctx.count('typestate_operation_runs', res['n_runs'])
    ctx.count('typestate_paths', res['n_paths'])
    ctx.count('typestate_store_calls_interpreted', res['n_store_calls'])
    ctx.floor('C11.R5', 'abstract session states reached', res['n_states'], 200)
    ctx.floor('C11.R5', 'store calls interpreted', res['n_store_calls'], 100)
    ctx.count('typestate_next_request_states', len(res['next_request_states']))
    ctx.floor('C11.R5', 'end states carried into a next request (a cookie handed out without a record)', len(res['next_request_states']), 1)
    ctx.ob('C11.R5', 'interpreter-understood-everything', not res['unknown'], sync.loc(),
           'constructs the abstract interpreter could not model: %s' % (res['unknown'][:6] or 'none'))
    # verdicts derived from a model with holes are not verdicts: when a construct could not be modelled only that is reported (fail closed)
    for k, (hist, cfg, detail) in sorted(res['violations'].items() if not res['unknown'] else []):
        ctx.ob('C11.R5', k, False, sync.loc(), '%s. Shortest history: %s [%s]' % (detail, ' ; '.join(hist), cfg))
    ctx.ob('C11.R5', 'explored', True, sync.loc(), '%d abstract states, %d operation runs, %d paths, %d store calls interpreted; %d violation(s)' % (
        res['n_states'], res['n_runs'], res['n_paths'], res['n_store_calls'], len(res['violations'])), nontrivial=False)
