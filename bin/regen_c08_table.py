import sys, json, re; sys.path.insert(0,'/verif')
from pvx.engine import ensure_facts, Ctx
from pvx.facts import FactBase, callee, strip_generics
from pvx.rules import c08
from pvx.rules.compiler_common import cg
fdir,_=ensure_facts(verbose=False)
fb=FactBase(fdir)
ctx=Ctx('C08', fb, 'quick')
c08.REVIEWED_SKIP_PREDICATES = {k:set() for k in c08.REVIEWED_SKIP_PREDICATES}
c08.r7_skip_conditions(ctx)
tab={}
for ob in ctx.obs:
    if ob.key.startswith('skip-conditions|'):
        m=re.search(r"not in the reviewed table: (\[.*\]|none)$", ob.detail)
        lst = eval(m.group(1)) if m.group(1)!='none' else []
        tab[ob.key.split('|',1)[1]]=sorted(lst)
json.dump(tab, open('/tmp/skip_table2.json','w'), indent=1)
print({k:len(v) for k,v in tab.items()})
