#!/usr/bin/env python3
"""import_round.py <out-dir> <Cxx> <name> "<demo cmd>" [<file.rs>:<dest path in repo> ...]
Turns the deliverables of a seeding agent (patch.diff, README.md, demo.diff or loose demo files) into the layout confirm_seed.py /
import_seed.py expect, confirms the seed in the scratch worktree $PVX_WT and imports it (which runs the check against it)."""
import json, os, subprocess, sys
out, prop, name, demo_cmd = sys.argv[1:5]
extra = sys.argv[5:]
WT = os.environ.get('PVX_WT', '/var/tmp/w27')
def sh(cmd, cwd=None):
    return subprocess.run(cmd, shell=True, cwd=cwd, stdout=subprocess.PIPE, stderr=subprocess.STDOUT, text=True)
if extra:   # build demo.diff from loose files
    sh('git reset -q; git checkout -q -- .; git clean -fdq; git checkout -q --detach $(git -C /repo rev-parse HEAD)', WT)
    for e in extra:
        src, dst = e.split(':')
        os.makedirs(os.path.dirname(os.path.join(WT, dst)), exist_ok=True)
        sh('cp %s %s' % (os.path.join(out, src), os.path.join(WT, dst)))
        sh('git add -N %s' % dst, WT)
    open(os.path.join(out, 'demo.diff'), 'w').write(sh('git diff', WT).stdout)
    sh('git reset -q; git checkout -q -- .; git clean -fdq', WT)
readme = open(os.path.join(out, 'README.md')).read()
meta = {'summary': readme[:3000], 'breaks': 'see summary', 'needs_to_manifest': 'see summary', 'demo_cmd': demo_cmd,
        'ran': 'see the README of the agent (kept as summary)'}
json.dump(meta, open(os.path.join(out, 'meta.json'), 'w'), indent=1)
r = sh('PVX_WT=%s python3 /verif/bin/confirm_seed.py %s' % (WT, out))
print(r.stdout[-1500:])
conf = json.load(open(os.path.join(out, 'confirm.json')))
if not conf.get('confirmed'):
    print('NOT CONFIRMED: not imported'); sys.exit(1)
r = sh('python3 /verif/bin/import_seed.py %s %s %s' % (out, prop, name))
print(r.stdout[-800:])
for f in ('README.md', 'ASIDES.md'):
    if os.path.exists(os.path.join(out, f)):
        sh('cp %s /verif/seeded/%s/%s' % (os.path.join(out, f), name, f))
