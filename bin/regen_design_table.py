#!/usr/bin/env python3
"""regen_design_table.py: rewrite the 'Rules' and 'Seeds caught' columns of the table of DESIGN.md section 4 from the rule modules and from
seeded/*/meta.json (what the checks say now, as recorded by bin/selftest.py --update). The clause column is hand-written and left alone."""
import glob, json, os, re
V = os.path.dirname(os.path.dirname(os.path.abspath(__file__)))
rules = {}
for i in range(1, 21):
    c = 'C%02d' % i
    ids = []
    for f in sorted(glob.glob(os.path.join(V, 'pvx', 'rules', '*.py'))):
        for m in re.finditer(r"ctx\.rule\(\s*'(%s\.R\w+)'" % c, open(f).read()):
            if m.group(1) not in ids:
                ids.append(m.group(1))
    key = lambda r: (int(re.match(r'\d+', r.split('.R')[1]).group()), r)
    rules[c] = ', '.join(r.split('.')[1] for r in sorted(ids, key=key))
seeds = {}
for d in sorted(glob.glob(os.path.join(V, 'seeded', 'C??-*'))):
    n = os.path.basename(d)
    m = re.match(r'(C\d\d)-(?:r(\d)-)?\d+$', n)
    if not m:
        continue
    meta = json.load(open(os.path.join(d, 'meta.json')))
    rd = int(m.group(2) or 1)
    t = seeds.setdefault(m.group(1), {}).setdefault(rd, [0, 0])
    t[1] += 1
    t[0] += 1 if meta.get('check_result', {}).get('caught') else 0
p = os.path.join(V, 'DESIGN.md')
out = []
for line in open(p).read().split('\n'):
    m = re.match(r'\| (C\d\d) ', line)
    cells = line.split(' | ')
    if m and len(cells) == 4 and m.group(1) in rules:
        c = m.group(1)
        cells[2] = rules[c]
        cells[3] = ' + '.join('%d/%d' % tuple(seeds[c][r]) for r in sorted(seeds.get(c, {}))) + ' |'
        line = ' | '.join(cells)
    elif line.startswith('| Property | Decided structural clause'):
        line = '| Property | Decided structural clause | Rules | Seeds caught now (rounds 1 .. 8) |'
    out.append(line)
open(p, 'w').write('\n'.join(out))
print('rewritten')
