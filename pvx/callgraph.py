"""Whole-crate call graph over resolved callees (closures / coroutines attributed to their enclosing item)."""
from .facts import callee, callee_resolved


class CallGraph:
    def __init__(self, fb, crates):
        """crates: list of (name, ctype)"""
        self.fb = fb
        self.edges = {}       # nroot -> set(callee nroot or foreign callee path)
        self.sites = {}       # (nroot, callee) -> [(body, bb)]
        self.items = set()
        for name, ctype in crates:
            for b in fb.bodies(name, ctype):
                if b.is_promoted:
                    continue
                self.items.add(b.nroot)
                es = self.edges.setdefault(b.nroot, set())
                for bb, t in b.calls():
                    for c in {callee(t), callee_resolved(t)}:
                        if c:
                            es.add(c)
                            self.sites.setdefault((b.nroot, c), []).append((b, bb))
                # closures passed as values: an aggregate closure/coroutine of another item does not occur (they share the root)
                # fn items passed as values (e.g. `.map(Self::f)`): constants of FnDef type
                for bb, j, st in b.all_assigns():
                    rv = st['rv']
                    ops = []
                    if rv['k'] in ('use', 'cast'):
                        ops = [rv['op']]
                    elif rv['k'] == 'agg':
                        ops = rv['ops']
                    for o in ops:
                        if o and 'fn' in o:
                            from .facts import strip_generics
                            es.add(strip_generics(o['fn']))
                for bb, t in b.calls():
                    for a in t['args']:
                        if 'fn' in a:
                            from .facts import strip_generics
                            es.add(strip_generics(a['fn']))

    def reachable(self, roots):
        seen = set()
        work = list(roots)
        while work:
            f = work.pop()
            if f in seen:
                continue
            seen.add(f)
            for c in self.edges.get(f, ()):
                if c not in seen:
                    work.append(c)
        return seen

    def reaching(self, targets):
        """items from which some target is reachable (transitively)"""
        targets = set(targets)
        rev = {}
        for f, cs in self.edges.items():
            for c in cs:
                rev.setdefault(c, set()).add(f)
        seen = set(targets)
        work = list(targets)
        while work:
            f = work.pop()
            for p in rev.get(f, ()):
                if p not in seen:
                    seen.add(p)
                    work.append(p)
        return seen
