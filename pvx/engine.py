"""Rule engine core: fact cache management, obligations, known findings, evidence, CLI."""
import fcntl
import hashlib
import importlib
import json
import os
import shutil
import subprocess
import sys
import time

from .facts import FactBase

VERIF = os.path.dirname(os.path.dirname(os.path.abspath(__file__)))
CACHE = os.path.join(VERIF, '.cache')
REPO = os.environ.get('PVX_REPO', '/repo')   # self-tests point this at a scratch copy; registered checks always use /repo

SRC_ROOTS = ['compiler', 'runtime', 'rustdoc', 'px_workspace_hack']
SRC_EXT = ('.rs', '.toml', '.lock', '.sql', '.json')
SKIP_DIRS = {'target', '.git', 'ui_tests', 'node_modules', 'tests_data'}


def repo_hash(repo):
    h = hashlib.sha256()
    files = []
    for top in ('Cargo.toml', 'Cargo.lock', 'rust-toolchain.toml'):
        p = os.path.join(repo, top)
        if os.path.exists(p):
            files.append(p)
    for root in SRC_ROOTS:
        for dp, dns, fns in os.walk(os.path.join(repo, root)):
            dns[:] = sorted(d for d in dns if d not in SKIP_DIRS)
            for fn in sorted(fns):
                if fn.endswith(SRC_EXT):
                    files.append(os.path.join(dp, fn))
    for p in files:
        h.update(os.path.relpath(p, repo).encode())
        h.update(b'\0')
        try:
            with open(p, 'rb') as fh:
                h.update(fh.read())
        except OSError:
            h.update(b'<unreadable>')
        h.update(b'\0')
    # the extractor itself is an input too
    drv = os.path.join(VERIF, 'engine', 'facts', 'src', 'main.rs')
    with open(drv, 'rb') as fh:
        h.update(fh.read())
    return h.hexdigest()[:20], len(files)


def ensure_facts(repo=None, verbose=True):
    """Return (facts_dir, info). Re-extracts iff the repo's sources changed since the cached extraction."""
    repo = repo or REPO
    os.makedirs(CACHE, exist_ok=True)
    # extractions are serialised per cargo target directory (that is what they share); the self-test gives each worker its own
    tgt_for_lock = os.environ.get('PVX_TARGET', os.path.join(CACHE, 'target'))
    lock_path = os.path.join(CACHE, 'extract-%s.lock' % hashlib.sha256(os.path.abspath(tgt_for_lock).encode()).hexdigest()[:8])
    with open(lock_path, 'w') as lock:
        fcntl.flock(lock, fcntl.LOCK_EX)
        hsh, nfiles = repo_hash(repo)
        tag = hashlib.sha256(os.path.abspath(repo).encode()).hexdigest()[:6]
        fdir = os.path.join(CACHE, 'facts', '%s-%s' % (tag, hsh))
        marker = os.path.join(fdir, 'COMPLETE')
        info = {'repo': repo, 'source_hash': hsh, 'source_files_hashed': nfiles, 'reused': True}
        if os.path.exists(marker):
            os.utime(fdir, None)
        if not os.path.exists(marker):
            info['reused'] = False
            t0 = time.time()
            if os.path.isdir(fdir):
                shutil.rmtree(fdir)
            # bound the cache: keep at most 8 older fact sets (LRU by mtime)
            base = os.path.join(CACHE, 'facts')
            if os.path.isdir(base):
                def _mt(d):
                    try:
                        return os.path.getmtime(d)
                    except OSError:          # evicted by a concurrent run
                        return 0.0
                olds = sorted((os.path.join(base, d) for d in os.listdir(base)), key=_mt)
                main_tag = hashlib.sha256(os.path.abspath('/repo').encode()).hexdigest()[:6]
                keep_main = [d for d in olds if os.path.basename(d).startswith(main_tag)][-3:]   # never evict /repo's latest sets
                for d in olds[:-8]:
                    # never evict the latest sets of /repo, nor a set another process may still be reading (touched in the last 15 minutes)
                    if d not in keep_main and time.time() - _mt(d) > 900:
                        shutil.rmtree(d, ignore_errors=True)
                # hard bound (a parallel self-test creates one set per patched scratch copy, each ~100 MB): beyond 40 sets the oldest go,
                # whatever their age, as long as they were not touched in the last 3 minutes
                for d in olds[:-40]:
                    if d not in keep_main and time.time() - _mt(d) > 180:
                        shutil.rmtree(d, ignore_errors=True)
            os.makedirs(fdir, exist_ok=True)
            tgt = os.environ.get('PVX_TARGET', os.path.join(CACHE, 'target'))
            r = subprocess.run([os.path.join(VERIF, 'bin', 'extract.sh'), repo, fdir, tgt],
                               stdout=subprocess.PIPE, stderr=subprocess.STDOUT, text=True)
            if r.returncode != 0:
                sys.stdout.write(r.stdout)
                raise ExtractionFailed('fact extraction failed (exit %d): the tree does not type-check under '
                                       'cargo +nightly check, or the driver is not built' % r.returncode)
            with open(marker, 'w') as fh:
                fh.write(hsh)
            info['extract_s'] = round(time.time() - t0, 1)
            if verbose:
                print('[pvx] extracted facts for %s in %.1fs -> %s' % (repo, info['extract_s'], fdir))
        return fdir, info


class ExtractionFailed(Exception):
    pass


class Ob:
    __slots__ = ('rule', 'key', 'ok', 'loc', 'detail', 'nontrivial')

    def __init__(self, rule, key, ok, loc, detail, nontrivial):
        self.rule, self.key, self.ok, self.loc, self.detail, self.nontrivial = rule, key, ok, loc, detail, nontrivial

    def as_dict(self):
        return {'rule': self.rule, 'instance': self.key, 'status': 'discharged' if self.ok else 'violated',
                'location': self.loc, 'detail': self.detail}


class Ctx:
    def __init__(self, prop, fb, tier):
        self.prop = prop
        self.fb = fb
        self.tier = tier
        self.obs = []
        self.rules = {}      # rule id -> text
        self.assumptions = []
        self.analysed = {}   # free-form counters (bodies, call sites, ...)
        self.notes = []

    def rule(self, rid, text):
        self.rules[rid] = text

    def assume(self, text):
        if text not in self.assumptions:
            self.assumptions.append(text)

    def count(self, what, n=1):
        self.analysed[what] = self.analysed.get(what, 0) + n

    def ob(self, rule, key, ok, loc='', detail='', nontrivial=True):
        self.obs.append(Ob(rule, key, bool(ok), loc, detail, nontrivial))
        return bool(ok)

    def need(self, rule, what, value):
        """Anchor lookup: fail closed when an anchor cannot be found."""
        ok = value is not None and value != [] and value is not False
        if not ok:
            self.ob(rule, 'anchor-missing:' + what, False, '', 'anchor not found in the fact base: %s '
                    '(renamed/removed? the rule cannot be evaluated and fails closed)' % what, nontrivial=False)
        return value if ok else None

    def floor(self, rule, what, got, expected_min):
        self.ob(rule, 'floor:' + what, got >= expected_min, '',
                '%s: found %d instance(s), floor is %d (instances confirmed by reading today\'s tree)'
                % (what, got, expected_min), nontrivial=False)
        return got >= expected_min


def load_known():
    p = os.path.join(VERIF, 'known_findings.json')
    if not os.path.exists(p):
        return []
    with open(p) as fh:
        return json.load(fh)


def run_check(prop, tier='quick', replay=None):
    t0 = time.time()
    seed = int(os.environ.get('VERIF_SEED', '0') or 0)
    mod = importlib.import_module('pvx.rules.' + prop.lower())
    ev_path = os.path.join(os.environ.get('PVX_EVIDENCE_DIR', os.path.join(VERIF, 'evidence')), prop + '.json')
    os.makedirs(os.path.dirname(ev_path), exist_ok=True)
    try:
        fdir, info = ensure_facts()
    except ExtractionFailed as e:
        # The tree does not build: nothing can be decided; this is a broken input, reported as a violation of
        # the check's precondition (fail closed) with a replay file describing it.
        rp = write_replay(prop, {'rule': 'extraction', 'instance': 'extraction-failed', 'detail': str(e)})
        write_evidence(ev_path, prop, tier, seed, mod, None, [], [], {}, time.time() - t0, 1,
                       extra={'explanation_suffix': ' EXTRACTION FAILED: ' + str(e)})
        print('VIOLATION property=%s replay=%s' % (prop, rp))
        return 1
    fb = FactBase(fdir)
    ctx = Ctx(prop, fb, tier)
    mod.check(ctx)
    if tier == 'thorough' and hasattr(mod, 'check_thorough'):
        mod.check_thorough(ctx)
    selftest_broken = []
    if tier == 'thorough' and 'PVX_REPO' not in os.environ:
        # checker self-test: every seeded defect kept for this property must still be reported (on a scratch copy of /repo)
        ctx.rule('SELFTEST', 'checker self-test (both directions): the unchanged tree is silent apart from listed known findings, and each seeded '
                 'defect under /verif/seeded for this property, applied to a scratch copy of /repo\'s tracked files, is reported by the check. '
                 'A seed that is no longer reported means the CHECKER is broken; it is not a property violation.')
        r = subprocess.run([sys.executable, os.path.join(VERIF, 'bin', 'selftest.py'), prop], stdout=subprocess.PIPE, stderr=subprocess.STDOUT, text=True)
        res = []
        try:
            res = json.load(open(os.path.join(CACHE, 'selftest-last.json')))
        except Exception:
            pass
        ctx.count('selftest_seeds', len(res))
        for e in res:
            good = (e['result'] == 'caught') == bool(e['expected_caught']) or (e['result'] == 'caught')
            ctx.notes.append('selftest %s: %s (expected %s)' % (e['seed'], e['result'], 'caught' if e['expected_caught'] else 'not caught'))
            if not good:
                selftest_broken.append(e['seed'])
        if r.returncode != 0 and not selftest_broken:
            selftest_broken.append('selftest harness failed: ' + r.stdout[-300:])
    known = [k for k in load_known() if k.get('property') == prop and 'fixed' not in k]
    known_keys = {(k['rule'], k['instance']): k for k in known}
    violations = []
    known_hit = []
    for ob in ctx.obs:
        if ob.ok:
            continue
        k = known_keys.get((ob.rule, ob.key))
        if k is not None:
            known_hit.append((ob, k))
        else:
            violations.append(ob)
    if replay:
        want = json.load(open(replay))
        violations = [o for o in violations if o.rule == want.get('rule') and o.key == want.get('instance')]
    for old_name, new_name in sorted(fb.renamed.items()):
        # a function the rules address by name was renamed (recognised by kind, owner, signature and callees: fingerprints.json)
        ctx.notes.append('renamed function: the rules\' `%s` is now `%s`' % (old_name, new_name))
        print('[pvx] note: `%s` is now called `%s` (same owner, signature and callees); the rules address it by the old name' % (old_name, new_name))
    for ob, k in known_hit:
        print('KNOWN-FINDING: property=%s %s [%s %s] %s' % (prop, k.get('what', ''), ob.rule, ob.key, ob.loc))
    for ob in violations:
        rp = write_replay(prop, ob.as_dict())
        print('  %s %s @ %s: %s' % (ob.rule, ob.key, ob.loc, ob.detail))
        print('VIOLATION property=%s replay=%s' % (prop, rp))
    write_evidence(ev_path, prop, tier, seed, mod, ctx, violations, known_hit, info, time.time() - t0, len(violations))
    n_ok = sum(1 for o in ctx.obs if o.ok)
    print('[pvx] %s %s: %d obligations, %d discharged, %d known finding(s), %d violation(s); %.1fs'
          % (prop, tier, len(ctx.obs), n_ok, len(known_hit), len(violations), time.time() - t0))
    if selftest_broken and not violations:
        print('CHECKER-BROKEN property=%s seeded defect(s) no longer reported: %s' % (prop, selftest_broken))
        return 2
    return 1 if violations else 0


def write_replay(prop, d):
    rdir = os.path.join(CACHE, 'replay')
    os.makedirs(rdir, exist_ok=True)
    h = hashlib.sha256((d.get('rule', '') + '|' + d.get('instance', '')).encode()).hexdigest()[:10]
    p = os.path.join(rdir, '%s-%s.json' % (prop, h))
    d = dict(d)
    d['property'] = prop
    with open(p, 'w') as fh:
        json.dump(d, fh, indent=1)
    return p


def write_evidence(path, prop, tier, seed, mod, ctx, violations, known_hit, info, wall, nviol, extra=None):
    level = getattr(mod, 'LEVEL', 'other')
    clause = getattr(mod, 'CLAUSE', '')
    obs = ctx.obs if ctx else []
    n = len(obs)
    n_ok = sum(1 for o in obs if o.ok)
    distinct_nontrivial = len({(o.rule, o.key) for o in obs if o.nontrivial})
    samples = [o.as_dict() for o in obs if o.nontrivial][:12]
    if not samples:
        samples = [o.as_dict() for o in obs][:5] or [{'note': 'no obligation evaluated'}]
    expl = ('Static analysis over rustc MIR facts (mir_promoted, whole workspace) of the current /repo tree. '
            'Decides the structural clause: %s It does NOT decide the behavioural property as a whole. '
            % clause)
    if extra and extra.get('explanation_suffix'):
        expl += extra['explanation_suffix']
    cov = {
        'explanation': expl,
        'evaluations': max(n, 1),
        'distinct_nontrivial': distinct_nontrivial,
        'rule': 'one obligation per (rule, instance key) enumerated from the fact base; non-trivial = discharged by a '
                'path / dominance / provenance / table argument rather than mere existence (floors and anchor '
                'look-ups are counted as trivial)',
        'samples': samples,
        'obligations': n,
        'discharged': n_ok,
        'known_findings_hit': [{'rule': o.rule, 'instance': o.key, 'location': o.loc, 'what': k.get('what', '')}
                               for o, k in known_hit],
        'violations': [o.as_dict() for o in violations],
        'checker_cmd': './check %s --tier %s' % (prop, tier),
        'trusted_base': ['rustc nightly MIR construction and trait resolution', 'pvx-facts extractor (rule-free dump)']
                        + list(getattr(mod, 'TRUSTED', [])),
        'rules': ctx.rules if ctx else {},
        'analysed': ctx.analysed if ctx else {},
        'facts': info,
        'exhaustive': True,
        'notes': ctx.notes if ctx else [],
    }
    ev = {
        'property_id': prop,
        'tier': tier,
        'seed': seed,
        'level': level,
        'coverage': cov,
        'assumptions': (ctx.assumptions if ctx else []) + [
            'cfg(test) code, other platforms and disabled cargo features are not part of the fact base',
        ],
        'wall_s': round(wall, 2),
        'violations': nviol,
    }
    tmp = path + '.tmp%d' % os.getpid()
    with open(tmp, 'w') as fh:
        json.dump(ev, fh, indent=1)
    os.replace(tmp, path)


def main(argv=None):
    import argparse
    ap = argparse.ArgumentParser()
    ap.add_argument('prop')
    ap.add_argument('--tier', default=os.environ.get('VERIF_TIER', 'quick'))
    ap.add_argument('--replay')
    a = ap.parse_args(argv)
    tier = a.tier if a.tier in ('quick', 'thorough') else 'quick'
    sys.exit(run_check(a.prop.upper(), tier, a.replay))
