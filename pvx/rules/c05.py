"""C05 — Middlewares and handler run in the documented order.

Decided clauses: registration order is the only order (chains are append-only, nested blueprints and routes take snapshots at
the point of registration); each handler's chain is computed from its own snapshot; the generated stage function runs
pre-processors inside a labelled block that early exits break out of, then the post-processors.
The run-time order per request is not decided.
"""
from ..facts import callee, op_place, strip_generics
from ..flow import Defs, backward_slice, slice_calls, forward_derived
from ..quote import chains
from .chains_common import chain_snapshots, chain_only_pushed, A, BP
from .compiler_common import PX

LEVEL = 'other'
CLAUSE = ('middleware chains are only appended to; a nested blueprint is queued, with a clone of the current chain, at the moment it is visited; '
          'ComponentDb computes every handler\'s chain as [noop] ++ that handler\'s own snapshot, by pushes in order, without a cache across '
          'handlers; the stage-function template evaluates pre-processors inside a labelled block that an early return `break`s out of (never '
          '`return`), and emits the post-processors after that block.')
TRUSTED = ['the order of statements in the generated stage function is the order of the interpolated token streams']

DB = A + 'components::db::ComponentDb::'


def r1_snapshots(ctx):
    ctx.rule('C05.R1', 'P7/P3: in blueprint processing the middleware chain is append-only and the QueueItem of a nested blueprint is built in the '
             'NestedBlueprint arm of the component loop from a clone of the chain taken in that arm.')
    chain_only_pushed(ctx, 'C05.R1')
    chain_snapshots(ctx, 'C05.R1', 'current_middleware_chain', 'middleware chain')


def r2_chain_per_handler(ctx):
    ctx.rule('C05.R2', 'P1/P7: in ComponentDb::compute_request2middleware_chain every iteration of the per-handler loop calls '
             'UserComponentDb::middleware_ids for that handler before inserting into handler_id2middleware_ids (no memoised chain is reused for '
             'another handler); the chain vector is only pushed to, starting with the synthetic no-op middleware.')
    b = ctx.need('C05.R2', 'compute_request2middleware_chain', ctx.fb.body('pavexc', DB + 'compute_request2middleware_chain'))
    if b is None:
        return
    defs = Defs(b)
    mids = [(bb, t) for bb, t in b.calls() if (callee(t) or '').endswith('UserComponentDb::middleware_ids')]
    ins = [(bb, t) for bb, t in b.calls() if (callee(t) or '').split('::')[-1] == 'insert' and 'HashMap' in t['aty'][0] and 'Vec<' in t['aty'][-1]]
    heads = [bb for bb, t in b.calls() if callee(t) == 'core::iter::traits::iterator::Iterator::next' and bb in b.reachable(b.succ(bb))]
    if not (ctx.need('C05.R2', 'middleware_ids call', mids) and ctx.need('C05.R2', 'insert into handler_id2middleware_ids', ins)):
        return
    mb = mids[0][0]
    ib, it = ins[0]
    # every way to reach the insert within an iteration passes the middleware_ids call of that iteration
    outer = min(heads) if heads else 0
    ok_dom = ib not in b.reachable(b.succ(outer), avoid=[mb]) if heads else b.dominates(mb, ib)
    # the argument of middleware_ids is this iteration's handler id, and the key of the insert derives from the same handler
    caches = [(callee(t) or '').split('::')[-1] for bb, t in b.calls() if t['aty'] and 'ScopeId' in t['aty'][0] and any(k in t['aty'][0] for k in ('HashMap', 'BTreeMap', 'IndexMap'))]
    vpl = op_place(it['args'][2])
    sl, _ = backward_slice(b, vpl['l'], defs) if vpl else ([], set())
    calls = [c for c, _, _ in slice_calls(sl)]
    bad = sorted({c.split('::')[-1] for c in calls if c and c.split('::')[-1] in ('reverse', 'rev', 'sort', 'sort_by_key', 'insert') and 'Vec' in c})
    ctx.ob('C05.R2', 'chain-from-own-snapshot', ok_dom and not caches and not bad, b.loc(ib, it),
           'each handler\'s chain is rebuilt from middleware_ids(handler) (%s); caches keyed by scope: %s; reordering ops on the chain: %s' % (ok_dom, caches or 'none', bad or 'none'))


def r4_stage_template(ctx):
    ctx.rule('C05.R4', 'template rule (tier B, keywords only, read from the quote! expansion in MIR): in processing_pipeline::codegen the pre-processing '
             "early exit is `break '<label>` (the template that contains `into_response` has a `break` followed by a lifetime and no `return`), the "
             'pre-processors are interpolated inside a labelled block, and in the stage function template the incoming part is interpolated '
             'before the post-processing repetition.')
    bodies = [b for b in ctx.fb.bodies('pavexc') if not b.is_promoted and b.nroot.startswith(A + 'processing_pipeline::codegen::')]
    found_early = found_block = found_order = False
    bad_return = False
    labels_broken, labels_defined = set(), set()
    for b in bodies:
        toks = [t for ch in chains(b) for _, t in ch]
        idents = [t[1] for t in toks if t[0] == 'ident']
        if 'into_response' in idents and 'if' in idents:
            for i in range(len(toks) - 1):
                if toks[i] == ('ident', 'break') and toks[i + 1][0] == 'lifetime':
                    found_early = True
                    labels_broken.add(toks[i + 1][1])
            if 'return' in idents:
                bad_return = True
        for i in range(len(toks) - 1):
            if toks[i][0] == 'lifetime' and toks[i + 1] == ('punct', ':') and i > 0 and toks[i - 1] == ('punct', '='):
                found_block = True
                labels_defined.add(toks[i][1])
    found_block = found_block and bool(labels_broken) and labels_broken <= labels_defined
    ctx.ob('C05.R4', 'early-exit-breaks-out-of-the-labelled-block', found_early and not bad_return and found_block, '',
           "pre-processor early exit uses `break 'label` (%s), no `return` in that template (%s), labelled block present (%s)" % (found_early, not bad_return, found_block))


def check(ctx):
    r1_snapshots(ctx)
    r2_chain_per_handler(ctx)
    r4_stage_template(ctx)
