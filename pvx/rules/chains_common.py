"""Rules shared by C05 / C06 (and C19.R4): chain snapshots in blueprint processing, scope-lookup shape."""
from ..facts import callee, op_place, strip_generics
from ..flow import Defs, backward_slice, slice_calls, forward_derived
from ..tables import guard_context, enum_switches, switch_edges
from .compiler_common import PX

A = PX + 'analyses::'
BP = A + 'user_components::blueprint::'
COMP = 'pavex_bp_schema::Component'
CLONERS = {'core::clone::Clone::clone', 'alloc::borrow::ToOwned::to_owned', 'alloc::slice::{impl [T]}::to_vec', 'alloc::slice::{impl [T]}::to_owned'}


def chain_snapshots(ctx, rule, chain_field, what):
    """In `_process_blueprint`: the QueueItem for a nested blueprint (and the Routes import) is built inside the arm of the component
    match that visits it, with `chain_field` taken from a clone made in that same arm; the chains are only ever pushed to."""
    b = ctx.need(rule, '_process_blueprint', ctx.fb.body('pavexc', BP + '_process_blueprint'))
    if b is None:
        return
    defs = Defs(b)
    n = 0
    for bb, j, st in b.all_assigns():
        rv = st['rv']
        if rv['k'] == 'agg' and rv.get('ak') == 'adt' and strip_generics(rv['adt']) == BP + 'QueueItem':
            n += 1
            g = guard_context(b, bb).get(COMP)
            if chain_field not in rv['fields']:
                ctx.need(rule, 'field `%s` of the queued nested-blueprint record' % chain_field, None)
                continue
            i = rv['fields'].index(chain_field)
            pl = op_place(rv['ops'][i])
            sl, _ = backward_slice(b, pl['l'], defs, through_calls=False) if pl else ([], set())
            clones = [(cb, node) for cb, _, node in sl if node.get('k') == 'call' and callee(node) in CLONERS]
            in_arm = bool(clones) and all(guard_context(b, cb).get(COMP) == {'NestedBlueprint'} for cb, _ in clones)
            in_loop = bb in b.reachable(b.succ(bb))
            ctx.ob(rule, 'nested-snapshot|%s' % chain_field, g == {'NestedBlueprint'} and in_arm and in_loop, b.loc(bb, st),
                   'the nested blueprint is queued in the arm that visits it (%s), inside the component loop (%s), with a clone of the %s taken there (%s): '
                   'registrations made later in the parent cannot reach it' % (sorted(g) if g else None, in_loop, what, in_arm))
    ctx.floor(rule, 'QueueItem constructions in _process_blueprint', n, 1)
    # `bp.routes(from![..])`: the routes are resolved later, with the chains recorded at the point of the call
    field = chain_field.replace('current_', '')
    m = 0
    for bb, j, st in b.all_assigns():
        rv = st['rv']
        if rv['k'] == 'agg' and rv.get('ak') == 'adt' and strip_generics(rv['adt']).endswith('::ImportKind') and rv.get('var') == 'Routes' and field in rv.get('fields', []):
            m += 1
            g = guard_context(b, bb).get(COMP)
            pl = op_place(rv['ops'][rv['fields'].index(field)])
            sl, _ = backward_slice(b, pl['l'], defs, through_calls=False) if pl else ([], set())
            clones = [(cb, node) for cb, _, node in sl if node.get('k') == 'call' and callee(node) in CLONERS]
            in_arm = bool(clones) and all('RoutesImport' in (guard_context(b, cb).get(COMP) or set()) and 'NestedBlueprint' not in (guard_context(b, cb).get(COMP) or set())
                                           for cb, _ in clones)
            in_loop = bb in b.reachable(b.succ(bb))
            ctx.ob(rule, 'routes-import-snapshot|%s' % field, bool(g) and 'RoutesImport' in g and in_arm and in_loop, b.loc(bb, st),
                   'the Routes import is recorded in the arm that visits it (%s), inside the component loop (%s), with a clone of the %s taken there (%s): '
                   'a middleware/observer registered after `bp.routes(..)` cannot reach the imported routes' % (sorted(g) if g else None, in_loop, what, in_arm))
    # the same value built inside a closure: fine if the closure runs at the visit (a plain adaptor), not if its result is cached
    MEMO = {'get_or_insert_with', 'or_insert_with', 'get_or_init', 'get_or_try_init', 'or_insert_with_key', 'get_or_insert', 'force', 'call_once'}
    for cb in ctx.fb.bodies_of_item('pavexc', BP + '_process_blueprint'):
        if cb is b:
            continue
        for bb, j, st in cb.all_assigns():
            rv = st['rv']
            if rv['k'] == 'agg' and rv.get('ak') == 'adt' and strip_generics(rv['adt']).endswith('::ImportKind') and rv.get('var') == 'Routes' and field in rv.get('fields', []):
                m += 1
                # where is this closure used?
                users = []
                for pb, pj, pst in b.all_assigns():
                    prv = pst['rv']
                    if prv['k'] == 'agg' and prv.get('ak') == 'closure' and prv.get('def') == cb.id and not pst['lhs'].get('p'):
                        der = forward_derived(b, {pst['lhs']['l']})
                        for ub, ut in b.calls():
                            if any(op_place(a) is not None and op_place(a)['l'] in der for a in ut['args']):
                                users.append((ub, (callee(ut) or '').split('::')[-1]))
                cached = [u for u in users if u[1] in MEMO]
                in_loop = bool(users) and all(ub in b.reachable(b.succ(ub)) for ub, _ in users)
                g_ok = bool(users) and all('RoutesImport' in (guard_context(b, ub).get(COMP) or set()) for ub, _ in users)
                ctx.ob(rule, 'routes-import-snapshot|%s' % field, bool(users) and not cached and in_loop and g_ok, cb.loc(bb, st),
                       'the Routes import record is built in a closure used by %s: %s' % (sorted({u[1] for u in users}) or 'nothing',
                           'its result is cached across visits (the chain of the FIRST `bp.routes(..)` is reused for the later ones)' if cached else 'evaluated at each visit: %s' % (in_loop and g_ok)))
    ctx.floor(rule, 'ImportKind::Routes constructions in _process_blueprint', m, 1)


def chain_always_pushed(ctx, rule, variants, what):
    """every function of the blueprint-processing module that registers a component of one of `variants` (builds the UserComponent value)
    and is handed a chain (`&mut Vec<UserComponentId>`) appends to that chain on every path to its return"""
    VEC = '&mut alloc::vec::Vec<la_arena::Idx<pavexc::compiler::analyses::user_components::component::UserComponent>>'
    n = 0
    for b in ctx.fb.bodies('pavexc'):
        if b.is_promoted or not b.nroot.startswith(BP) or b.nid != b.nroot:
            continue
        if not any(b.locals[i].startswith(VEC) for i in range(1, b.raw['argc'] + 1)):
            continue
        def _built(x, depth=0):
            out = {st['rv']['var'] for bb, j, st in x.all_assigns() if st['rv']['k'] == 'agg' and st['rv'].get('ak') == 'adt'
                   and strip_generics(st['rv']['adt']).endswith('user_components::component::UserComponent')}
            if depth < 2:
                # the value may be built by a helper that returns it (`kind.user_component(id)`)
                for _, t in x.calls():
                    c = strip_generics(callee(t) or '')
                    if not c.startswith('pavexc::') or t['dest'].get('p') or not x.locals[t['dest']['l']].endswith('user_components::component::UserComponent'):
                        continue
                    for y in ctx.fb.bodies_of_item('pavexc', c):
                        if y.nid == y.nroot:
                            out |= _built(y, depth + 1)
            return out
        built = _built(b)
        if not (built & set(variants)):
            continue
        n += 1
        fn = b.nroot.replace(BP, '')
        pushes = [bb for bb, t in b.calls() if (callee(t) or '').endswith('Vec::push') and t['aty'] and t['aty'][0].startswith(VEC)]
        rets = set(b.return_blocks())
        escaped = sorted(b.reachable_from_entry(avoid=pushes) & rets) if pushes else sorted(rets)
        ctx.ob(rule, 'always-appended|%s' % fn, bool(pushes) and not escaped, b.loc(pushes[0]) if pushes else b.loc(),
               '%s (registers %s) appends to the %s on every path to its return: %s%s' % (fn, sorted(built & set(variants)), what, bool(pushes) and not escaped,
                                                                           '' if not escaped else ' — a return (bb%s) is reachable without the push: the registration is dropped' % escaped))
    ctx.floor(rule, 'functions registering %s' % '/'.join(variants), n, 1)


def chain_only_pushed(ctx, rule, ty_marker='UserComponent'):
    """no insert/remove/reverse/sort/truncate on the chain vectors in the blueprint-processing module, and no `mem::take` / `mem::replace` /
    `mem::swap` of a chain (handing the chain itself to a nested blueprint leaves nothing for whoever reads it next: a routes import, a fallback)"""
    bad_ops = {'insert', 'remove', 'reverse', 'sort', 'sort_by', 'sort_by_key', 'truncate', 'clear', 'pop', 'swap', 'retain', 'drain', 'dedup', 'swap_remove', 'rotate_left', 'rotate_right', 'split_off', 'take', 'replace', 'dedup_by', 'dedup_by_key', 'set_len'}
    n = 0
    for b in ctx.fb.bodies('pavexc'):
        if b.is_promoted or not b.nroot.startswith(BP):
            continue
        for bb, t in b.calls():
            if t['aty'] and t['aty'][0].startswith('&mut alloc::vec::Vec<la_arena::Idx<pavexc::compiler::analyses::user_components::component::UserComponent>>'):
                m = (callee(t) or '').split('::')[-1]
                n += 1
                if m in bad_ops:
                    ctx.ob(rule, 'chain-mutation|%s|%s' % (b.nroot.replace(BP, ''), m), False, b.loc(bb, t), 'Vec::%s on a middleware/observer chain in %s' % (m, b.nroot))
    ctx.ob(rule, 'chains-append-only', True, '', '%d mutable accesses to chain vectors, none reorders or removes' % n, nontrivial=False)
    ctx.floor(rule, 'mutable accesses to chain vectors', n, 1)


def _scope_lookup_iterator_form(ctx, rule, fn, inner, b0, crate):
    """the same walk, written as `order(scope).find_map(|s| table.get(&s)?.inner(ty))` where `order` is a `from_fn` over a FIFO:
    -> True if this form was recognised (and the obligation emitted)"""
    from ..inline import inlined, closures_of
    SG = A + 'user_components::scope_graph::ScopeId::'
    b = inlined(ctx.fb, b0, keep={inner})
    cls = closures_of(ctx.fb, b)
    prod = [x for x in cls if any((callee(t) or '').endswith('VecDeque::pop_front') for _, t in x.calls())]
    cons = [x for x in cls if any(callee(t) == inner for _, t in x.calls())]
    ff = [(bb, t) for bb, t in b.calls() if callee(t) == 'core::iter::sources::from_fn::from_fn']
    fm = [(bb, t) for bb, t in b.calls() if callee(t) in ('core::iter::traits::iterator::Iterator::find_map',)]
    if len(prod) != 1 or len(cons) != 1 or not ff or len(fm) != 1:
        return False
    P, C = prod[0], cons[0]
    name = fn.split('::')[-2] + '::' + fn.split('::')[-1]
    dP = Defs(P)
    # producer: pops the front, extends with the direct parents of what it popped, yields what it popped
    qops = sorted({callee(t).split('::')[-1] for x in [b, P] for _, t in x.calls() if 'VecDeque' in (t['aty'][0] if t['aty'] else '')
                   and callee(t).split('::')[-1] in ('pop_front', 'pop_back', 'push_front', 'push_back')})
    chi = [1 for x in [b, P, C] for _, t in x.calls() if callee(t) in (SG + 'direct_children_ids', SG + 'descendant_ids', SG + 'children_ids')]
    ext = [(bb, t) for bb, t in P.calls() if (callee(t) or '').endswith('::extend') and 'VecDeque' in t['aty'][0]]
    from_parents = bool(ext) and all((SG + 'direct_parent_ids') in {c for c, _, _ in slice_calls(backward_slice(P, op_place(t['args'][1])['l'], dP)[0])} for _, t in ext)
    pops = [t for _, t in P.calls() if (callee(t) or '').endswith('VecDeque::pop_front')]
    popped = forward_derived(P, {pops[0]['dest']['l']}, through_calls=True) if pops else set()
    yields_popped = False
    for bb, j, st in P.all_assigns():
        if st['lhs'] == {'l': 0} and st['rv']['k'] == 'agg' and st['rv'].get('var') == 'Some':
            q = op_place(st['rv']['ops'][0])
            yields_popped = q is not None and q['l'] in popped
    parents_of_popped = bool(ext) and all(op_place(n['args'][0]) is not None and op_place(n['args'][0])['l'] in popped
                                          for _, t in ext for c, _, n in slice_calls(backward_slice(P, op_place(t['args'][1])['l'], dP)[0]) if c == SG + 'direct_parent_ids')
    # the queue starts with the requesting scope only
    db = Defs(b)
    SCOPE = A + 'user_components::scope_graph::ScopeId'
    params = {i for i in range(1, b.raw['argc'] + 1) if b.locals[i] == SCOPE}
    starts = []
    for bb, t in b.calls():
        c = callee(t) or ''
        if 'VecDeque' in str(t.get('ga', '')) + (t['aty'][0] if t['aty'] else '') + b.locals[t['dest']['l']] and c.split('::')[-1] in ('from', 'push_back', 'from_iter') \
                and 'VecDeque' in b.locals[t['dest']['l']] + (t['aty'][0] if t['aty'] else ''):
            a = t['args'][-1]
            q = op_place(a)
            _, locs = backward_slice(b, q['l'], db) if q else ([], set())
            starts.append(bool(locs & params))
    current_first = bool(starts) and all(starts)
    # consumer: find_map over the producer, in order, nothing dropped or reordered on the way
    rsl, _ = backward_slice(b, op_place(fm[0][1]['args'][0])['l'], db)
    rcalls = [c for c, _, _ in slice_calls(rsl)]
    in_order = 'core::iter::sources::from_fn::from_fn' in rcalls and not [c for c in rcalls if c.startswith('core::iter::traits::') and c.split('::')[-1] in
                                                                            ('rev', 'skip', 'skip_while', 'step_by', 'filter', 'take', 'take_while', 'chain', 'zip', 'peekable')]
    # a miss in a scope continues: the closure yields the inner lookup's result, or None when the scope has no table
    dC = Defs(C)
    lk = [t for _, t in C.calls() if callee(t) == inner][0]
    der = forward_derived(C, {lk['dest']['l']})
    rets_inner = any(st['lhs'] == {'l': 0} and st['rv']['k'] == 'use' and op_place(st['rv']['op']) and op_place(st['rv']['op'])['l'] in der for _, _, st in C.all_assigns()) \
        or lk['dest'] == {'l': 0}
    other_somes = [1 for _, _, st in C.all_assigns() if st['lhs'] == {'l': 0} and st['rv']['k'] == 'agg' and st['rv'].get('var') == 'Some']
    miss_ok = rets_inner and not other_somes
    # the function's result is the find_map's result
    res_sl, _ = backward_slice(b, 0, db)
    in_walk = any(n is fm[0][1] for _, _, n in res_sl) and not [1 for _, _, st in b.all_assigns() if st['lhs'] == {'l': 0} and st['rv']['k'] == 'agg' and st['rv'].get('var') == 'Some']
    ok = not chi and from_parents and parents_of_popped and yields_popped and qops == ['pop_front'] + ([] if 'push_back' not in qops else ['push_back']) \
        and current_first and in_order and miss_ok and in_walk
    ctx.ob(rule, 'scope-walk|%s' % name, ok, b.loc(fm[0][0]),
           '(iterator form) current scope first: %s; parents only: %s (children consulted: %s); FIFO: %s, yields every scope it pops: %s; consumed in order by find_map: %s; '
           'a miss in a scope always continues to its parents: %s; every result is produced inside the walk: %s'
           % (current_first, from_parents and parents_of_popped, bool(chi), qops, yields_popped, in_order, miss_ok, in_walk))
    return True


def scope_lookup_shape(ctx, rule, fn, inner, crate='pavexc'):
    """shape of a scope-walking lookup: FIFO from the requesting scope, current scope first, parents only, and a miss in a scope
    (absent table OR no match in the table) always continues to the parents"""
    SG = A + 'user_components::scope_graph::ScopeId::'
    b = ctx.need(rule, fn.split('::')[-2] + '::' + fn.split('::')[-1], ctx.fb.body(crate, fn))
    if b is None:
        return
    if not [1 for bb, t in b.calls() if callee(t) == inner]:
        # the walk may be written as an iterator of scopes (`from_fn` over a FIFO) consumed by `find_map`
        if _scope_lookup_iterator_form(ctx, rule, fn, inner, b, crate):
            return
    from ..inline import inlined
    # .. or drive a cursor over the scope graph (`order.advance(graph)`): the cursor's steps are part of the walk
    b0_ = b
    b = inlined(ctx.fb, b, keep={inner}, also=lambda cb: '::scope_graph::' in cb.nid and '::ScopeId::' not in cb.nid and len(cb.blocks) <= 60,
                only=lambda cb: ('::scope_graph::' in cb.nid and '::ScopeId::' not in cb.nid) or cb.file == b0_.file)
    defs = Defs(b)
    look = [(bb, t) for bb, t in b.calls() if callee(t) == inner]
    ext = [(bb, t) for bb, t in b.calls() if (callee(t) or '').endswith('::extend') and 'VecDeque' in t['aty'][0]]
    chi = [bb for bb, t in b.calls() if callee(t) in (SG + 'direct_children_ids', SG + 'descendant_ids', SG + 'children_ids')]
    pops = sorted({callee(t).split('::')[-1] for bb, t in b.calls() if 'VecDeque' in (t['aty'][0] if t['aty'] else '') and callee(t).split('::')[-1] in ('pop_front', 'pop_back', 'push_front', 'push_back')})
    from_parents = False
    for bb, t in ext:
        pl = op_place(t['args'][1])
        sl, _ = backward_slice(b, pl['l'], defs)
        from_parents = (SG + 'direct_parent_ids') in {c for c, _, _ in slice_calls(sl)}
    maps = [bb for bb, t in b.calls() if (callee(t) or '').split('::')[-1] in ('get', 'get_mut') and any(k in t['aty'][0] for k in ('HashMap', 'IndexMap', 'BTreeMap'))]
    order = bool(maps) and bool(ext) and all(b.dominates(maps[0], e) for e, _ in ext)
    if not order and maps and ext:
        # the parents may be enqueued as soon as a scope is popped (a cursor does that): what matters is that the scope looked up is the one
        # that was popped, and that the queue started with the requesting scope
        pops0 = [t for bb, t in b.calls() if 'VecDeque' in (t['aty'][0] if t['aty'] else '') and (callee(t) or '').endswith('pop_front')]
        popped = forward_derived(b, {pops0[0]['dest']['l']}, through_calls=True) if pops0 else set()
        key_ok = all(op_place(b.term(m)['args'][1]) is not None and op_place(b.term(m)['args'][1])['l'] in popped for m in maps)
        SCOPE = A + 'user_components::scope_graph::ScopeId'
        params = {i for i in range(1, b.raw['argc'] + 1) if b.locals[i] == SCOPE}
        starts = []
        for bb, t in b.calls():
            if 'VecDeque' in (t['aty'][0] if t['aty'] else '') and (callee(t) or '').split('::')[-1] == 'push_back' and not (bb in b.reachable(b.succ(bb))):
                q = op_place(t['args'][1])
                _, locs = backward_slice(b, q['l'], defs) if q else ([], set())
                starts.append(bool(locs & params))
        order = key_ok and bool(starts) and all(starts)
    # a miss continues: the only returns inside the loop are under the Some edge of the inner lookup's result
    miss_ok = False
    if look and ext:
        lb, lt = look[0]
        der = forward_derived(b, {lt['dest']['l']})
        some_targets, none_targets = [], []
        for sb in b.live_blocks():
            w = b.term(sb)
            if w and w['k'] == 'switch' and strip_generics(w.get('enum', '')) == 'core::option::Option' and w['src']['l'] in der:
                e = switch_edges(w)
                some_targets.append(e.get('Some'))
                none_targets.append(e.get('None', w['else']))
        # `if x.is_some() { return x }` is the same test written with a bool
        for cbb, ct in b.calls():
            if callee(ct) in ('core::option::Option::is_some', 'core::option::Option::is_none') and op_place(ct['args'][0]) is not None \
                    and op_place(ct['args'][0])['l'] in der and not ct['dest'].get('p'):
                bder = forward_derived(b, {ct['dest']['l']})
                for sb in b.live_blocks():
                    w = b.term(sb)
                    if w and w['k'] == 'switch' and 'enum' not in w and op_place(w['d']) is not None and op_place(w['d'])['l'] in bder and len(w['ts']) == 1:
                        t_edge, f_edge = w['else'], w['ts'][0][1]
                        if callee(ct).endswith('is_none'):
                            t_edge, f_edge = f_edge, t_edge
                        some_targets.append(t_edge)
                        none_targets.append(f_edge)
        rets = set(b.return_blocks())
        eb = ext[0][0]
        popb0 = [bb for bb, t in b.calls() if 'VecDeque' in (t['aty'][0] if t['aty'] else '') and (callee(t) or '').endswith('pop_front')]
        # a miss never ends the walk by itself: from the None edge (and from "no table for this scope") every way to a return goes back to the
        # queue first (through the extension, or — when the parents were enqueued as the scope was popped — through the next pop)
        back = [eb] + popb0
        miss_ok = bool(none_targets) and all(not (b.reachable(n_, avoid=back) & rets) for n_ in none_targets if n_ is not None)
        # and the inner lookup's value is never returned without that Some test
        miss_ok = miss_ok and not (b.reachable(b.succ(lb), avoid=[s for s in some_targets if s is not None] + back) & rets)
        # and every scope that is popped and not a hit has its parents enqueued before the next one is popped
        if popb0:
            pder = forward_derived(b, {b.term(popb0[0])['dest']['l']}, through_calls=True)
            succ_edges = []
            for sb in b.live_blocks():
                w = b.term(sb)
                if w and w['k'] == 'switch' and strip_generics(w.get('enum', '')) in ('core::option::Option', 'core::ops::control_flow::ControlFlow') \
                        and w['src']['l'] in pder and b.dominates(popb0[0], sb):
                    e = switch_edges(w)
                    succ_edges.append((sb, e.get('Some', e.get('Continue'))))
            # the test closest to the pop decides whether a scope was obtained
            succ_edges = [x for x in succ_edges if x[1] is not None and not any(b.dominates(y[0], x[0]) and y[0] != x[0] for y in succ_edges)]
            miss_ok = miss_ok and bool(succ_edges) and all(popb0[0] not in b.reachable(tg, avoid=[eb]) for _, tg in succ_edges)
        else:
            miss_ok = False
    # nothing is returned before the walk starts: every Some(..) result is produced inside the loop
    popb = [bb for bb, t in b.calls() if 'VecDeque' in (t['aty'][0] if t['aty'] else '') and (callee(t) or '').endswith('pop_front')]
    somes = [bb for bb, j, st in b.all_assigns() if st['lhs'] == {'l': 0} and st['rv']['k'] == 'agg' and st['rv'].get('var') == 'Some']
    other_results = [bb for bb, t in b.calls() if t.get('dest') == {'l': 0} and not (popb and b.dominates(popb[0], bb))]
    in_walk = bool(popb) and all(b.dominates(popb[0], sb) for sb in somes) and not other_results
    # the queue starts as [the requesting scope]: `new()` + `push_back(scope)` before the loop, or `VecDeque::from([scope])` / `from_iter`
    SCOPE_ = A + 'user_components::scope_graph::ScopeId'
    params_ = {i for i in range(1, b.raw['argc'] + 1) if b.locals[i] == SCOPE_}
    seeds_ = []
    for bb, t in b.calls():
        c_ = callee(t) or ''
        d_ = t.get('dest')
        if 'VecDeque' in (t['aty'][0] if t['aty'] else '') and c_.split('::')[-1] == 'push_back' and bb not in b.reachable(b.succ(bb)):
            q = op_place(t['args'][1])
        elif c_.split('::')[-1] in ('from', 'from_iter') and d_ is not None and not d_.get('p') and 'VecDeque<' in b.locals[d_['l']] and bb not in b.reachable(b.succ(bb)):
            q = op_place(t['args'][0])
        else:
            continue
        _, locs_ = backward_slice(b, q['l'], defs) if q else ([], set())
        seeds_.append(bool(locs_ & params_))
    seeded = bool(seeds_) and all(seeds_)
    fifo = 'pop_front' in pops and set(pops) <= {'pop_front', 'push_back'}
    ok = bool(look) and bool(ext) and not chi and from_parents and order and fifo and seeded and miss_ok and in_walk
    ctx.ob(rule, 'scope-walk|%s' % (fn.split('::')[-2] + '::' + fn.split('::')[-1]), ok, b.loc(look[0][0]) if look else b.loc(),
           'current scope first: %s (the queue starts as [the requesting scope]: %s); parents only: %s (children consulted: %s); FIFO: %s; a miss in a scope always continues to its parents: %s; '
           'every result is produced inside the walk (no lookup across all ancestors before it): %s'
           % (order, seeded, from_parents, bool(chi), pops, miss_ok, in_walk))


def concrete_before_templated(ctx, rule, fn, getter, crate='pavexc'):
    """per-scope lookup: the exact (concrete) entry is consulted first, and wins; the templated entries are only searched when it is absent"""
    b = ctx.need(rule, fn.split('::')[-2] + '::' + fn.split('::')[-1], ctx.fb.body(crate, fn))
    if b is None:
        return
    from ..inline import inlined
    b = inlined(ctx.fb, b, keep={getter})      # the templated search may live in a private helper
    gets = [bb for bb, t in b.calls() if callee(t) == getter]
    templ = [bb for bb, t in b.calls() if (callee(t) or '').split('::')[-1] in ('find_map', 'find', 'filter_map', 'position', 'any')
             or (callee(t) or '').endswith('is_a_template_for')]
    for x in ctx.fb.bodies_of_item(crate, fn):
        if x is not b and any((callee(t) or '').endswith('is_a_template_for') for _, t in x.calls()):
            # the search over the templated entries lives in a closure: its call site is the adaptor above
            pass
    ok = bool(gets) and bool(templ) and all(b.dominates(gets[0], tb) for tb in templ)
    # and a concrete hit returns: the Some edge of the first `get` reaches a return without passing the templated search
    hit_returns = False
    if gets:
        t = b.term(gets[0])
        der = forward_derived(b, {t['dest']['l']})
        for sb in b.live_blocks():
            w = b.term(sb)
            if w and w['k'] == 'switch' and strip_generics(w.get('enum', '')) == 'core::option::Option' and w['src']['l'] in der:
                st = switch_edges(w).get('Some')
                if st is not None and (b.reachable(st, avoid=templ) & set(b.return_blocks())) and not (set(templ) & b.reachable(st, avoid=list(b.return_blocks()))):
                    hit_returns = True
    ctx.ob(rule, 'concrete-first|%s' % (fn.split('::')[-2] + '::' + fn.split('::')[-1]), ok and hit_returns, b.loc(gets[0]) if gets else b.loc(),
           'the exact entry is looked up before the templated ones are searched (%s) and a hit is returned without consulting them (%s): a handler or '
           'constructor registered for exactly this type is never replaced by a specialised generic one' % (ok, hit_returns))


def own_scope_everywhere(ctx, rule):
    """_process_blueprint hands its own scope (its ScopeId parameter, or a scope it has just created under it) to every registration helper
    of the blueprint module; nothing is registered against the root scope from inside a nested blueprint"""
    b = ctx.need(rule, '_process_blueprint', ctx.fb.body('pavexc', BP + '_process_blueprint'))
    if b is None:
        return
    defs = Defs(b)
    SCOPE = 'pavexc::compiler::analyses::user_components::scope_graph::ScopeId'
    params = {i for i in range(1, b.raw['argc'] + 1) if b.locals[i] == SCOPE}
    if not ctx.need(rule, 'ScopeId parameter of _process_blueprint', params):
        return
    n = 0
    for bb, t in b.calls():
        c = strip_generics(callee(t) or '')
        if not c.startswith(BP) or c == BP + '_process_blueprint':
            continue
        for a, ty in zip(t['args'], t['aty']):
            if ty != SCOPE:
                continue
            n += 1
            pl = op_place(a)
            sl, locs = backward_slice(b, pl['l'], defs) if pl else ([], set())
            calls = {x for x, _, _ in slice_calls(sl)}
            own = bool(locs & params) or any(x.endswith('ScopeGraphBuilder::add_scope') for x in calls)
            root = any(x.endswith('::root_scope_id') for x in calls)
            ctx.ob(rule, 'own-scope|%s' % c.replace(BP, ''), own and not root, b.loc(bb, t),
                   '%s is given %s' % (c.replace(BP, ''), 'the scope of the blueprint being processed' if own and not root else
                                       'a scope that does not derive from the current blueprint (%s)' % sorted(x.split('::')[-1] for x in calls if 'scope' in x.lower())))
    ctx.floor(rule, 'scope arguments handed to registration helpers', n, 8)


def vec_append_only(ctx, rule, crate, fn, elem_marker, what):
    """a result list is only ever pushed to: no retain / dedup / remove / truncate (dropping an element silently drops a registration)"""
    bad_ops = {'retain', 'retain_mut', 'dedup', 'dedup_by', 'dedup_by_key', 'remove', 'swap_remove', 'truncate', 'pop', 'drain', 'clear', 'split_off'}
    n = 0
    for b in ctx.fb.bodies_of_item(crate, fn):
        for bb, t in b.calls():
            if t['aty'] and t['aty'][0].startswith('&mut alloc::vec::Vec<') and elem_marker in t['aty'][0]:
                m = (callee(t) or '').split('::')[-1]
                n += 1
                if m in bad_ops:
                    ctx.ob(rule, 'list-mutation|%s|%s' % (fn.split('::')[-1], m), False, b.loc(bb, t), 'Vec::%s on %s in %s: entries can disappear' % (m, what, fn.split('::')[-1]))
    ctx.ob(rule, 'append-only|%s' % fn.split('::')[-1], True, '', '%d mutable accesses to %s, none removes' % (n, what), nontrivial=False)
    ctx.floor(rule, 'mutable accesses to %s' % what, n, 1)


def chain_recorded_per_handler(ctx, rule, map_field, what):
    """every insert into `<aux>.<map_field>` in the user_components module stores a value that derives from a chain the registering function
    was HANDED (a parameter / the queue item) and from nothing the module has stored before (no field of AuxiliaryData / UserComponentDb)"""
    from ..govern import field_reads_of_slice
    UC = A + 'user_components::'
    STATE = ('auxiliary::AuxiliaryData', 'db::UserComponentDb')
    n = 0
    for b in ctx.fb.bodies('pavexc'):
        if b.is_promoted or not b.nroot.startswith(UC):
            continue
        defs = None
        for bb, t in b.calls():
            m = (callee(t) or '').split('::')[-1]
            if m not in ('insert', 'entry', 'extend', 'push') or not t['args']:
                continue
            recv = op_place(t['args'][0])
            if recv is None:
                continue
            defs = defs or Defs(b)
            rsl, _ = backward_slice(b, recv['l'], defs, through_calls=False)
            hit = False
            for _, _, node in rsl:
                q = node.get('rv', {}).get('pl') if 'rv' in node else None
                if q and ('f:' + map_field) in q.get('p', []):
                    hit = True
            if not hit:
                continue
            n += 1
            val = op_place(t['args'][-1])
            fn = b.nroot.replace(UC, '')
            if val is None or m != 'insert':
                ctx.ob(rule, 'per-handler-chain|%s|%s' % (fn, map_field), False, b.loc(bb, t), '%s.%s is written through `%s`, whose value cannot be followed' % (fn, map_field, m))
                continue
            sl, locs = backward_slice(b, val['l'], defs)
            params = sorted(b.var_name(l) or '_%d' % l for l in locs if 1 <= l <= b.raw['argc'] and 'UserComponent>' in b.locals[l] and not b.locals[l].startswith('la_arena'))
            stored = set()
            for _, _, node in sl:
                places = []
                if 'rv' in node:
                    from ..flow import rv_operands
                    ops, pls = rv_operands(node['rv'])
                    places = pls + [op_place(o) for o in ops if op_place(o) is not None]
                elif node.get('k') == 'call':
                    places = [op_place(o) for o in node['args'] if op_place(o) is not None]
                for q in places:
                    fo = q.get('fo') or []
                    i = 0
                    for el in q.get('p', []):
                        if el.startswith('f:'):
                            o = fo[i] if i < len(fo) else ''
                            i += 1
                            if any(s in o for s in STATE):
                                stored.add(el[2:])
            # chains kept in a local of the function itself (the queue item of process_blueprint) count as handed over
            own = sorted(b.var_name(l) for l in locs if b.var_name(l) and 'chain' in (b.var_name(l) or ''))
            ok = bool(params or own) and not stored
            ctx.ob(rule, 'per-handler-chain|%s|%s' % (fn, map_field), ok, b.loc(bb, t),
                   '%s records the %s of a handler from the chain it was handed (%s)%s' % (
                       fn, what, ', '.join(params or own) or 'none found', '' if not stored else ' — NO: the stored value also depends on state kept across handlers: ' + ', '.join(sorted(stored))))
    ctx.floor(rule, 'sites recording the %s of a handler' % what, n, 1)
