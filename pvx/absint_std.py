"""Reusable semantics for pvx.absint: the Option / Result / ControlFlow algebra over tags, closures, crate-local callees.

Tags (strings attached to whole locals, per path):
    opt:Some / opt:None        res:Ok / res:Err        cf:Continue / cf:Break
Everything else is a domain tag of the rule that subclasses `StdSem`.

A rule subclasses StdSem and overrides
    domain_call(interp, path, body, bb, term, short)  -> None (not mine) | list of ('next', path) / ('panic', path, msg)
    domain_switch(interp, path, body, bb, term, enum) -> None | list of variant names
    domain_assign(interp, path, body, bb, st)         -> None | tag for the assigned whole local
    descend_into(short)                               -> bool: interpret this crate-local callee (arguments' tags are passed to its parameters)
so that the same rule is indifferent to whether the code under analysis says `match x { Some(v) => .., None => .. }`,
`let Some(v) = x else { .. }`, `x.filter(..).ok_or_else(..)`, `x.map(..).unwrap_or(..)`, `x?`, or moves the logic into a helper.
"""
from .absint import Semantics, Interp, closure_upvars
from .facts import callee, op_place, strip_generics

OPT, RES, CF = 'core::option::Option', 'core::result::Result', 'core::ops::control_flow::ControlFlow'

PRESERVE = {'map', 'as_ref', 'as_mut', 'as_deref', 'as_deref_mut', 'cloned', 'copied', 'inspect', 'map_err', 'inspect_err', 'clone', 'to_owned',
            'borrow', 'borrow_mut', 'deref', 'deref_mut', 'into', 'from', 'as_slice', 'as_str', 'context', 'with_context'}
FUTURE_GLUE = {'core::future::into_future::IntoFuture::into_future', 'core::pin::Pin::new_unchecked', 'core::pin::Pin::new', 'tracing::instrument::Instrument::instrument',
               'tracing::instrument::Instrument::in_current_span'}


class TagInterp(Interp):
    """Interp + tagging of whole-local assignments decided by the semantics (installed after the generic bookkeeping)"""

    def _stmt(self, path, body, bb, st, upvars):
        self.sem._pending = None
        self.sem._pending_pay = None
        super()._stmt(path, body, bb, st, upvars)
        if self.sem._pending_pay is not None:
            k, v = self.sem._pending_pay
            path.pay[k] = v
            self.sem._pending_pay = None
        # tuples: `t = (a, b)` remembers the tags of its fields, `x = t.i` gets field i's tag back (one level)
        lhs, rv = st.get('lhs'), st.get('rv')
        if lhs is not None and rv is not None and not lhs.get('p'):
            base = (body.id, lhs['l'])
            for k in [k for k in path.tags if len(k) == 3 and k[:2] == base]:
                del path.tags[k]
            if rv['k'] == 'agg' and rv.get('ak') == 'tuple':
                for i, o in enumerate(rv['ops']):
                    pl = op_place(o)
                    if pl is not None and not pl.get('p') and (body.id, pl['l']) in path.tags:
                        path.tags[base + (i,)] = path.tags[(body.id, pl['l'])]
            elif rv['k'] == 'use' and op_place(rv['op']) is not None and (op_place(rv['op']).get('p') or []) == ['d:Ready', 'f:0'] \
                    and str(path.tags.get((body.id, op_place(rv['op'])['l']), '')).startswith('poll:'):
                path.tags[base] = path.tags[(body.id, op_place(rv['op'])['l'])][5:]      # `x.await`: the value of the awaited call
            elif rv['k'] == 'use':
                src = op_place(rv['op'])
                if src is not None and len(src.get('p') or []) == 1 and src['p'][0].startswith('f:') and src['p'][0][2:].isdigit():
                    t = path.tags.get((body.id, src['l'], int(src['p'][0][2:])))
                    if t is not None:
                        path.tags[base] = t
        if self.sem._pending is not None:
            k, tag = self.sem._pending
            if tag is None:
                path.tags.pop(k, None)
            else:
                path.tags[k] = tag
            self.sem._pending = None
        # enum variants with fields (`Outcome::Completed { rows_affected }`): what is known about each field travels with the value and comes
        # back when the field is read in a match arm
        if lhs is not None and rv is not None and not lhs.get('p'):
            base = (body.id, lhs['l'])
            stores = (path.tags, path.num, path.memo)
            for d_ in stores:
                for k_ in [k_ for k_ in d_ if isinstance(k_, tuple) and len(k_) == 4 and k_[:2] == base and k_[2] == 'vf']:
                    del d_[k_]
            src = op_place(rv['op']) if rv['k'] == 'use' else (rv.get('pl') if rv['k'] in ('ref', 'cfd') else None)
            if rv['k'] == 'agg' and rv.get('ak') == 'adt' and rv.get('ops') and str(path.tags.get(base, '')).startswith('evf:'):
                names = rv.get('fields') or []
                for i, o in enumerate(rv['ops']):
                    keys = [i] + ([names[i]] if i < len(names) else [])
                    pl = op_place(o)
                    vals = {}
                    if pl is not None and not pl.get('p'):
                        sk = (body.id, pl['l'])
                        if sk in path.tags:
                            vals[0] = path.tags[sk]
                        if sk in path.num:
                            vals[1] = path.num[sk]
                        if body.locals[pl['l']] == 'bool':
                            v = self.bool_value(path, body, pl['l'])[0]
                            if v is not None:
                                vals[2] = v
                    elif isinstance(o, dict) and 'int' in o:
                        if o.get('ty') == 'bool':
                            vals[2] = o['int'] != '0'
                        else:
                            vals[1] = '0' if o['int'] == '0' else '+'
                    for kk in keys:
                        for j, v in vals.items():
                            stores[j][base + ('vf', kk)] = v
            elif src is not None and all(e == '*' for e in src.get('p', [])):
                sk = (body.id, src['l'])
                for d_ in stores:
                    for k_, v in [(k_, v) for k_, v in d_.items() if isinstance(k_, tuple) and len(k_) == 4 and k_[:2] == sk and k_[2] == 'vf']:
                        d_[base + k_[2:]] = v
            elif src is not None:
                pp = [e for e in src.get('p', []) if e != '*']
                if len(pp) == 2 and pp[0].startswith('d:') and pp[1].startswith('f:'):
                    f = pp[1][2:]
                    for kk in ([int(f)] if f.isdigit() else []) + [f]:
                        sk = (body.id, src['l'], 'vf', kk)
                        if sk in path.tags:
                            path.tags[base] = path.tags[sk]
                        if sk in path.num:
                            path.num[base] = path.num[sk]
                        if sk in path.memo and body.locals[lhs['l']] == 'bool':
                            path.memo[base] = path.memo[sk]


class StdSem(Semantics):
    crate = None          # crate whose local functions may be entered
    max_depth = 5

    def __init__(self, fb):
        self.fb = fb
        self._pending = None
        self._pending_pay = None
        self.depth = 0
        self.unknown = []
        self._exec = {}

    # ---- to be overridden ---------------------------------------------------------------------------------------------
    def domain_call(self, interp, path, body, bb, term, short):
        return None

    def domain_switch(self, interp, path, body, bb, term, enum):
        return None

    def domain_assign(self, interp, path, body, bb, st):
        return None

    def descend_into(self, short):
        return False

    # ---- helpers ------------------------------------------------------------------------------------------------------
    @staticmethod
    def whole(pl):
        return pl is not None and all(e == '*' for e in pl.get('p', []))

    def arg_tag(self, path, body, term, i):
        if len(term['args']) <= i:
            return None
        if 'fn' in term['args'][i]:
            return 'fn:' + strip_generics(term['args'][i]['fn'])     # a function handed over as a value
        pl = op_place(term['args'][i])
        if not self.whole(pl):
            return None
        return path.tags.get((body.id, pl['l']))

    def promoted_variant(self, body, op):
        owner = op.get('powner') or body.id
        pid = '%s::{promoted#%d}' % (owner, int(op['promoted']))
        key = ('pv', pid)
        if key not in self._exec:
            tag = None
            ct = body.raw.get('ctype') or 'Rlib'
            for x in self.fb.bodies(body.crate, ct):
                if x.id == pid:
                    aggs = [st['rv'] for _, _, st in x.all_assigns() if st['rv']['k'] == 'agg' and st['rv'].get('ak') == 'adt']
                    if len(aggs) == 1 and not aggs[0].get('ops') and self.variant_index(strip_generics(aggs[0]['adt']), aggs[0]['var']) is not None:
                        tag = 'ev:%s::%s' % (strip_generics(aggs[0]['adt']), aggs[0]['var'])
            self._exec[key] = tag
        return self._exec[key]

    def variant_index(self, adt, var):
        key = ('vi', adt)
        if key not in self._exec:
            tab = None
            cr = adt.split('::')[0]
            for ct in ('Rlib', 'ProcMacro', 'Executable'):
                if (cr, ct) in self.fb.available():
                    a = self.fb.adt(cr, adt, ct)
                    if a is not None and a.get('variants') and len(a['variants']) > 1:
                        tab = {v['n'] if 'n' in v else v.get('name'): i for i, v in enumerate(a['variants'])}
                    break
            self._exec[key] = tab
        tab = self._exec[key]
        return tab.get(var) if tab else None

    def op_bool(self, interp, path, body, op):
        """known bool value of an operand (constant, or a whole bool local decided on this path)"""
        if op is None:
            return None
        if 'int' in op and op.get('ty', 'bool') == 'bool':
            return op['int'] != '0'
        pl = op_place(op)
        if self.whole(pl) and body.locals[pl['l']] == 'bool':
            return interp.bool_value(path, body, pl['l'])[0]
        return None

    def arg_pay(self, path, body, term, i):
        if len(term['args']) <= i:
            return None
        pl = op_place(term['args'][i])
        if not self.whole(pl):
            return None
        return path.pay.get((body.id, pl['l']))

    def exec_body(self, name):
        if name not in self._exec:
            bodies = self.fb.bodies_of_item(self.crate, name) if self.crate else []
            co = [b for b in bodies if b.is_coroutine and b.nid == name + '::{closure#0}']
            fn = [b for b in bodies if b.nid == name]
            self._exec[name] = co[0] if co else (fn[0] if fn else None)
        return self._exec[name]

    def closure_body(self, interp, path, body, local):
        ups, cdef = closure_upvars(interp, path, body, local)
        if not cdef:
            return None, {}
        cands = [b for b in self.fb.bodies_of_item(body.crate, body.nroot) if b.id == cdef or b.nid == strip_generics(cdef)]
        return (cands[0] if cands else None), ups

    def run_closure(self, interp, path, body, term, arg_index, param_tags=()):
        """-> list of (path', returned tag, returned bool or None) — or None if the closure cannot be found"""
        pl = op_place(term['args'][arg_index]) if len(term['args']) > arg_index else None
        if not self.whole(pl):
            return None
        cb, ups = self.closure_body(interp, path, body, pl['l'])
        if cb is None:
            return None
        sub = path.fork()
        for i, t in enumerate(param_tags):
            if t is not None:
                sub.tags[(cb.id, 2 + i)] = t
        outs = []
        self.depth += 1
        try:
            for oc in interp.run(cb, None, upvars=ups, path=sub):
                if oc[0] != 'return':
                    outs.append((oc[1], 'panic', None))
                    continue
                p = oc[1]
                v, _, _ = interp.bool_value(p, cb, 0)
                outs.append((p, p.tags.get((cb.id, 0)), v))
        finally:
            self.depth -= 1
        return outs

    # ---- hooks --------------------------------------------------------------------------------------------------------
    def enum_switch(self, interp, path, body, bb, term, enum):
        r = self.domain_switch(interp, path, body, bb, term, enum)
        if r is not None:
            return r
        src0 = term.get('src')
        tag0 = path.tags.get((body.id, src0['l'])) if src0 and all(e == '*' for e in src0.get('p', [])) else None
        if tag0 and tag0.startswith('ev:' + enum + '::'):
            return [tag0[len('ev:' + enum + '::'):]]
        if tag0 and tag0.startswith('evf:' + enum + '::'):
            return [tag0[len('evf:' + enum + '::'):]]
        if enum in (OPT, RES, CF):
            src = term.get('src')
            tag = path.tags.get((body.id, src['l'])) if src and not src.get('p') else None
            pref = {OPT: 'opt:', RES: 'res:', CF: 'cf:'}[enum]
            if tag and tag.startswith(pref):
                return [tag[len(pref):]]
        return None

    def assign(self, interp, path, body, bb, st):
        lhs, rv = st['lhs'], st['rv']
        if lhs.get('p'):
            self.domain_assign(interp, path, body, bb, st)
            return
        k = (body.id, lhs['l'])
        t = self.domain_assign(interp, path, body, bb, st)
        if t is not None:
            self._pending = (k, t)
            return
        if rv['k'] == 'use' and isinstance(rv.get('op'), dict) and rv['op'].get('promoted') is not None:
            # `&Enum::Variant` as a promoted constant (the right-hand side of `x == Enum::Variant`)
            t = self.promoted_variant(body, rv['op'])
            if t:
                self._pending = (k, t)
                return
        if rv['k'] in ('use', 'cast') and isinstance(rv.get('op'), dict) and 'fn' in rv['op']:
            self._pending = (k, 'fn:' + strip_generics(rv['op']['fn']))      # `let f = is_json;` / a function item coerced to a pointer
            return
        if rv['k'] == 'agg' and rv.get('ak') == 'adt':
            adt = strip_generics(rv['adt'])
            if not rv.get('ops') and adt not in (OPT, RES, CF) and rv.get('var') and self.variant_index(adt, rv['var']) is not None:
                # a field-less variant of an enum: the value is the variant (`Level::Signed`); ordered comparisons and matches on it are decided
                self._pending = (k, 'ev:%s::%s' % (adt, rv['var']))
                return
            if rv.get('ops') and adt not in (OPT, RES, CF) and rv.get('var') and adt.split('::')[0] == (self.crate or '') and self.variant_index(adt, rv['var']) is not None:
                # a variant with fields of one of the crate's own enums: matches on it are decided, its fields keep what is known about them
                self._pending = (k, 'evf:%s::%s' % (adt, rv['var']))
                return
            if adt in (OPT, RES) and len(rv.get('ops', [])) == 1:
                v = self.op_bool(interp, path, body, rv['ops'][0])
                if v is not None:
                    self._pending_pay = (k, v)
            if adt == OPT:
                self._pending = (k, 'opt:' + rv['var'])
            elif adt == RES:
                self._pending = (k, 'res:' + rv['var'])
            elif adt == CF:
                self._pending = (k, 'cf:' + rv['var'])

    def call(self, interp, path, body, bb, term, name):
        if not name and term.get('fp') is not None:
            # a call through a function pointer whose target is known on this path (`check(headers, is_json)` .. `is_accepted(&mime)`)
            fpl = op_place(term['fp'])
            ft = path.tags.get((body.id, fpl['l'])) if fpl is not None and not fpl.get('p') else None
            if ft and ft.startswith('fn:'):
                name = ft[3:]
        if strip_generics(name or '') in ('core::ops::function::FnOnce::call_once', 'core::ops::function::FnMut::call_mut', 'core::ops::function::Fn::call') \
                and len(term['args']) == 2:
            # `f(&mime)` where `f: impl FnOnce(&Mime) -> bool` is a function of the crate handed over by the caller (`check(headers, is_json)`):
            # the call is a call of that function, with the elements of the argument tuple as its arguments
            f0 = op_place(term['args'][0])
            ft = path.tags.get((body.id, f0['l'])) if f0 is not None and all(e == '*' for e in f0.get('p', [])) else None
            if ft is None and 'fn' in term['args'][0]:
                ft = 'fn:' + strip_generics(term['args'][0]['fn'])
            tl = op_place(term['args'][1])
            if ft and ft.startswith('fn:') and tl is not None and not tl.get('p'):
                elems = None
                for blk in body.blocks:
                    for st in blk['st']:
                        if st.get('lhs') == {'l': tl['l']} and st['rv']['k'] == 'agg' and st['rv'].get('ak') == 'tuple':
                            elems = st['rv']['ops']
                if elems is not None:
                    term = dict(term)
                    term['args'] = list(elems)
                    term['aty'] = [None] * len(elems)
                    name = ft[3:]
        short = strip_generics(name)
        d = term.get('dest')
        dk = (body.id, d['l']) if d is not None and not d.get('p') else None

        def clear_dest():
            if dk is not None:
                path.alias.pop(dk, None)
                path.memo.pop(dk, None)
                path.tags.pop(dk, None)
                path.pay.pop(dk, None)

        r = self.domain_call(interp, path, body, bb, term, short)
        if r is not None:
            return r
        m = short.split('::')[-1]
        t0 = self.arg_tag(path, body, term, 0)
        p0 = self.arg_pay(path, body, term, 0)
        if short.startswith(('core::cmp::PartialOrd::', 'core::cmp::PartialEq::')) and m in ('lt', 'le', 'gt', 'ge', 'eq', 'ne') and t0 and t0.startswith('ev:'):
            t1 = self.arg_tag(path, body, term, 1)
            if t1 and t1.startswith('ev:') and t0.rsplit('::', 1)[0] == t1.rsplit('::', 1)[0]:
                adt = t0[3:].rsplit('::', 1)[0]
                i0, i1 = self.variant_index(adt, t0.rsplit('::', 1)[1]), self.variant_index(adt, t1.rsplit('::', 1)[1])
                clear_dest()
                if dk is not None and i0 is not None and i1 is not None:
                    path.memo[dk] = {'lt': i0 < i1, 'le': i0 <= i1, 'gt': i0 > i1, 'ge': i0 >= i1, 'eq': i0 == i1, 'ne': i0 != i1}[m]
                return [('next', path)]
        is_opt = short.startswith('core::option::Option::')
        is_res = short.startswith('core::result::Result::')
        if short in ('core::bool::{impl bool}::then', 'core::bool::{impl bool}::then_some') and len(term['args']) == 2:
            cond = self.op_bool(interp, path, body, term['args'][0])
            clear_dest()
            if dk is None:
                return [('next', path)]
            succ = []
            if cond is not True:
                pn = path.fork() if cond is None else path
                pn.tags[dk] = 'opt:None'
                succ.append(('next', pn))
            if cond is not False:
                ps = path.fork() if cond is None else path
                ps.tags[dk] = 'opt:Some'
                succ.append(('next', ps))
            return succ
        if short in FUTURE_GLUE and t0 and t0.startswith('fut:'):
            clear_dest()
            if dk is not None:
                path.tags[dk] = t0           # the future of a call whose outcome the rule decided: carried to its `.await`
            return [('next', path)]
        if short == 'core::future::future::Future::poll' and t0 and t0.startswith('fut:'):
            clear_dest()
            if dk is not None:
                path.tags[dk] = 'poll:' + t0[4:]
            return [('next', path)]
        if short == 'core::ops::try_trait::Try::branch':
            clear_dest()
            if dk is not None and p0 is not None:
                path.pay[dk] = p0
            if dk is not None and t0:
                if t0 in ('res:Ok', 'opt:Some'):
                    path.tags[dk] = 'cf:Continue'
                elif t0 in ('res:Err', 'opt:None'):
                    path.tags[dk] = 'cf:Break'
            return [('next', path)]
        if short.endswith('FromResidual::from_residual') or m == 'from_residual':
            clear_dest()
            if dk is not None:
                ty = body.locals[d['l']]
                path.tags[dk] = 'opt:None' if ty.startswith(OPT) else 'res:Err'
            return [('next', path)]
        if is_opt or is_res:
            clear_dest()
            if dk is None:
                return [('next', path)]
            some = t0 in ('opt:Some', 'res:Ok')
            none = t0 in ('opt:None', 'res:Err')
            if m in ('is_some', 'is_ok') and (some or none):
                path.memo[dk] = some
            elif m in ('is_none', 'is_err') and (some or none):
                path.memo[dk] = none
            elif m in PRESERVE and t0:
                path.tags[dk] = t0
                if p0 is not None and m not in ('map', 'map_err'):
                    path.pay[dk] = p0
            elif m in ('unwrap_or', 'unwrap_or_default', 'unwrap', 'expect', 'unwrap_or_else') and (some or none) and body.locals[d['l']] == 'bool':
                if some and p0 is not None:
                    path.memo[dk] = p0
                elif none and m == 'unwrap_or_default':
                    path.memo[dk] = False
                elif none and m == 'unwrap_or':
                    v = self.op_bool(interp, path, body, term['args'][1])
                    if v is not None:
                        path.memo[dk] = v
            elif m in ('ok_or', 'ok_or_else') and (some or none):
                path.tags[dk] = 'res:Ok' if some else 'res:Err'
            elif m == 'ok' and (some or none):
                path.tags[dk] = 'opt:Some' if some else 'opt:None'
            elif m == 'err' and (some or none):
                path.tags[dk] = 'opt:None' if some else 'opt:Some'
            elif m == 'or' and (some or none):
                path.tags[dk] = t0 if some else (self.arg_tag(path, body, term, 1) or None)
                if path.tags[dk] is None:
                    path.tags.pop(dk)
            elif m == 'and' and (some or none):
                if none:
                    path.tags[dk] = t0
                else:
                    t1 = self.arg_tag(path, body, term, 1)
                    if t1:
                        path.tags[dk] = t1
            elif m in ('filter', 'and_then', 'or_else', 'is_some_and', 'is_ok_and', 'is_none_or', 'map_or', 'map_or_else') and (some or none):
                pref = 'opt:' if is_opt else 'res:'
                if m == 'filter' and none:
                    path.tags[dk] = t0
                elif m == 'and_then' and none:
                    path.tags[dk] = t0
                elif m == 'or_else' and some:
                    path.tags[dk] = t0
                elif m in ('is_some_and', 'is_ok_and') and none:
                    path.memo[dk] = False
                elif m == 'is_none_or' and none:
                    path.memo[dk] = True
                elif m in ('filter', 'and_then', 'or_else', 'is_some_and', 'is_ok_and', 'is_none_or'):
                    outs = self.run_closure(interp, path, body, term, 1)
                    if outs is None:
                        return [('next', path)]
                    succ = []
                    for p, tag, val in outs:
                        if tag == 'panic':
                            succ.append(('panic', p, 'panic inside a closure'))
                            continue
                        if m == 'filter':
                            if val is not None:
                                p.tags[dk] = (pref + ('Some' if is_opt else 'Ok')) if val else 'opt:None'
                        elif m in ('and_then', 'or_else'):
                            if tag:
                                p.tags[dk] = tag
                        elif val is not None:
                            p.memo[dk] = val
                        succ.append(('next', p))
                    return succ
            return [('next', path)]
        if m in PRESERVE and t0 and (t0.startswith(('opt:', 'res:')) or self.preserves_domain_tag(short, t0)):
            clear_dest()
            if dk is not None:
                path.tags[dk] = t0
            return [('next', path)]
        if self.crate and short.startswith(self.crate + '::') and self.depth < self.max_depth and self.descend_into(short):
            cb = self.exec_body(short)
            if cb is not None:
                arg_tags = [self.arg_tag(path, body, term, i) for i in range(len(term['args']))]
                arg_bools = []
                for i in range(len(term['args'])):
                    pl = op_place(term['args'][i])
                    arg_bools.append(interp.bool_value(path, body, pl['l'])[0] if self.whole(pl) and body.locals[pl['l']] == 'bool' else None)
                clear_dest()
                sub = path.fork()
                for i, t in enumerate(arg_tags):
                    if t is not None:
                        sub.tags[(cb.id, 1 + i)] = t
                for i, v in enumerate(arg_bools):
                    if v is not None:
                        sub.memo[(cb.id, 1 + i)] = v
                for i in range(len(term['args'])):
                    pl_ = op_place(term['args'][i])
                    if self.whole(pl_) and (body.id, pl_['l']) in path.num:
                        sub.num[(cb.id, 1 + i)] = path.num[(body.id, pl_['l'])]        # counters travel with the call too
                    if self.whole(pl_):
                        for d0, d1 in ((path.tags, sub.tags), (path.num, sub.num), (path.memo, sub.memo)):
                            for k_, v_ in [(k_, v_) for k_, v_ in d0.items() if isinstance(k_, tuple) and len(k_) == 4 and k_[:2] == (body.id, pl_['l']) and k_[2] == 'vf']:
                                d1[(cb.id, 1 + i) + k_[2:]] = v_
                self.depth += 1
                try:
                    outs = interp.run(cb, None, path=sub)
                finally:
                    self.depth -= 1
                succ = []
                for oc in outs:
                    if oc[0] != 'return':
                        succ.append(('panic', oc[1], oc[2]))
                        continue
                    p = oc[1]
                    if dk is not None:
                        t = p.tags.get((cb.id, 0))
                        if t:
                            p.tags[dk] = t
                        for d0 in (p.tags, p.num, p.memo):
                            for k_, v_ in [(k_, v_) for k_, v_ in d0.items() if isinstance(k_, tuple) and len(k_) == 4 and k_[:2] == (cb.id, 0) and k_[2] == 'vf']:
                                d0[dk + k_[2:]] = v_
                        if (cb.id, 0) in p.num:
                            p.num[dk] = p.num[(cb.id, 0)]
                        v, _, _ = interp.bool_value(p, cb, 0)
                        if v is not None and body.locals[d['l']] == 'bool':
                            p.memo[dk] = v
                    succ.append(('next', p))
                return succ
        return None

    def preserves_domain_tag(self, short, tag):
        return False
