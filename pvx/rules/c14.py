"""C14 — A buffered request body never exceeds the configured size limit.

Decided clause: every BufferedBody is built from a `collect` whose receiver is `http_body_util::Limited` constructed with the
unmodified configured limit (or in the BodySizeLimit::Disabled arm); no other code buffers the raw body; the typed extractors
build on BufferedBody. Byte identity of the returned body is not decided.
"""
from ..facts import callee, op_place, strip_generics
from ..flow import Defs, backward_slice, slice_calls, slice_aggregates, rv_operands
from ..tables import guard_context

LEVEL = 'other'
TECHNIQUE = 'static analysis: provenance of BufferedBody.bytes (library limiter, or a hand-written budget loop checked by dominating comparisons and budget updates) on the function with sync/async helpers inlined; guard contexts; who-is-handed-the-raw-body by family'
CLAUSE = ('every construction of BufferedBody takes its bytes from a collect() over http_body_util::Limited::new(body, n) where n '
          'is the configured max_size passed through conversions only, or happens in the BodySizeLimit::Disabled arm; '
          'Enabled{max_size} always routes to the limited path with that max_size; nothing else in pavex buffers or polls the raw body.')
TRUSTED = ['http_body_util::Limited fails with LengthLimitError once more than n bytes were yielded',
           'http_body_util::BodyExt::collect / Collected::to_bytes concatenate the frames they were given']

CR = 'pavex'
BB = 'pavex::request::body::buffered_body::BufferedBody'
LIMIT = 'pavex::request::body::limit::BodySizeLimit'
COLLECT = 'http_body_util::BodyExt::collect'
CONVERSIONS = {'ubyte::byte_unit::ByteUnit::as_u64', 'core::convert::TryInto::try_into', 'core::result::Result::unwrap_or',
               'core::convert::Into::into', 'core::convert::From::from', 'core::convert::TryFrom::try_from',
               'core::result::Result::unwrap_or_else', 'core::clone::Clone::clone'}


def _arith_in_slice(sl):
    out = []
    for bb, j, node in sl:
        rv = node.get('rv')
        if rv and rv['k'] == 'bin' and rv['bop'] not in ('Eq', 'Ne', 'Lt', 'Le', 'Gt', 'Ge'):
            out.append((rv['bop'], node.get('ln')))
    return out


def _from_limited(body, defs, op):
    """does the value of this operand derive (by value flow) from the result of Limited::new?  -> the Limited::new call nodes in its slice"""
    pl = op_place(op)
    if pl is None:
        return []
    sl, _ = backward_slice(body, pl['l'], defs)
    return [n for c, _, n in slice_calls(sl) if c == 'http_body_util::limited::Limited::new']


APPENDERS = {'put', 'put_slice', 'extend_from_slice', 'extend', 'push', 'unsplit', 'put_bytes'}
SIZES = {'remaining', 'len', 'chunk_len', 'remaining_mut'}


def _budget_loop(ctx, body, defs, bytes_slice):
    """BufferedBody.bytes <- freeze(buffer); every append of a piece of data to the buffer happens on the `size <= remaining` edge of a comparison
    between the size of THAT data and a budget local; the budget is decreased by that size before the next piece is looked at; the budget
    starts as the max_size parameter (conversions only) and is assigned nowhere else. -> (ok, explanation)"""
    from ..arith import root_local, guarding_comparisons
    appends = [(bb, t) for bb, t in body.calls() if (callee(t) or '').split('::')[-1] in APPENDERS and t['aty'] and
               any(k in t['aty'][0] for k in ('BytesMut', 'Vec<u8>')) and bb in body.reachable(body.succ(bb))]
    if not appends:
        return False, 'no append to a byte buffer inside a loop was found'
    for ab, at in appends:
        data = root_local(body, defs, at['args'][1]) if len(at['args']) > 1 else None
        if data is None:
            return False, 'the appended value at %s is not a plain local' % body.loc(ab, at)
        # the size of that data
        sizes = []
        for sb, stt in body.calls():
            if (callee(stt) or '').split('::')[-1] in SIZES and stt['args']:
                q = op_place(stt['args'][0])
                _, locs = backward_slice(body, q['l'], defs, through_calls=False) if q else ([], set())
                if data in locs and not stt['dest'].get('p'):
                    sizes.append(stt['dest']['l'])
        if not sizes:
            return False, 'the size of the data appended at %s is never taken' % body.loc(ab, at)
        found = None
        for n in sizes:
            # budget candidates: locals compared with n
            for cand in range(len(body.locals)):
                if body.locals[cand] not in ('usize', 'u64'):
                    continue
                for sb, good, bad in guarding_comparisons(body, defs, cand, n):
                    if body.dominates(sb, ab) and ab not in body.reachable(bad, avoid=[sb]):
                        found = (n, cand, sb, good)
        if found is None:
            return False, 'the append at %s is not guarded by a comparison between the size of the appended data and a budget' % body.loc(ab, at)
        n, rem, sb, good = found
        # the budget is decreased by n on every way back to the comparison
        upd = []
        for xb, j, st in body.all_assigns():
            if st['lhs'] == {'l': rem} and st['rv']['k'] == 'use':
                q = op_place(st['rv']['op'])
                if q is not None and q.get('p') == ['f:0']:
                    ds = defs.full.get(q['l'], [])
                    if len(ds) == 1 and 'rv' in ds[0][2] and ds[0][2]['rv']['k'] == 'bin' and ds[0][2]['rv']['bop'] in ('SubWithOverflow', 'Sub', 'SubUnchecked'):
                        rv = ds[0][2]['rv']
                        if root_local(body, defs, rv['a']) == rem and root_local(body, defs, rv['b']) == n:
                            upd.append(xb)
            elif st['lhs'] == {'l': rem} and st['rv']['k'] == 'bin' and st['rv']['bop'] in ('Sub', 'SubUnchecked') and \
                    root_local(body, defs, st['rv']['a']) == rem and root_local(body, defs, st['rv']['b']) == n:
                upd.append(xb)
        if not upd or sb in body.reachable(good, avoid=upd + [sb]) - {good} or (sb in body.reachable(body.succ(ab), avoid=upd) and not any(body.dominates(u, ab) for u in upd)):
            return False, 'the budget `%s` is not decreased by the size of the data on every path from the append back to the comparison' % (body.var_name(rem) or '_%d' % rem)
        # the budget starts as the configured limit and is assigned nowhere else
        inits = [(xb, st) for xb, j, st in body.all_assigns() if st['lhs'] == {'l': rem} and xb not in upd]
        calls_init = [t2 for xb, t2 in body.calls() if t2.get('dest') == {'l': rem}]
        if len(inits) + len(calls_init) != 1:
            return False, 'the budget has %d initialisations' % (len(inits) + len(calls_init))
        isl, _ = backward_slice(body, rem, defs, stop=lambda nd: 'rv' in nd and nd['rv']['k'] == 'bin')
        icalls = {c for c, _, _ in slice_calls(isl)} - {'bytes::buf::buf_impl::Buf::remaining'}
        from_param = any('rv' in nd and any(q and q['l'] == 1 and q.get('p') and 'ByteUnit' in body.locals[nd['lhs']['l']]
                                            for q in rv_operands(nd['rv'])[1] + [op_place(o) for o in rv_operands(nd['rv'])[0] if op_place(o)]) for _, _, nd in isl)
        foreign = sorted(c for c in icalls if c not in CONVERSIONS and (c or '').split('::')[-1] not in SIZES)
        if not from_param or foreign:
            return False, 'the budget does not start as the max_size parameter (from parameter: %s, other calls: %s)' % (from_param, foreign)
    return True, ('every append (%d site(s)) is on the `size <= budget` edge for the size of the appended data, the budget is decreased by that size before the '
                  'next frame and starts as max_size' % len(appends))


def r1_limited_collect(ctx):
    ctx.rule('C14.R1', 'P7 provenance, on BufferedBody::_extract_with_limit with its private helpers (sync or async) inlined (P13): every '
             'BufferedBody{bytes} takes `bytes` from Collected::to_bytes of a BodyExt::collect whose receiver derives from '
             'Limited::new(body, n); n derives from the max_size parameter through allow-listed conversions only (no arithmetic, no other '
             'constant than the saturation default); every collect() reached from that function has such a receiver; the collect error is '
             'tested for LengthLimitError.')
    from ..inline import inlined, closures_of
    bodies = ctx.fb.bodies_of_item(CR, BB + '::_extract_with_limit')
    body = [b for b in bodies if b.is_coroutine]
    body = ctx.need('C14.R1', 'coroutine body of BufferedBody::_extract_with_limit', body[0] if len(body) == 1 else None)
    if body is None:
        return
    body = inlined(ctx.fb, body)
    defs = Defs(body)
    aggs = [(bb, st) for bb, j, st in body.all_assigns() if st['rv']['k'] == 'agg' and strip_generics(st['rv'].get('adt', '')) == BB]
    ctx.floor('C14.R1', 'BufferedBody constructions in _extract_with_limit', len(aggs), 1)
    collects = [(bb, t) for bb, t in body.calls() if callee(t) == COLLECT]
    for bb, t in collects:
        lim = _from_limited(body, defs, t['args'][0])
        ctx.ob('C14.R1', 'collect-receiver|_extract_with_limit', bool(lim), body.loc(bb, t),
               'collect() is called on a receiver (type `%s`) that %s' % (t['aty'][0], 'is the result of Limited::new' if lim else
                                                                          'does not derive from http_body_util::Limited::new'))
    for bb, st in aggs:
        i = st['rv']['fields'].index('bytes')
        pl = op_place(st['rv']['ops'][i])
        sl, _ = backward_slice(body, pl['l'], defs) if pl else ([], set())
        calls = [(c, n) for c, _, n in slice_calls(sl)]
        names = {c for c, _ in calls}
        col = [n for c, n in calls if c == COLLECT]
        lim = [n for c, n in calls if c == 'http_body_util::limited::Limited::new']
        ok = bool(col) and all(_from_limited(body, defs, n['args'][0]) for n in col) and bool(lim) \
            and 'http_body_util::collected::Collected::to_bytes' in names
        if not col and not lim:
            # no library limiter: a hand-written budget loop is accepted when the budget discipline is visible in the code
            okb, why = _budget_loop(ctx, body, defs, sl)
            ctx.ob('C14.R1', 'bytes-from-limited-collect', okb, body.loc(bb, st), 'BufferedBody.bytes is accumulated by hand: ' + why)
            continue
        ctx.ob('C14.R1', 'bytes-from-limited-collect', ok, body.loc(bb, st),
               'BufferedBody.bytes <- to_bytes <- collect(%s) <- Limited::new: %s' % ([n['aty'][0] for n in col], bool(lim)))
        for n in lim:
            npl = op_place(n['args'][1])
            if npl is None:
                ctx.ob('C14.R1', 'limit-provenance', False, body.loc(None, n), 'the limit passed to Limited::new is a constant: %s' % n['args'][1])
                continue
            nsl, nlocals = backward_slice(body, npl['l'], defs)
            ncalls = {c for c, _, _ in slice_calls(nsl)}
            arith = _arith_in_slice(nsl)
            # the parameter: the coroutine captures max_size as an upvar field of _1; find reads of `_1.f:<k>` whose type is ByteUnit
            from_param = False
            for _, _, node in nsl:
                if 'rv' in node:
                    ops, pls = rv_operands(node['rv'])
                    for q in pls + [op_place(o) for o in ops if op_place(o)]:
                        if q['l'] == 1 and q.get('p') and 'ByteUnit' in body.locals[node['lhs']['l']]:
                            from_param = True
                elif node.get('k') == 'call':
                    for o in node['args']:
                        q = op_place(o)
                        if q and 'ByteUnit' in body.locals[q['l']]:
                            vn = body.var_name(q['l'])
                            if vn == 'max_size':
                                from_param = True
            foreign = sorted(c for c in ncalls if c not in CONVERSIONS)
            ok = from_param and not arith and not foreign
            ctx.ob('C14.R1', 'limit-provenance', ok, body.loc(None, n),
                   'limit given to Limited::new derives from the max_size parameter: %s; through calls %s; non-conversion calls: %s; arithmetic: %s'
                   % (from_param, sorted(ncalls), foreign, arith))
    # LengthLimitError -> SizeLimitExceeded: the type the collect error is tested against (downcast_ref / is / downcast), in the function,
    # its inlined helpers or one of their closures
    from .compiler_common import family_bodies
    fam = [x for x in family_bodies(ctx, CR, [BB + '::extract']) if not x.is_promoted]
    dc = [t for x in [body] + closures_of(ctx.fb, body) + fam for bb, t in x.calls()
          if (callee(t) or '').split('::')[-1] in ('downcast_ref', 'is', 'downcast', 'downcast_mut') and 'Error' in (callee(t) or '')]
    ok = any('http_body_util::limited::LengthLimitError' in g for t in dc for g in t.get('ga', []))
    uses_limited = any(callee(t) == 'http_body_util::limited::Limited::new' for x in [body] + fam for _, t in x.calls())
    if uses_limited:
        ctx.ob('C14.R1', 'limit-error-recognised', ok, body.loc(), 'the collect error is tested against http_body_util::LengthLimitError: %s' % ok)


def _none_only_when_disabled(ctx, fn_path):
    """summary for a local helper `fn(BodySizeLimit) -> Option<_>`: None is produced only in the Disabled arm"""
    b = ctx.fb.body(CR, fn_path)
    if b is None:
        return False, 'helper %s not found' % fn_path
    nones = [bb for bb, j, st in b.all_assigns() if st['rv']['k'] == 'agg' and st['rv'].get('var') == 'None'
             and strip_generics(st['rv'].get('adt', '')) == 'core::option::Option']
    if not nones:
        return False, 'helper %s constructs no None' % fn_path
    for bb in nones:
        g = guard_context(b, bb).get(LIMIT)
        if g != {'Disabled'}:
            return False, 'helper %s can return None in arm(s) %s' % (fn_path, sorted(g) if g else 'not guarded by BodySizeLimit')
    return True, 'helper %s returns None only in the Disabled arm' % fn_path


_READS = {}


def _reads_the_body(ctx, item, seen=None):
    """a non-public function of pavex whose family (its closures, the private helpers it calls) reads a body"""
    if not item.startswith('pavex::') or item in (BB + '::extract', BB + '::_extract_with_limit'):
        return False
    if item in _READS:
        return _READS[item]
    seen = seen or set()
    if item in seen:
        return False
    seen.add(item)
    out = False
    for x in ctx.fb.bodies_of_item(CR, item):
        for _, t in x.calls():
            c = callee(t) or ''
            if c.split('::')[-1].split('<')[0] in BODY_READERS and ('body' in c.lower() or 'Collected' in c or 'Frame' in c):
                out = True
            elif _reads_the_body(ctx, strip_generics(c), seen):
                out = True
    _READS[item] = out
    return out


BODY_READERS = {'collect', 'frame', 'poll_frame', 'to_bytes', 'into_data', 'data_ref', 'aggregate'}


def r2_sole_constructors(ctx):
    ctx.rule('C14.R2', 'P3/P5/P7: BufferedBody{..} is constructed only in BufferedBody::extract, _extract_with_limit (and the derived '
             'Clone); in extract the unlimited collect is control-dependent on BodySizeLimit::Disabled (directly, or through a helper '
             'that yields None only in the Disabled arm) and the Enabled arm calls _extract_with_limit with the max_size read from the '
             'Enabled payload; no other non-test body of pavex calls collect/poll_frame/frame on the raw incoming body; '
             'JsonBody/UrlEncodedBody::extract take &BufferedBody.')
    from .compiler_common import family_items
    allowed = {BB + '::extract', BB + '::_extract_with_limit'} | family_items(ctx, CR, [BB + '::extract'])
    n = 0
    for b in ctx.fb.bodies(CR):
        if b.is_promoted:
            continue
        for bb, j, st in b.all_assigns():
            rv = st['rv']
            if rv['k'] == 'agg' and rv.get('ak') == 'adt' and strip_generics(rv['adt']) == BB:
                n += 1
                derived_clone = b.raw.get('impl_trait') == 'core::clone::Clone'
                ctx.ob('C14.R2', 'constructor|%s' % b.nroot.replace('pavex::request::body::', ''), b.nroot in allowed or derived_clone,
                       b.loc(bb, st), 'BufferedBody constructed in %s' % b.nroot)
                if not derived_clone:
                    # what is put inside: the bytes read from the body, on every construction (no "there is no body anyway" shortcut: whether a
                    # request carries a body is the transport's business - an HTTP/2 stream has one without any Content-Length)
                    o = rv['ops'][rv.get('fields', ['bytes']).index('bytes')] if 'bytes' in rv.get('fields', []) else rv['ops'][0]
                    pl = op_place(o)
                    readers = []
                    if pl is not None:
                        sl, locs = backward_slice(b, pl['l'], Defs(b))
                        calls_ = [(c or '') for c, _, _ in slice_calls(sl)]
                        readers = sorted({c.split('::')[-1].split('<')[0] for c in calls_} & BODY_READERS)
                        # .. or through a private helper of the crate that does the reading (`buffer_all(body).await`)
                        readers += sorted({c.split('::')[-1] + '()' for c in calls_ if _reads_the_body(ctx, strip_generics(c))})
                        if not readers and b.nid != b.nroot and any(1 <= x <= b.raw['argc'] for x in locs | {pl['l']}):
                            # built inside a closure from the closure's argument (`.map(|bytes| Self { bytes })`): what matters is what the
                            # enclosing function did before it handed the closure over
                            for P in ctx.fb.bodies_of_item(CR, b.nroot):
                                if P is b or P.is_promoted:
                                    continue
                                mk = [xb for xb, j, st2 in P.all_assigns() if st2['rv']['k'] == 'agg' and st2['rv'].get('ak') == 'closure'
                                      and strip_generics(st2['rv'].get('def', '')) == b.nid]
                                rd = [xb for xb, t2 in P.calls() if (callee(t2) or '').split('::')[-1].split('<')[0] in BODY_READERS
                                      or _reads_the_body(ctx, strip_generics(callee(t2) or ''))]
                                if mk and any(P.dominates(r_, m_) for r_ in rd for m_ in mk):
                                    readers = ['closure argument; the enclosing function read the body first']
                    ctx.ob('C14.R2', 'bytes-are-read-from-the-body|%s' % b.nroot.replace('pavex::request::body::', ''), bool(readers), b.loc(bb, st),
                           'the bytes put into this BufferedBody derive from %s' % (readers or 'NO read of the request body (a constant or an argument)'))
    ctx.floor('C14.R2', 'BufferedBody construction sites', n, 2)
    ex = [b for b in ctx.fb.bodies_of_item(CR, BB + '::extract') if b.is_coroutine]
    ex = ctx.need('C14.R2', 'coroutine body of BufferedBody::extract', ex[0] if len(ex) == 1 else None)
    if ex is not None:
        from ..inline import inlined
        ex = inlined(ctx.fb, ex, keep={BB + '::_extract_with_limit'})
        defs = Defs(ex)
        for bb, t in ex.calls():
            if callee(t) == COLLECT:
                g = guard_context(ex, bb)
                lim = g.get(LIMIT)
                ok, why = lim == {'Disabled'}, 'guarded by BodySizeLimit arm(s) %s' % (sorted(lim) if lim else None)
                if not ok and g.get('core::option::Option') == {'None'}:
                    # helper idiom: match limit.helper() { None => collect, Some(n) => limited }
                    for sb in ex.live_blocks():
                        w = ex.term(sb)
                        if w and w['k'] == 'switch' and strip_generics(w.get('enum', '')) == 'core::option::Option' and ex.dominates(sb, bb):
                            sl, _ = backward_slice(ex, w['src']['l'], defs)
                            for c, _, node in slice_calls(sl):
                                if c and c.startswith('pavex::') and any(LIMIT in strip_generics(a) for a in node['aty']):
                                    ok, why = _none_only_when_disabled(ctx, c)
                            # the same helper, inlined: the Option is built in the arms of a match on the limit, in this very body
                            nones = [(xb, n2) for xb, _, n2 in sl if 'rv' in n2 and n2['rv']['k'] == 'agg' and strip_generics(n2['rv'].get('adt', '')) == 'core::option::Option'
                                     and n2['rv'].get('var') == 'None']
                            if not ok and nones:
                                arms = [guard_context(ex, xb).get(LIMIT) for xb, _ in nones]
                                if all(a == {'Disabled'} for a in arms):
                                    ok, why = True, 'guarded by the None of an Option that is None only in the BodySizeLimit::Disabled arm (%s)' % ex.loc(nones[0][0])
                ctx.ob('C14.R2', 'unlimited-collect-only-when-disabled', ok, ex.loc(bb, t),
                       'the collect() without a limit in BufferedBody::extract is %s' % why)
            if callee(t) == BB + '::_extract_with_limit':
                g = guard_context(ex, bb).get(LIMIT)
                pl = op_place(t['args'][2])
                sl, _ = backward_slice(ex, pl['l'], defs) if pl else ([], set())
                reads = set()
                for _, _, node in sl:
                    if 'rv' in node:
                        ops, pls = rv_operands(node['rv'])
                        for q in pls + [op_place(o) for o in ops if op_place(o)]:
                            pp = q.get('p', [])
                            for i, el in enumerate(pp):
                                if el.startswith('d:') and i + 1 < len(pp):
                                    reads.add(el[2:] + '.' + pp[i + 1][2:])
                arith = _arith_in_slice(sl)
                okk = (reads == {'Enabled.max_size'} or 'Some.0' in reads) and not arith
                ctx.ob('C14.R2', 'enabled-routes-to-limited-with-its-max_size', okk, ex.loc(bb, t),
                       '_extract_with_limit is called under arm %s with a limit read from %s; arithmetic on it: %s' % (sorted(g) if g else None, sorted(reads), arith))
        ctx.need('C14.R2', '_extract_with_limit call in extract', [1 for _, t in ex.calls() if callee(t) == BB + '::_extract_with_limit'])
    # who touches the raw body: every call site of pavex that is handed a RawIncomingBody (or the hyper Incoming inside it) sits in
    # BufferedBody::extract, in a private helper all of whose callers are in that family, or in RawIncomingBody's own impls
    callers = {}
    for b in ctx.fb.bodies(CR):
        if not b.is_promoted:
            for bb, t in b.calls():
                c = callee(t) or ''
                if c.startswith('pavex::') and c != b.nroot:
                    callers.setdefault(c, set()).add(b.nroot)
    fam = {BB + '::extract'}
    changed = True
    while changed:
        changed = False
        for h, cs in callers.items():
            if h not in fam and cs and cs <= fam:
                fam.add(h)
                changed = True

    def raw(ty):
        if 'pavex::request::body::raw_body::RawIncomingBody' in ty:
            return True
        return 'hyper::body::incoming::Incoming' in ty and 'Request<' not in ty and not ty.startswith('fn(') and '{closure' not in ty

    n_raw = 0
    for b in ctx.fb.bodies(CR):
        if b.is_promoted:
            continue
        for bb, t in b.calls():
            c = callee(t) or ''
            if not any(raw(a) for a in t['aty']):
                continue
            n_raw += 1
            # RawIncomingBody's own Body impl (which forwards poll_frame to hyper) and its macro-generated pin projections
            own = (b.raw.get('impl_trait') == 'http_body::Body' and 'RawIncomingBody' in (b.raw.get('impl_self') or '')) or \
                (bool(b.raw.get('exp')) and 'RawIncomingBody' in (b.raw.get('impl_self') or b.nid) and b.nid.split('::')[-1] in ('project', 'project_ref', 'project_replace'))
            ok = b.nroot in fam or own
            ctx.ob('C14.R2', 'raw-body-consumer|%s|%s' % (b.nroot.replace('pavex::request::body::', ''), c.split('::')[-1]), ok, b.loc(bb, t),
                   '%s is handed the raw incoming body in %s%s' % (c, b.nroot, '' if ok else ' — outside BufferedBody::extract and its private helpers'))
    ctx.floor('C14.R2', 'consumers of the raw incoming body (positive control)', n_raw, 2)
    for path in ('pavex::request::body::json::JsonBody::extract', 'pavex::request::body::url_encoded::UrlEncodedBody::extract'):
        sig = ctx.need('C14.R2', 'signature of ' + path, ctx.fb.fn_sig(CR, path))
        if sig:
            ins = [strip_generics(i) for i in sig['inputs']]
            ok = any(i.replace("'_ ", '').replace("&'a ", '&').startswith('&') and i.endswith('BufferedBody') for i in ins) and \
                not any('RawIncomingBody' in i for i in ins)
            ctx.ob('C14.R2', 'typed-extractor-input|%s' % path.split('::')[-2], ok, '', '%s takes %s' % (path, ins))


def check(ctx):
    r1_limited_collect(ctx)
    r2_sole_constructors(ctx)


CLAUSE += ' Also: the bytes of every BufferedBody construction derive from a read of the body.'
