#!/usr/bin/env bash
# try_seed.sh <patch.diff> <Cxx> [<Cyy> ...]: apply a seeded defect to /repo, run the checks, ALWAYS revert.
set -uo pipefail
PATCH="$(readlink -f "$1")"; shift
cd /repo
if [ -n "$(git status --porcelain --untracked-files=no)" ]; then echo "try_seed: /repo is dirty, refusing"; exit 2; fi
if ! git apply "$PATCH" 2>/dev/null; then
  if ! git apply -3 "$PATCH" 2>/dev/null; then echo "try_seed: patch does not apply"; git reset -q; git checkout -q -- . ; exit 3; fi
fi
rc=0
for c in "$@"; do
  ( cd /verif && ./check "$c" --tier quick ) | grep -E "VIOLATION|KNOWN-FINDING|^\[pvx\] C|^  C" | cut -c1-400
done
git reset -q; git checkout -q -- . ; git clean -fdq -- compiler runtime rustdoc 2>/dev/null
echo "try_seed: reverted; repo status: $(git status --porcelain --untracked-files=no | wc -l) modified"
