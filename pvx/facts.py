"""Fact base: loads the JSON dumps produced by engine/facts (pvx-facts) and offers CFG / call-graph views.

No rules live here. Everything is a view over resolved MIR facts (`mir_promoted`).
"""
import glob
import json
import os
import re
from collections import defaultdict


def strip_generics(path):
    """`a::B::<'_, T>::c` -> `a::B::c`; `Foo<T>` -> `Foo`. A `<` that opens a qualified path
    (`<T as Trait>::m`, i.e. not preceded by `::` or an identifier char) is kept, with its contents stripped
    recursively."""
    out = []
    i = 0
    n = len(path)

    def skip_group(i):
        depth = 1
        i += 1
        while i < n and depth:
            c = path[i]
            if c == '<':
                depth += 1
            elif c == '>' and path[i - 1] != '-':
                depth -= 1
            i += 1
        return i

    while i < n:
        c = path[i]
        if c == '<' and path.startswith('<impl ', i):
            # `mod::<impl Trait for Ty>::item` (impl blocks outside the type's module): keep as `{impl ...}`
            j = skip_group(i)
            inner = strip_generics(path[i + 1:j - 1])
            out.append('{' + inner + '}')
            i = j
            continue
        if c == '<' and i > 0:
            if i >= 2 and path[i - 1] == ':' and path[i - 2] == ':':
                del out[-2:]
                i = skip_group(i)
                continue
            if path[i - 1].isalnum() or path[i - 1] == '_':
                i = skip_group(i)
                continue
        out.append(c)
        i += 1
    return ''.join(out)


# functions that were renamed since the rules were written: {current normalised path: the path the rules know} (see FactBase._aliases)
ALIASES = {}


def _alias(path):
    if not ALIASES or path is None:
        return path
    if path in ALIASES:
        return ALIASES[path]
    for new, old in ALIASES.items():
        if path.startswith(new + '::'):
            return old + path[len(new):]
    return path


def fingerprint_of(b):
    """what identifies a function besides its name"""
    calls = sorted({'::'.join(strip_generics(t['f']).split('::')[-2:]) for _, t in b.calls() if t.get('f')})
    return {'dk': b.raw.get('dk'), 'impl_self': b.raw.get('impl_self'), 'impl_trait': b.raw.get('impl_trait'), 'parent': b.nid.rsplit('::', 1)[0],
            'file': b.file, 'argc': b.raw['argc'], 'sig': b.locals[:b.raw['argc'] + 1], 'calls': calls}


class Body:
    __slots__ = ('raw', 'crate', 'id', 'nid', 'root', 'nroot', 'blocks', '_succ', '_pred', '_reach_cache', 'fb')

    def __init__(self, raw, crate, fb):
        self.raw = raw
        self.crate = crate
        self.fb = fb
        self.id = raw['id']
        self.nid = _alias(strip_generics(self.id))
        self.root = raw['root']
        self.nroot = _alias(strip_generics(self.root))
        self.blocks = raw['blocks']
        self._succ = None
        self._pred = None

    # ---- basic attributes
    @property
    def file(self):
        return self.raw['file']

    @property
    def line(self):
        return self.raw['ln']

    @property
    def locals(self):
        return self.raw['locals']

    @property
    def is_coroutine(self):
        return self.raw.get('coroutine', False)

    @property
    def is_promoted(self):
        return self.raw.get('promoted', False)

    def var_name(self, local):
        for v in self.raw['vars']:
            pl = v.get('pl')
            if pl and pl['l'] == local and not pl.get('p'):
                return v['n']
        return None

    def vars_named(self, name):
        """places (local, proj) of user variables with this name"""
        return [v['pl'] for v in self.raw['vars'] if v['n'] == name and 'pl' in v]

    # ---- CFG
    def term(self, bb):
        return self.blocks[bb]['term']

    def stmts(self, bb):
        return self.blocks[bb]['st']

    def succ(self, bb):
        if self._succ is None:
            self._build()
        return self._succ[bb]

    def pred(self, bb):
        if self._pred is None:
            self._build()
        return self._pred[bb]

    def _build(self):
        n = len(self.blocks)
        succ = [[] for _ in range(n)]
        pred = [[] for _ in range(n)]
        for i, b in enumerate(self.blocks):
            t = b['term']
            if not t:
                continue
            k = t['k']
            ss = []
            if k in ('goto', 'drop', 'assert', 'yield'):
                ss = [t['t']]
            elif k == 'call':
                if 't' in t:
                    ss = [t['t']]
            elif k == 'switch':
                ss = [x[1] for x in t['ts']] + [t['else']]
            seen = set()
            for s in ss:
                if s not in seen:
                    seen.add(s)
                    succ[i].append(s)
                    pred[s].append(i)
        self._succ = succ
        self._pred = pred

    def reachable(self, start, avoid=(), through_edges=None):
        """Blocks reachable from `start` (iterable or int) along normal edges, never entering blocks in `avoid`.
        `start` blocks themselves are included in the result; those that are in `avoid` are not expanded."""
        avoid = set(avoid)
        if isinstance(start, int):
            start = [start]
        seen = set(start)
        stack = [s for s in start if s not in avoid]   # a start block that must be avoided is reported but not expanded
        while stack:
            b = stack.pop()
            for s in self.succ(b):
                if s in seen or s in avoid:
                    continue
                seen.add(s)
                stack.append(s)
        return seen

    def reachable_from_entry(self, avoid=()):
        if 0 in set(avoid):
            return set()
        return self.reachable(0, avoid)

    def live_blocks(self):
        return self.reachable(0)

    def return_blocks(self):
        live = self.live_blocks()
        return [i for i in live if self.blocks[i]['term'] and self.blocks[i]['term']['k'] == 'return']

    def dominates(self, a, b):
        """every path entry->b passes through block a"""
        if a == b:
            return True
        return b not in self.reachable_from_entry(avoid=[a])

    # ---- calls
    def calls(self, live_only=True):
        live = self.live_blocks() if live_only else range(len(self.blocks))
        for i in sorted(live):
            t = self.blocks[i]['term']
            if t and t['k'] in ('call', 'tailcall'):
                yield i, t

    def calls_to(self, pred, live_only=True):
        for i, t in self.calls(live_only):
            if pred(t):
                yield i, t

    def all_assigns(self, live_only=True):
        live = self.live_blocks() if live_only else range(len(self.blocks))
        for i in sorted(live):
            for j, st in enumerate(self.blocks[i]['st']):
                if 'lhs' in st:
                    yield i, j, st

    def loc(self, bb=None, node=None):
        ln = self.line
        if node is not None and 'ln' in node:
            ln = node['ln']
        elif bb is not None and self.blocks[bb]['term']:
            ln = self.blocks[bb]['term'].get('ln', ln)
        return '%s:%s' % (self.file, ln)


def callee(t):
    """normalised (generic-stripped) callee path of a call terminator, or None for indirect calls"""
    f = t.get('f')
    if f is None:
        return None
    return _alias(strip_generics(f)) if ALIASES else strip_generics(f)


def callee_resolved(t):
    r = t.get('res')
    if r:
        return _alias(strip_generics(r)) if ALIASES else strip_generics(r)
    return callee(t)


def is_user(node):
    """statement/terminator not produced by a macro expansion"""
    return 'mo' not in node and 'mi' not in node


def place_str(pl):
    s = '_%d' % pl['l']
    for p in pl.get('p', []):
        s += '.' + p
    return s


def op_place(op):
    """place of a copy/move operand (or None)"""
    if op is None:
        return None
    return op.get('cp') or op.get('mv')


def op_local(op):
    pl = op_place(op)
    if pl is not None and not pl.get('p'):
        return pl['l']
    return None


class FactBase:
    def __init__(self, facts_dir, use_fingerprints=True):
        self.dir = facts_dir
        self.renamed = {}
        self._fp = None
        if use_fingerprints:
            fp = os.path.join(os.path.dirname(os.path.dirname(os.path.abspath(__file__))), 'fingerprints.json')
            if os.path.exists(fp):
                with open(fp) as fh:
                    self._fp = json.load(fh)
        ALIASES.clear()
        self.crates = {}  # key -> raw crate dict
        self._files = defaultdict(list)
        for f in glob.glob(os.path.join(facts_dir, '*.json')):
            base = os.path.basename(f)
            m = re.match(r'(.+?)-([A-Za-z_]+?)(-test)?-[0-9a-f]+\.json$', base)
            if not m:
                continue
            key = (m.group(1), m.group(2))
            self._files[key].append(f)
        self._bodies = {}
        self._by_nid = {}
        self._by_root = {}

    def available(self):
        return sorted(self._files.keys())

    def crate(self, name, ctype='Rlib'):
        key = (name, ctype)
        if key not in self.crates:
            files = self._files.get(key)
            if not files:
                raise KeyError('no fact file for crate %s (%s) in %s' % (name, ctype, self.dir))
            # several builds of the same crate (host/target) are identical; take the largest
            f = max(files, key=lambda p: os.path.getsize(p))
            with open(f) as fh:
                raw = json.load(fh)
            self.crates[key] = raw
            self._aliases(name, ctype, raw)
            for rb in raw['bodies']:
                rb['ctype'] = ctype
            bodies = [Body(b, name, self) for b in raw['bodies']]
            self._bodies[key] = bodies
            by_nid = defaultdict(list)
            by_root = defaultdict(list)
            for b in bodies:
                by_nid[b.nid].append(b)
                by_root[b.nroot].append(b)
            self._by_nid[key] = by_nid
            self._by_root[key] = by_root
        return self.crates[key]

    def _aliases(self, name, ctype, raw):
        """A function the rules know by name that is gone, and a new function with the same kind, owner, signature and (mostly) the same
        callees: it was renamed. The rules keep addressing it by the old name; the report says so."""
        tab = (self._fp or {}).get('%s/%s' % (name, ctype))
        if not tab:
            return
        cur = {}
        for rb in raw['bodies']:
            if rb.get('promoted') or rb['id'] != rb['root'] or rb.get('dk') not in ('Fn', 'AssocFn') or rb.get('exp'):
                continue
            cur[strip_generics(rb['id'])] = rb
        missing = [n for n in tab if n not in cur]
        added = [n for n in cur if n not in tab]
        if not missing or not added:
            return
        def fp_raw(rb):
            calls = set()
            for blk in rb['blocks']:
                t = blk['term']
                if t and t['k'] in ('call', 'tailcall') and t.get('f'):
                    calls.add('::'.join(strip_generics(t['f']).split('::')[-2:]))
            return {'dk': rb.get('dk'), 'impl_self': rb.get('impl_self'), 'impl_trait': rb.get('impl_trait'), 'argc': rb['argc'],
                    'sig': rb['locals'][:rb['argc'] + 1], 'calls': calls, 'file': rb['file']}
        used = set()
        for old in sorted(missing):
            f0 = tab[old]
            best, score = None, 0.0
            for new in added:
                if new in used:
                    continue
                f1 = fp_raw(cur[new])
                # moved, not renamed: the item (with its type, for a method) now lives in another module of the crate under the same name
                k = 2 if f0['dk'] == 'AssocFn' else 1
                moved = new.split('::')[-k:] == old.split('::')[-k:] and new.split('::')[0] == old.split('::')[0]
                if moved:
                    def module_of(pth):
                        segs = pth.split('::')
                        i = next((n_ for n_, sg in enumerate(segs) if sg.startswith('{impl')), len(segs) - k)
                        return '::'.join(segs[:i]) + '::'
                    om, nm = module_of(old), module_of(new)
                    back = lambda x: x.replace(nm, om) if isinstance(x, str) else x
                    f1 = dict(f1, impl_self=back(f1['impl_self']), impl_trait=back(f1['impl_trait']), sig=[back(x) for x in f1['sig']])
                if (f1['dk'], f1['impl_self'], f1['impl_trait'], f1['argc']) != (f0['dk'], f0['impl_self'], f0['impl_trait'], f0['argc']):
                    continue
                same_parent = new.rsplit('::', 1)[0] == f0['parent']
                if not same_parent and not moved and not (f0['impl_self'] and f1['file'] == f0['file']):
                    continue
                if [x.replace(new, old) for x in f1['sig']] != f0['sig'] and f1['sig'] != f0['sig']:
                    continue
                a, b = set(f0['calls']), f1['calls']
                j = len(a & b) / len(a | b) if (a | b) else 1.0
                if moved:
                    j = max(j, 0.6)      # same crate, owner, name and signature: it IS that item, however its body was reorganised on the way
                if j > score:
                    best, score = new, j
            if best is not None and score >= 0.6:
                used.add(best)
                ALIASES[best] = old
                self.renamed[old] = best

    def bodies(self, name, ctype='Rlib'):
        self.crate(name, ctype)
        return self._bodies[(name, ctype)]

    def body(self, name, nid, ctype='Rlib'):
        """the unique non-promoted body with this normalised id (or None)"""
        self.crate(name, ctype)
        bs = [b for b in self._by_nid[(name, ctype)].get(nid, []) if not b.is_promoted]
        if len(bs) == 1:
            return bs[0]
        if not bs:
            return None
        raise KeyError('ambiguous body id %s in %s: %d candidates' % (nid, name, len(bs)))

    def bodies_of_item(self, name, nroot, ctype='Rlib', include_promoted=False):
        """the body of item `nroot` plus all its nested closures/coroutines"""
        self.crate(name, ctype)
        return [b for b in self._by_root[(name, ctype)].get(nroot, []) if include_promoted or not b.is_promoted]

    def adts(self, name, ctype='Rlib'):
        return self.crate(name, ctype)['adts']

    def adt(self, name, nid, ctype='Rlib'):
        for a in self.adts(name, ctype):
            if strip_generics(a['id']) == nid:
                return a
        # a type that was moved to another module of its crate keeps its name: the only type of that name in the crate is that type
        same = [a for a in self.adts(name, ctype) if strip_generics(a['id']).split('::')[-1] == nid.split('::')[-1]]
        if len(same) == 1:
            self.renamed.setdefault(nid, strip_generics(same[0]['id']))
            return same[0]
        return None

    def adt_path(self, name, nid, ctype='Rlib'):
        a = self.adt(name, nid, ctype)
        return strip_generics(a['id']) if a else nid

    def impls(self, name, ctype='Rlib'):
        return self.crate(name, ctype)['impls']

    def fns(self, name, ctype='Rlib'):
        return self.crate(name, ctype)['fns']

    def fn_sig(self, name, nid, ctype='Rlib'):
        for f in self.fns(name, ctype):
            if _alias(strip_generics(f['id'])) == nid:
                return f
        return None
