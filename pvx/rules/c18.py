"""C18 — Configuration sources merge with the documented precedence.

Decided clause: the Figment that `extract` is called on is built by exactly three `merge` calls, in the order base file,
profile file, PX_-prefixed environment (split on `__`, PX_PROFILE ignored on every path); failures map to errors.
figment's own "later merge wins" semantics is trusted.
"""
from ..facts import callee, op_place, strip_generics
from ..flow import Defs, backward_slice, slice_calls, slice_consts, slice_strs

LEVEL = 'other'
CLAUSE = ('ConfigLoader::load extracts from Figment::new().merge(Yaml base.yml).merge(Yaml <profile>.yml).merge(Env PX_ split __ ignoring '
          'PROFILE) — exactly these three merges in this order, no join/adjoin/admerge, the ignore filter on every path, and both the '
          'profile lookup and the extraction propagate their failure as ConfigLoadError; the derive macro uses one string per variant for '
          'both parsing and file naming.')
TRUSTED = ['figment: a later `merge` overrides earlier values (arrays included); Env::prefixed/split/ignore behave as documented']

CR = 'pavex'
LOAD = 'pavex::config::ConfigLoader::load'
FIG = 'figment::figment::Figment::'
COMBINATORS = {'merge', 'join', 'adjoin', 'admerge'}


def _old_strs_of_slice(ctx, body, sl):
    out = []
    for kind, v, _, _ in slice_consts(sl):
        if kind == 'str':
            out.append(v)
        elif kind == 'bytes':
            # format_args! template: literal pieces separated by control bytes; keep the printable runs
            import re as _re
            out += [m for m in _re.findall(r'[ -~]{2,}', v)]
    # promoted constants referenced from the slice (format! pieces live there)
    for _, _, node in sl:
        ops = []
        if 'rv' in node:
            from ..flow import rv_operands
            ops, _ = rv_operands(node['rv'])
        elif node.get('k') == 'call':
            ops = node['args']
        for o in ops:
            if 'promoted' in o:
                pid = '%s::{promoted#%d}' % (body.id, o['promoted'])
                for b in ctx.fb.bodies(body.crate):
                    if b.id == pid:
                        for bb, j, st in b.all_assigns():
                            from ..flow import rv_operands as rvo
                            for oo in rvo(st['rv'])[0]:
                                if 'str' in oo:
                                    out.append(oo['str'])
    return out


def r1_merge_chain(ctx):
    ctx.rule('C18.R1', 'P7 provenance: the receiver of Figment::extract in ConfigLoader::load is a chain of exactly three Figment::merge calls '
             '(no join/adjoin/admerge anywhere in the function) whose providers are, in order: Yaml::file(dir.join("base.yml")), '
             'Yaml::file(dir.join(format!("{}.yml", profile.as_ref()))), Env::prefixed("PX_").split("__").ignore(strip_prefix("PX_","PX_PROFILE")); '
             'P2: the ignore() call dominates the third merge and each merge dominates extract() (no layer is conditional).')
    body = ctx.need('C18.R1', LOAD, ctx.fb.body(CR, LOAD))
    if body is None:
        return
    defs = Defs(body)
    combos = [(bb, t) for bb, t in body.calls() if (callee(t) or '').startswith(FIG) and callee(t)[len(FIG):] in COMBINATORS]
    kinds = [callee(t)[len(FIG):] for _, t in combos]
    ctx.ob('C18.R1', 'combinators', kinds == ['merge', 'merge', 'merge'], body.loc(),
           'Figment combinators used in load(): %s (must be exactly three `merge`)' % kinds)
    ext = [(bb, t) for bb, t in body.calls() if callee(t) == FIG + 'extract']
    if not ctx.need('C18.R1', 'Figment::extract call', ext):
        return
    # order the merges by receiver derivation
    def recv_merges(t):
        pl = op_place(t['args'][0])
        sl, _ = backward_slice(body, pl['l'], defs) if pl else ([], set())
        return [n for c, _, n in slice_calls(sl) if c == FIG + 'merge']
    chain = sorted([t for _, t in combos if callee(t) == FIG + 'merge'], key=lambda t: len(recv_merges(t)))
    in_ext = recv_merges(ext[0][1])
    ctx.ob('C18.R1', 'extract-on-the-chain', len(in_ext) == 3, body.loc(ext[0][0]),
           'extract() is called on a value derived from %d merge call(s)' % len(in_ext))
    for i, t in enumerate(chain[:3]):
        mb = [bb for bb, tt in combos if tt is t][0]
        ctx.ob('C18.R1', 'merge-%d|unconditional' % (i + 1), body.dominates(mb, ext[0][0]), body.loc(mb, t),
               'merge #%d is executed on every path that reaches extract() (a layer that is merged only under a run-time test is a layer that can be skipped)' % (i + 1))
    expect = [('base file', {'figment::providers::data::Format::file', 'std::path::Path::join'}, ['base.yml']),
              ('profile file', {'figment::providers::data::Format::file', 'std::path::Path::join', 'core::convert::AsRef::as_ref'}, ['.yml']),
              ('environment', {'figment::providers::env::Env::prefixed', 'figment::providers::env::Env::split', 'figment::providers::env::Env::ignore'}, ['PX_', '__'])]
    for i, t in enumerate(chain[:3]):
        name, need_calls, need_strs = expect[i]
        pl = op_place(t['args'][1])
        sl, _ = backward_slice(body, pl['l'], defs) if pl else ([], set())
        calls = {c for c, _, _ in slice_calls(sl)}
        strs = slice_strs(ctx.fb, body, sl)
        okc = need_calls <= calls
        oks = all(any(s == x or (x == '.yml' and s.endswith('.yml')) for s in strs) for x in need_strs)
        extra = ''
        if name == 'base file':
            oks = oks and not any(s.endswith('.yml') and s != 'base.yml' for s in strs) and 'core::convert::AsRef::as_ref' not in calls
        if name == 'environment':
            # the ignored key derives from PROFILE_ENV_VAR stripped of the prefix
            ign = [n for c, _, n in slice_calls(sl) if c == 'figment::providers::env::Env::ignore']
            ok_ign = False
            for n in ign:
                ipl = op_place(n['args'][1])
                isl, _ = backward_slice(body, ipl['l'], defs) if ipl else ([], set())
                icalls = {c for c, _, _ in slice_calls(isl)}
                ok_ign = 'core::str::{impl str}::strip_prefix' in icalls
            extra = '; ignored key derives from strip_prefix(PROFILE_ENV_VAR): %s' % ok_ign
            okc = okc and ok_ign
        ctx.ob('C18.R1', 'merge-%d|%s' % (i + 1, name), okc and oks, body.loc(None, t),
               'merge #%d provider is built by %s with constants %s%s' % (i + 1, sorted(c.split('::')[-2] + '::' + c.split('::')[-1] for c in calls if 'figment' in c or 'Path' in c or 'AsRef' in c),
                                                                       sorted(set(s for s in strs if len(s) < 20)), extra))
    # PROFILE_ENV_VAR value
    st = [b for b in ctx.fb.bodies(CR) if b.nid == 'pavex::config::PROFILE_ENV_VAR']
    val = None
    for b in st:
        for bb, j, s in b.all_assigns():
            from ..flow import rv_operands
            for o in rv_operands(s['rv'])[0]:
                if 'str' in o:
                    val = o['str']
    ctx.ob('C18.R1', 'profile-env-var', val == 'PX_PROFILE', '', 'PROFILE_ENV_VAR = %r' % val)
    # ignore dominates the env merge
    ign_b = [bb for bb, t in body.calls() if callee(t) == 'figment::providers::env::Env::ignore']
    if chain and ign_b:
        third = [bb for bb, t in combos if t is chain[-1]][0]
        ctx.ob('C18.R1', 'ignore-on-every-path', body.dominates(ign_b[0], third), body.loc(ign_b[0]),
               'Env::ignore(PROFILE) dominates the merge of the environment provider (PX_PROFILE is never a key, on any path)')
    else:
        ctx.need('C18.R1', 'Env::ignore call', ign_b)


def r2_errors(ctx):
    ctx.rule('C18.R2', 'P1: in ConfigLoader::load the results of ConfigProfile::load (when no profile was set) and of Figment::extract flow into '
             '`?`; no unwrap_or_default / unwrap_or / ok() on either.')
    body = ctx.fb.body(CR, LOAD)
    if body is None:
        return
    from ..flow import forward_derived
    for name, c in (('profile', 'pavex::config::ConfigProfile::load'), ('extract', FIG + 'extract')):
        sites = [(bb, t) for bb, t in body.calls() if callee(t) == c]
        if not ctx.need('C18.R2', c, sites):
            continue
        bb, t = sites[0]
        der = forward_derived(body, {t['dest']['l']}, through_calls=True)
        tries = [b2 for b2, t2 in body.calls() if callee(t2) == 'core::ops::try_trait::Try::branch' and op_place(t2['args'][0]) and op_place(t2['args'][0])['l'] in der]
        swallow = [callee(t2) for b2, t2 in body.calls() if callee(t2) in ('core::result::Result::unwrap_or_default', 'core::result::Result::unwrap_or',
                                                                           'core::result::Result::ok', 'core::result::Result::unwrap_or_else')
                   and op_place(t2['args'][0]) and op_place(t2['args'][0])['l'] in der]
        ctx.ob('C18.R2', 'propagated|%s' % name, bool(tries) and not swallow, body.loc(bb, t),
               'result of %s reaches `?`: %s; swallowed by: %s' % (c.split('::')[-2] + '::' + c.split('::')[-1], bool(tries), swallow))


def r3_macro_one_name_per_variant(ctx):
    ctx.rule('C18.R3', 'P7 on the derive macro (proc-macro crate MIR): inside the per-variant loop of derive_config_profile every String '
             'interpolated into a generated match arm (`quote!` -> ToTokens::to_tokens on &String) is the same local — the name that '
             'FromStr accepts is the name AsRef returns (it selects `<name>.yml`).')
    MC = ('pavex_macros', 'ProcMacro')
    if MC not in ctx.fb.available():
        ctx.need('C18.R3', 'fact file of the proc-macro crate pavex_macros', None)
        return
    b = ctx.need('C18.R3', 'derive_config_profile', ctx.fb.body('pavex_macros', 'pavex_macros::config_profile::derive_config_profile', 'ProcMacro'))
    if b is None:
        return
    defs = Defs(b)
    referents = {}
    for bb, t in b.calls():
        if callee(t) == 'quote::to_tokens::ToTokens::to_tokens' and t['aty'][0] == '&alloc::string::String':
            in_loop = bb in b.reachable(b.succ(bb))
            if not in_loop:
                continue
            pl = op_place(t['args'][0])
            ref, cur = None, pl['l']
            for _ in range(6):
                nxt = None
                for (dbb, j, node) in defs.full.get(cur, []):
                    rv = node.get('rv')
                    if rv and rv['k'] == 'ref':
                        if not rv['pl'].get('p'):
                            ref = rv['pl']['l']
                        elif rv['pl']['p'] == ['*']:
                            nxt = rv['pl']['l']
                    elif rv and rv['k'] == 'use' and op_place(rv['op']) and not op_place(rv['op']).get('p'):
                        nxt = op_place(rv['op'])['l']
                if ref is not None or nxt is None:
                    break
                cur = nxt
            referents[bb] = ref
    ctx.floor('C18.R3', 'String interpolations in the per-variant templates', len(referents), 2)
    # the explicit `#[px(profile = "..")]` name is used as written: case conversion applies to the identifier-derived default only
    conv = [(bb, t) for bb, t in b.calls() if (callee(t) or '').split('::')[-1] in ('to_case', 'to_lowercase', 'to_uppercase', 'to_ascii_lowercase',
                                                                                   'to_ascii_uppercase', 'to_snake_case', 'to_kebab_case', 'replace', 'trim')]
    lits = {bb for bb, t in b.calls() if (callee(t) or '').endswith('LitStr::value')}
    if ctx.need('C18.R3', 'LitStr::value (explicit profile name) in derive_config_profile', lits):
        bad = []
        for bb, t in conv:
            pl = op_place(t['args'][0])
            sl, _ = backward_slice(b, pl['l'], defs) if pl else ([], set())
            if any(c.endswith('LitStr::value') for c, _, _ in slice_calls(sl)):
                bad.append(b.loc(bb, t))
        ctx.ob('C18.R3', 'explicit-name-unmodified', not bad, bad[0] if bad else b.loc(),
               'string conversions applied to a value that can come from the explicit `profile = ".."` attribute: %s (the name the user wrote is the name of '
               'the file and the value of PX_PROFILE)' % (bad or 'none'))
    vals = set(referents.values())
    ctx.ob('C18.R3', 'one-name-per-variant', len(vals) == 1 and None not in vals, b.loc(),
           'String locals interpolated in the per-variant match arms: %s (%s)' % (
               sorted('_%s(%s)' % (v, b.var_name(v)) for v in vals if v is not None), 'one and the same' if len(vals) == 1 else 'DIFFERENT strings for parsing and for naming'))


def check(ctx):
    r1_merge_chain(ctx)
    r2_errors(ctx)
    r3_macro_one_name_per_variant(ctx)
