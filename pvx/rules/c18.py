"""C18 — Configuration sources merge with the documented precedence.

Decided clause: the Figment that `extract` is called on is built by exactly three `merge` calls, in the order base file,
profile file, PX_-prefixed environment (split on `__`, PX_PROFILE ignored on every path); failures map to errors.
figment's own "later merge wins" semantics is trusted.
"""
from ..facts import callee, op_place, strip_generics
from ..flow import Defs, backward_slice, slice_calls, slice_consts, slice_strs

LEVEL = 'other'
TECHNIQUE = 'static analysis: layer provenance of the Figment handed to extract() (helpers inlined, array-loop merges expanded, statics resolved), dominance of ignore()/merges, case evaluation of failure propagation, derive-macro template sources on proc-macro MIR'
CLAUSE = ('ConfigLoader::load extracts from Figment::new().merge(Yaml base.yml).merge(Yaml <profile>.yml).merge(Env PX_ split __ ignoring '
          'PROFILE) — exactly these three merges in this order, no join/adjoin/admerge, the ignore filter on every path, and both the '
          'profile lookup and the extraction propagate their failure as ConfigLoadError; the derive macro uses one string per variant for '
          'both parsing and file naming.')
TRUSTED = ['figment: a later `merge` overrides earlier values (arrays included); Env::prefixed/split/ignore behave as documented']

CR = 'pavex'
LOAD = 'pavex::config::ConfigLoader::load'
FIG = 'figment::figment::Figment::'
COMBINATORS = {'merge', 'join', 'adjoin', 'admerge'}


def _old_strs_of_slice(ctx, body, sl):
    out = []
    for kind, v, _, _ in slice_consts(sl):
        if kind == 'str':
            out.append(v)
        elif kind == 'bytes':
            # format_args! template: literal pieces separated by control bytes; keep the printable runs
            import re as _re
            out += [m for m in _re.findall(r'[ -~]{2,}', v)]
    # promoted constants referenced from the slice (format! pieces live there)
    for _, _, node in sl:
        ops = []
        if 'rv' in node:
            from ..flow import rv_operands
            ops, _ = rv_operands(node['rv'])
        elif node.get('k') == 'call':
            ops = node['args']
        for o in ops:
            if 'promoted' in o:
                pid = '%s::{promoted#%d}' % (body.id, o['promoted'])
                for b in ctx.fb.bodies(body.crate):
                    if b.id == pid:
                        for bb, j, st in b.all_assigns():
                            from ..flow import rv_operands as rvo
                            for oo in rvo(st['rv'])[0]:
                                if 'str' in oo:
                                    out.append(oo['str'])
    return out


def _layers(body, defs, combos):
    """the ordered list of layers merged into the Figment: one per merge call site, a site inside a `for x in [e0, .., en]` loop over an
    array literal counting once per element, in index order (core::array::IntoIter yields its elements front to back — trusted std).
    -> [(site block, site terminator, provider slice, looped)]"""
    def others_in_receiver(t):
        pl = op_place(t['args'][0])
        sl, _ = backward_slice(body, pl['l'], defs) if pl else ([], set())
        return {id(n) for c, _, n in slice_calls(sl) if c == FIG + 'merge' and n is not t}
    sites = sorted(combos, key=lambda x: len(others_in_receiver(x[1])))
    out = []
    for bb, t in sites:
        pl = op_place(t['args'][1])
        sl, _ = backward_slice(body, pl['l'], defs) if pl else ([], set())
        nexts = [n for c, _, n in slice_calls(sl) if c == 'core::iter::traits::iterator::Iterator::next'
                 and 'core::array::iter::IntoIter' in (n['aty'][0] if n['aty'] else '')]
        # the array literal that is iterated: the argument of into_iter, followed through plain moves
        arrays = []
        for c, _, n in slice_calls(sl):
            if c != 'core::iter::traits::collect::IntoIterator::into_iter':
                continue
            cur = op_place(n['args'][0])
            for _ in range(6):
                if cur is None or cur.get('p'):
                    break
                ds = defs.full.get(cur['l'], [])
                if len(ds) != 1 or 'rv' not in ds[0][2]:
                    break
                rv = ds[0][2]['rv']
                if rv['k'] == 'agg' and rv.get('ak') == 'array':
                    arrays.append(ds[0])
                    break
                cur = op_place(rv['op']) if rv['k'] == 'use' else None
        rev = [c for c, _, _ in slice_calls(sl) if c.startswith('core::iter::traits::') and c.split('::')[-1] in ('rev', 'skip', 'step_by', 'filter', 'take', 'chain', 'zip')]
        if nexts and len(arrays) == 1 and not rev and bb in body.reachable(body.succ(bb)):
            arr = arrays[0][2]
            rest, _ = backward_slice(body, pl['l'], defs, stop=lambda n: n is arr)     # everything but what only the elements contribute
            rest = [x for x in rest if x[2] is not arr]
            for o in arr['rv']['ops']:
                q = op_place(o)
                esl, _ = backward_slice(body, q['l'], defs) if q else ([], set())
                out.append((bb, t, rest + esl, True))
        else:
            out.append((bb, t, sl, False))
    return out


def r1_merge_chain(ctx):
    ctx.rule('C18.R1', 'P7 provenance, on ConfigLoader::load with its private helpers inlined (P13): the receiver of Figment::extract derives from '
             'every Figment::merge site (no join/adjoin/admerge anywhere); the layers, ordered by receiver derivation (a site in a loop over an array '
             'literal counts once per element, in index order), are exactly: Yaml::file(dir.join("base.yml")), '
             'Yaml::file(dir.join(format!("{}.yml", profile.as_ref()))), Env::prefixed("PX_").split("__").ignore(strip_prefix("PX_","PX_PROFILE")); '
             'P2: the ignore() call dominates the environment merge and each merge is executed on every path to extract() (no layer is conditional).')
    from ..inline import inlined
    from ..govern import controlling_switches
    body = ctx.need('C18.R1', LOAD, ctx.fb.body(CR, LOAD))
    if body is None:
        return
    body = inlined(ctx.fb, body)
    defs = Defs(body)
    combos = [(bb, t) for bb, t in body.calls() if (callee(t) or '').startswith(FIG) and callee(t)[len(FIG):] in COMBINATORS]
    kinds = sorted({callee(t)[len(FIG):] for _, t in combos})
    layers = _layers(body, defs, [(bb, t) for bb, t in combos if callee(t) == FIG + 'merge'])
    ctx.ob('C18.R1', 'combinators', kinds == ['merge'] and len(layers) == 3, body.loc(),
           'Figment combinators used in load(): %s at %d site(s), %d layer(s) (must be `merge` only, three layers)' % (kinds, len(combos), len(layers)))
    ext = [(bb, t) for bb, t in body.calls() if callee(t) == FIG + 'extract']
    if not ctx.need('C18.R1', 'Figment::extract call', ext):
        return
    pl = op_place(ext[0][1]['args'][0])
    sl, _ = backward_slice(body, pl['l'], defs) if pl else ([], set())
    in_ext = {id(n) for c, _, n in slice_calls(sl) if c == FIG + 'merge'}
    ctx.ob('C18.R1', 'extract-on-the-chain', all(id(t) in in_ext for _, t in combos) and len(layers) == 3, body.loc(ext[0][0]),
           'extract() is called on a value derived from %d of the %d merge site(s)' % (len(in_ext), len(combos)))
    for i, (mb, t, _, looped) in enumerate(layers[:3]):
        if looped:
            # inside `for x in [..]`: the only run-time test governing the site is the iterator's own `next()` result
            cs = controlling_switches(body, mb)
            ok = all(strip_generics(w.get('enum', '')) == 'core::option::Option' for _, w in cs if 'tracing' not in (w.get('mo') or ''))
        else:
            ok = body.dominates(mb, ext[0][0])
        ctx.ob('C18.R1', 'merge-%d|unconditional' % (i + 1), ok, body.loc(mb, t),
               'merge #%d is executed on every path that reaches extract() (a layer that is merged only under a run-time test is a layer that can be skipped)' % (i + 1))
    expect = [('base file', {'figment::providers::data::Format::file', 'std::path::Path::join'}, ['base.yml']),
              ('profile file', {'figment::providers::data::Format::file', 'std::path::Path::join', 'core::convert::AsRef::as_ref'}, ['.yml']),
              ('environment', {'figment::providers::env::Env::prefixed', 'figment::providers::env::Env::split', 'figment::providers::env::Env::ignore'}, ['PX_', '__'])]
    for i, (mb, t, sl, looped) in enumerate(layers[:3]):
        name, need_calls, need_strs = expect[i]
        calls = {c for c, _, _ in slice_calls(sl)}
        strs = slice_strs(ctx.fb, body, sl)
        okc = need_calls <= calls
        # `<profile>.yml`: the literal may be one piece of the format string or split around a named constant (`"{}.{EXT}"`, EXT = "yml")
        yml = lambda: any(s.endswith('.yml') for s in strs) or any(s == 'yml' for s in strs)
        # `base.yml` in one piece, or put together from the stem `base` and the extension by the helper that also names the profile file
        whole = lambda x: any(s == x for s in strs) or (x == 'base.yml' and any(s == 'base' for s in strs) and yml())
        oks = all((yml() if x == '.yml' else whole(x)) for x in need_strs)
        extra = ''
        if name == 'base file':
            oks = oks and not any(s.endswith('.yml') and s != 'base.yml' for s in strs) and 'core::convert::AsRef::as_ref' not in calls
        if name == 'environment':
            # the ignored key derives from PROFILE_ENV_VAR stripped of the prefix
            ign = [n for c, _, n in slice_calls(sl) if c == 'figment::providers::env::Env::ignore']
            ok_ign = False
            for n in ign:
                ipl = op_place(n['args'][1])
                isl, _ = backward_slice(body, ipl['l'], defs) if ipl else ([], set())
                icalls = {c for c, _, _ in slice_calls(isl)}
                ok_ign = 'core::str::{impl str}::strip_prefix' in icalls
            extra = '; ignored key derives from strip_prefix(PROFILE_ENV_VAR): %s' % ok_ign
            okc = okc and ok_ign
        ctx.ob('C18.R1', 'merge-%d|%s' % (i + 1, name), okc and oks, body.loc(None, t),
               'merge #%d provider is built by %s with constants %s%s' % (i + 1, sorted(c.split('::')[-2] + '::' + c.split('::')[-1] for c in calls if 'figment' in c or 'Path' in c or 'AsRef' in c),
                                                                       sorted(set(s for s in strs if len(s) < 20)), extra))
    # PROFILE_ENV_VAR value
    st = [b for b in ctx.fb.bodies(CR) if b.nid == 'pavex::config::PROFILE_ENV_VAR']
    val = None
    for b in st:
        for bb, j, s in b.all_assigns():
            from ..flow import rv_operands
            for o in rv_operands(s['rv'])[0]:
                if 'str' in o:
                    val = o['str']
    ctx.ob('C18.R1', 'profile-env-var', val == 'PX_PROFILE', '', 'PROFILE_ENV_VAR = %r' % val)
    # ignore dominates the env merge
    ign_b = [bb for bb, t in body.calls() if callee(t) == 'figment::providers::env::Env::ignore']
    if layers and ign_b:
        third = layers[-1][0]
        ctx.ob('C18.R1', 'ignore-on-every-path', body.dominates(ign_b[0], third), body.loc(ign_b[0]),
               'Env::ignore(PROFILE) dominates the merge of the environment provider (PX_PROFILE is never a key, on any path)')
    else:
        ctx.need('C18.R1', 'Env::ignore call', ign_b)


def r2_errors(ctx):
    ctx.rule('C18.R2', 'P11 case evaluation: ConfigLoader::load (private helpers entered) is interpreted with ConfigProfile::load / Figment::extract '
             'failing: every path on which the failing call was made returns Err (the failure is not replaced by a default, ignored, or turned '
             'into Ok), whatever the idiom (`?`, match, map_err, early return).')
    from ..absint_std import StdSem, TagInterp
    from ..callgraph import CallGraph
    body = ctx.fb.body(CR, LOAD)
    if body is None:
        return
    cg = CallGraph(ctx.fb, [(CR, 'Rlib')])
    for name, c in (('profile', 'pavex::config::ConfigProfile::load'), ('extract', FIG + 'extract')):
        relevant = {f for f in cg.reaching({c}) if f.startswith('pavex::config::')}

        class Sem(StdSem):
            crate = CR

            def __init__(self, fb):
                super().__init__(fb)
                self.calls = 0

            def domain_call(self, interp, path, body_, bb, term, short):
                d = term.get('dest')
                if short == c and d is not None and not d.get('p'):
                    dk = (body_.id, d['l'])
                    self.calls += 1
                    path.alias.pop(dk, None)
                    path.memo.pop(dk, None)
                    path.tags[dk] = 'res:Err'
                    path.env['failed'] = True
                    return [('next', path)]
                return None

            def descend_into(self, short):
                return short in relevant and short != c

        sem = Sem(ctx.fb)
        outs = TagInterp(sem).run(body, {})
        after = [oc for oc in outs if oc[1].env.get('failed')]
        bad = [oc for oc in after if oc[0] != 'return' or oc[1].tags.get((body.id, 0)) != 'res:Err']
        if not ctx.need('C18.R2', 'a call of %s reachable from ConfigLoader::load' % c, sem.calls):
            continue
        ctx.ob('C18.R2', 'propagated|%s' % name, bool(after) and not bad, body.loc(),
               '%s failing: %d path(s) continue after the failure, %d of them do not return Err%s' % (
                   c.split('::')[-2] + '::' + c.split('::')[-1], len(after), len(bad),
                   '' if not bad else ' (e.g. %s)' % [(oc[0], oc[1].tags.get((body.id, 0))) for oc in bad[:2]]))


def r3_macro_one_name_per_variant(ctx):
    ctx.rule('C18.R3', 'P7 on the derive macro (proc-macro crate MIR): inside the per-variant loop of derive_config_profile every String '
             'interpolated into a generated match arm (`quote!` -> ToTokens::to_tokens on &String) is the same local — the name that '
             'FromStr accepts is the name AsRef returns (it selects `<name>.yml`).')
    MC = ('pavex_macros', 'ProcMacro')
    if MC not in ctx.fb.available():
        ctx.need('C18.R3', 'fact file of the proc-macro crate pavex_macros', None)
        return
    from ..inline import inlined, closures_of
    from ..callgraph import CallGraph
    root = 'pavex_macros::config_profile::derive_config_profile'
    b0 = ctx.need('C18.R3', 'derive_config_profile', ctx.fb.body('pavex_macros', root, 'ProcMacro'))
    if b0 is None:
        return
    # the derive's family: the entry point with its private helpers inlined, their closures, and the functions of the module that are
    # only reachable from it (e.g. a helper handed to an iterator adaptor as a function value)
    b = inlined(ctx.fb, b0)
    cg = CallGraph(ctx.fb, [MC])
    reach = {f for f in cg.reachable({root}) if f.startswith('pavex_macros::config_profile::')}
    parts = [b] + closures_of(ctx.fb, b)
    seen = {x.nid for x in parts} | set(b.raw.get('extra_roots', []))
    for f in sorted(reach):
        for x in ctx.fb.bodies_of_item('pavex_macros', f, 'ProcMacro'):
            if x.nid not in seen and not x.is_promoted and x.nroot not in b.raw.get('extra_roots', []) and x.nroot != root:
                parts.append(x)
                seen.add(x.nid)
    TOK = 'quote::to_tokens::ToTokens::to_tokens'
    sources = {}
    for x in parts:
        defs = Defs(x)
        for bb, t in x.calls():
            if callee(t) != TOK or t['aty'][0] not in ('&alloc::string::String', '&&alloc::string::String'):
                continue
            if x is b or not x.nid.startswith(root + '::{closure') and not any(x.nid.startswith(r + '::{closure') for r in b.raw.get('extra_roots', [])):
                if not (bb in x.reachable(x.succ(bb))):
                    continue                  # not a per-variant template
                pl = op_place(t['args'][0])
                ref, cur = None, pl['l']
                for _ in range(6):
                    nxt = None
                    for (dbb, j, node) in defs.full.get(cur, []):
                        rv = node.get('rv')
                        if rv and rv['k'] == 'ref':
                            if not rv['pl'].get('p'):
                                ref = rv['pl']['l']
                            elif rv['pl']['p'] == ['*']:
                                nxt = rv['pl']['l']
                        elif rv and rv['k'] == 'use' and op_place(rv['op']) and not op_place(rv['op']).get('p'):
                            nxt = op_place(rv['op'])['l']
                    if ref is not None or nxt is None:
                        break
                    cur = nxt
                sources[(x.nid, bb)] = ('local', ref)
            else:
                # a per-variant template written as a closure handed to an iterator adaptor: the string must be the closure's own item
                # (its parameter), and the adaptor's receiver decides which sequence of (variant, name) pairs it sees
                pl = op_place(t['args'][0])
                sl, locs = backward_slice(x, pl['l'], defs) if pl else ([], set())
                from_param = 2 in locs and not [c for c, _, _ in slice_calls(sl) if c.split('::')[-1] in ('to_case', 'value', 'to_string', 'format', 'clone')]
                src = None
                for cb, j, st in b.all_assigns():
                    if st['rv']['k'] == 'agg' and st['rv'].get('ak') == 'closure' and strip_generics(st['rv'].get('def', '')) == x.nid:
                        for ab, at in b.calls():
                            if (callee(at) or '').startswith('core::iter::traits::iterator::Iterator::') and any(op_place(a) == st['lhs'] for a in at['args'][1:]):
                                rsl, _ = backward_slice(b, op_place(at['args'][0])['l'], Defs(b))
                                zips = sorted({n.get('ln') for c, _, n in slice_calls(rsl) if c.endswith('Iterator::zip')})
                                src = ('zip', tuple(zips)) if len(zips) == 1 and from_param else None
                if src is None and from_param:
                    # the item of the iteration is a struct that holds the variant and its name side by side (`ProfileVariant { ident, profile_name }`):
                    # the interpolated string is a field of the closure's own item — the pairing cannot drift
                    flds = set()
                    for _, _, nd in sl:
                        rv = nd.get('rv')
                        q = (rv.get('pl') if rv and rv['k'] in ('ref', 'cfd') else (op_place(rv['op']) if rv and rv['k'] == 'use' else None)) if rv else None
                        if q is not None and q['l'] == 2:
                            fs = [e[2:] for e in q.get('p', []) if e.startswith('f:')]
                            fo = q.get('fo') or []
                            if fs:
                                flds.add(((fo[0] if fo else '?').split('::')[-1].split('<')[0], fs[0]))
                    if len(flds) == 1:
                        src = ('field',) + list(flds)[0]
                sources[(x.nid, bb)] = src if src else ('unknown', x.loc(bb, t))
    ctx.floor('C18.R3', 'String interpolations in the per-variant templates', len(sources), 2)
    # the explicit `#[px(profile = "..")]` name is used as written: case conversion applies to the identifier-derived default only
    CONV = ('to_case', 'to_lowercase', 'to_uppercase', 'to_ascii_lowercase', 'to_ascii_uppercase', 'to_snake_case', 'to_kebab_case', 'replace', 'trim')
    nlits, bad = 0, []
    for x in parts:
        defs = Defs(x)
        nlits += sum(1 for bb, t in x.calls() if (callee(t) or '').endswith('LitStr::value'))
        for bb, t in x.calls():
            if (callee(t) or '').split('::')[-1] not in CONV:
                continue
            pl = op_place(t['args'][0])
            sl, _ = backward_slice(x, pl['l'], defs) if pl else ([], set())
            if any(c.endswith('LitStr::value') for c, _, _ in slice_calls(sl)):
                bad.append(x.loc(bb, t))
    if ctx.need('C18.R3', 'LitStr::value (explicit profile name) in the derive', nlits):
        ctx.ob('C18.R3', 'explicit-name-unmodified', not bad, bad[0] if bad else b.loc(),
               'string conversions applied to a value that can come from the explicit `profile = ".."` attribute: %s (the name the user wrote is the name of '
               'the file and the value of PX_PROFILE)' % (bad or 'none'))
    vals = set(sources.values())
    ok = len(vals) == 1 and all(v[0] in ('local', 'zip', 'field') and v[1] not in (None, ()) for v in vals)
    ctx.ob('C18.R3', 'one-name-per-variant', ok, b.loc(),
           'sources of the String interpolated in the per-variant match arms: %s (%s)' % (
               sorted(str(v) for v in vals), 'one and the same' if ok else 'DIFFERENT (or unrecognised) strings for parsing and for naming'))


def r4_required_stays_required(ctx):
    from .c19 import r14_an_explicit_call_is_recorded
    r14_an_explicit_call_is_recorded(ctx, 'C18.R4', 'shared with C19.R14 — "a missing required key is an error, not a default" holds for a config type only if the `required()` the '
                                     'user wrote reaches the compiler. ')


def check(ctx):
    from .c19 import r17_macro_strings_are_written_as_given
    r17_macro_strings_are_written_as_given(ctx, 'C18.R5', 'shared with C19.R17 (the configuration key only) — the key is what links the generated `ApplicationConfig` field to the entry of `base.yml` / `<profile>.yml` / `PX_<KEY>__..`: ', only='config::')
    r4_required_stays_required(ctx)
    r1_merge_chain(ctx)
    r2_errors(ctx)
    r3_macro_one_name_per_variant(ctx)


CLAUSE += ' Also: the configuration key the macro forwards is the key the user wrote.'
