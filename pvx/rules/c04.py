"""C04 — Injection is faithful: right constructor, right scope, no illicit copies.

Decided clauses: constructor lookup walks from the requesting scope towards the parents only and checks the current scope
first; every nested blueprint gets its own scope; within a scope the latest registration replaces the earlier one; the only
producer of `Clone::clone` components refuses never-clone types; the blueprint setters record what they were given.
Which registration a given route resolves to is not decided.
"""
from ..facts import callee, op_place, strip_generics
from ..flow import Defs, backward_slice, slice_calls, slice_strs, forward_derived
from ..govern import field_reads_of_place
from ..tables import guard_context
from .compiler_common import PX

LEVEL = 'other'
TECHNIQUE = 'static analysis: scope-walk shape (loop form or from_fn/find_map iterator form) by dominance, reachability and provenance on the function with its private helpers inlined; append-only list audit; scope provenance of component records'
CLAUSE = ('ConstructibleDb::get / get_or_try_bind test the current scope before extending the search, and extend it with direct_parent_ids '
          'only; process_blueprint creates a new scope for every nested blueprint and processes it in that scope; '
          'ConstructiblesInScope::insert overwrites (latest registration wins); get_clone_component_id is the only builder of a `clone` '
          'callable and returns None for NeverClone before building it; each Registered* setter stores Some(value derived from its argument). Every ResolvedImport is recorded under shape tests only (no seen-set de-duplication) with the scope of its raw import.')
TRUSTED = ['ScopeGraph::direct_parent_ids returns exactly the enclosing scopes', 'HashMap::insert replaces the previous value for a key']

A = PX + 'analyses::'
CONS = A + 'constructibles::'
SG = A + 'user_components::scope_graph::ScopeId::'


def r1_lookup_direction(ctx):
    from .chains_common import scope_lookup_shape, concrete_before_templated
    ctx.rule('C04.R1', 'P2/P3 + sibling agreement: ConstructibleDb::get and ::get_or_try_bind walk scopes FIFO from the requesting scope, test the '
             'scope just popped before extending the queue, extend it only with ScopeId::direct_parent_ids (never children), and a miss in a '
             'scope always continues to its parents (the result of the per-scope lookup is returned only under its Some arm).')
    scope_lookup_shape(ctx, 'C04.R1', CONS + 'ConstructibleDb::get', CONS + 'ConstructiblesInScope::get')
    scope_lookup_shape(ctx, 'C04.R1', CONS + 'ConstructibleDb::get_or_try_bind', CONS + 'ConstructiblesInScope::get_or_try_bind')
    concrete_before_templated(ctx, 'C04.R1', CONS + 'ConstructiblesInScope::get_or_try_bind', CONS + 'ConstructiblesInScope::get')


def r2_scopes_and_overrides(ctx):
    ctx.rule('C04.R2', 'P1/P3: process_blueprint calls ScopeGraphBuilder::add_scope for every nested blueprint it dequeues (unconditionally, before '
             'processing it) and hands the new scope to _process_blueprint; ConstructiblesInScope::insert stores with HashMap::insert '
             '(overwrite = latest wins), not with entry()/or_insert/contains_key guards.')
    BP = A + 'user_components::blueprint::'
    b = ctx.need('C04.R2', 'process_blueprint', ctx.fb.body('pavexc', BP + 'process_blueprint'))
    if b is not None:
        defs = Defs(b)
        add = [(bb, t) for bb, t in b.calls() if (callee(t) or '').endswith('ScopeGraphBuilder::add_scope')]
        inner = [(bb, t) for bb, t in b.calls() if callee(t) == BP + '_process_blueprint' and bb in b.reachable(b.succ(bb))]
        ok = False
        if add and inner:
            ab = add[0][0]
            ib, it = inner[0]
            # the scope argument (3rd) of the nested call derives from add_scope's result
            scope_args = [a for a, ty in zip(it['args'], it['aty']) if ty.endswith('scope_graph::ScopeId')]
            from_add = False
            for a in scope_args:
                pl = op_place(a)
                if pl:
                    sl, _ = backward_slice(b, pl['l'], defs)
                    from_add = from_add or any((c or '').endswith('ScopeGraphBuilder::add_scope') for c, _, _ in slice_calls(sl))
            ok = b.dominates(ab, ib) and from_add and ab in b.reachable(b.succ(ab))
        ctx.ob('C04.R2', 'own-scope-per-nested-blueprint', ok, b.loc(add[0][0]) if add else b.loc(),
               'every dequeued nested blueprint gets add_scope(parent) and is processed in that new scope: %s' % ok)
    ins = ctx.need('C04.R2', 'ConstructiblesInScope::insert', ctx.fb.body('pavexc', CONS + 'ConstructiblesInScope::insert'))
    if ins is not None:
        def map_ops(body, depth=0):
            out = []
            for bb, t in body.calls():
                c = callee(t) or ''
                if t['aty'] and any(k in t['aty'][0] for k in ('HashMap', 'IndexMap', 'BTreeMap', 'Entry<')):
                    out.append(c.split('::')[-1])
                elif depth < 2 and c.startswith(CONS):
                    cb = ctx.fb.body('pavexc', c)
                    if cb is not None:
                        out += map_ops(cb, depth + 1)
            return out
        names = map_ops(ins)
        bad = [n for n in names if n in ('entry', 'or_insert', 'or_insert_with', 'contains_key', 'try_insert', 'or_default')]
        ctx.ob('C04.R2', 'latest-registration-wins', 'insert' in names and not bad, ins.loc(),
               'map operations reachable from ConstructiblesInScope::insert: %s (first-wins idioms: %s)' % (names, bad or 'none'))
    from .chains_common import own_scope_everywhere, vec_append_only
    own_scope_everywhere(ctx, 'C04.R2')
    vec_append_only(ctx, 'C04.R2', 'pavexc', A + 'user_components::imports::resolve_imports', 'ResolvedImport', 'the list of resolved imports')
    bind = ctx.fb.body('pavexc', CONS + 'ConstructiblesInScope::bind_and_register_constructor')
    if bind is not None:
        names = [(callee(t) or '').split('::')[-1] for bb, t in bind.calls() if any(k in (t['aty'][0] if t['aty'] else '') for k in ('HashMap<rustdoc_ir', 'IndexMap<rustdoc_ir'))]
        bad = [n for n in names if n in ('entry', 'or_insert', 'or_insert_with', 'try_insert')]
        ctx.ob('C04.R2', 'bound-constructor-registered-by-overwrite', not bad, bind.loc(), 'map operations on the type tables in bind_and_register_constructor: %s' % names)


def r3_clone_guard(ctx):
    ctx.rule('C04.R3', 'P3/P1: the only body of pavexc that builds a callable for the trait method `clone` is get_clone_component_id, and every path '
             'to its Some(..) result passes the cloning-policy test on its NeverClone-returns-None branch.')
    fn = A + 'call_graph::borrow_checker::clone::get_clone_component_id'
    builders = []
    for b in ctx.fb.bodies('pavexc'):
        if b.is_promoted:
            continue
        for bb, j, st in b.all_assigns():
            rv = st['rv']
            if rv['k'] == 'agg' and rv.get('ak') == 'adt' and strip_generics(rv['adt']).endswith('TraitMethodPath'):
                defs = Defs(b)
                i = rv['fields'].index('method_name') if 'method_name' in rv['fields'] else None
                strs = []
                if i is not None:
                    pl = op_place(rv['ops'][i])
                    if pl:
                        sl, _ = backward_slice(b, pl['l'], defs)
                        strs = slice_strs(ctx.fb, b, sl)
                if 'clone' in strs:
                    builders.append((b, bb, st))
    ctx.floor('C04.R3', 'builders of a `clone` trait-method callable', len(builders), 1)
    from .compiler_common import family_items
    fam = family_items(ctx, 'pavexc', [fn])
    for b, bb, st in builders:
        ctx.ob('C04.R3', 'clone-builder|%s' % b.nroot.split('::')[-1], b.nroot in fam, b.loc(bb, st),
               '`clone` callable built in %s%s' % (b.nroot, '' if b.nroot == fn or b.nroot not in fam else ' (private helper of get_clone_component_id)'))
    g = ctx.need('C04.R3', 'get_clone_component_id', ctx.fb.body('pavexc', fn))
    if g is not None:
        pol = [(bb, t) for bb, t in g.calls() if (callee(t) or '').endswith('ComponentDb::cloning_policy')]
        somes = [bb for bb, j, st in g.all_assigns() if st['lhs'] == {'l': 0} and st['rv']['k'] == 'agg' and st['rv'].get('var') == 'Some']
        ok = False
        if pol and somes:
            # the comparison with NeverClone: its true edge returns None, Some is reachable only from the false edge
            d = forward_derived(g, {pol[0][1]['dest']['l']}, through_calls=True)
            for sb in g.live_blocks():
                w = g.term(sb)
                if w and w['k'] == 'switch' and 'enum' not in w and op_place(w['d']) and op_place(w['d'])['l'] in d and g.dominates(sb, somes[0]):
                    zero = [tg for v, tg in w['ts'] if v == '0']
                    ok = all(s not in g.reachable(w['else'], avoid=zero) for s in somes) and all(g.dominates(pol[0][0], s) for s in somes)
            consts = []
            for bb, t in g.calls():
                if (callee(t) or '').startswith('core::cmp::PartialEq::eq') and 'CloningPolicy' in t['aty'][0]:
                    for a in t['args']:
                        pl = op_place(a)
                        if pl:
                            sl, _ = backward_slice(g, pl['l'], through_calls=False)
                            consts += slice_strs(ctx.fb, g, sl)
                            for _, _, n in sl:
                                rv = n.get('rv')
                                if rv and rv['k'] == 'agg' and rv.get('adt', '').endswith('CloningPolicy'):
                                    consts.append(rv['var'])
            ok = ok and (not consts or 'NeverClone' in consts or any('NeverClone' in c for c in consts))
        if not ok:
            # P11 case evaluation: with the policy lookup answering NeverClone, the function (private helpers entered) returns None on every path
            from ..absint_std import StdSem, TagInterp
            CP = None
            for a_ in ctx.fb.adts('pavexc'):
                if strip_generics(a_['id']).endswith('::CloningPolicy'):
                    CP = strip_generics(a_['id'])

            class Sem(StdSem):
                crate = 'pavexc'

                def __init__(self, fb):
                    super().__init__(fb)
                    self.asked = 0

                def domain_call(self, interp, path, body, bb_, term, short):
                    d_ = term.get('dest')
                    if short.endswith('ComponentDb::cloning_policy') and d_ is not None and not d_.get('p'):
                        self.asked += 1
                        dk = (body.id, d_['l'])
                        path.alias.pop(dk, None)
                        path.memo.pop(dk, None)
                        path.tags[dk] = 'ev:%s::NeverClone' % strip_generics(body.locals[d_['l']])
                        path.env['never'] = True
                        return [('next', path)]
                    return None

                def descend_into(self, short):
                    return short in fam and short != fn

            sem = Sem(ctx.fb)
            try:
                outs = TagInterp(sem, max_paths=5000).run(g, {})
                after = [oc for oc in outs if oc[0] == 'return' and oc[1].env.get('never')]
                ok = sem.asked > 0 and bool(after) and all(oc[1].tags.get((g.id, 0)) == 'opt:None' for oc in after)
            except RuntimeError:
                ok = False
        ctx.ob('C04.R3', 'never-clone-returns-none', ok, g.loc(pol[0][0]) if pol else g.loc(),
               'Some(clone component) is reachable only when cloning_policy() != NeverClone: %s' % ok)


def r4_setters(ctx):
    ctx.rule('C04.R4', 'P7 (shared with C19): every Registered*::{lifecycle, cloning, error_handler} setter of pavex::blueprint assigns the like-named '
             'schema field an unconditional Some(..) whose payload derives from the method\'s argument (a setter never records "nothing").')
    want = {'lifecycle': 'lifecycle', 'cloning': 'cloning_policy', 'error_handler': 'error_handler'}
    n = 0
    for b in ctx.fb.bodies('pavex'):
        if b.is_promoted or not b.nid.startswith('pavex::blueprint::') or b.nid != b.nroot:
            continue
        m = b.nid.split('::')[-1]
        if m not in want or 'Registered' not in b.nid or b.raw['argc'] != 2:
            continue
        n += 1
        defs = Defs(b)
        stores = [(bb, st) for bb, j, st in b.all_assigns() if st['lhs'].get('p') and want[m] in field_reads_of_place(st['lhs'])]
        ok = bool(stores)
        detail = []
        for bb, st in stores:
            rv = st['rv']
            src_locals = set()
            some = rv['k'] == 'agg' and rv.get('var') == 'Some'
            if rv['k'] == 'use' and op_place(rv['op']):
                sl, src_locals = backward_slice(b, op_place(rv['op'])['l'], defs)
                some = any('rv' in n_ and n_['rv']['k'] == 'agg' and n_['rv'].get('var') == 'Some' for _, _, n_ in sl) and \
                    not any('rv' in n_ and n_['rv']['k'] == 'agg' and n_['rv'].get('var') == 'None' for _, _, n_ in sl)
            elif some:
                pl = op_place(rv['ops'][0])
                if pl:
                    _, src_locals = backward_slice(b, pl['l'], defs)
            from_arg = 2 in src_locals
            ok = ok and some and from_arg
            detail.append('Some:%s from-argument:%s' % (some, from_arg))
        # and the store happens on every path
        rets = set(b.return_blocks())
        if stores:
            ok = ok and not (b.reachable_from_entry(avoid=[bb for bb, _ in stores]) & rets)
        ctx.ob('C04.R4', 'setter|%s' % b.nid.replace('pavex::blueprint::', ''), ok, b.loc(), '%s writes .%s: %s' % (m, want[m], detail or 'NO STORE FOUND'))
    ctx.floor('C04.R4', 'blueprint setters checked', n, 6)


# the only place where a component is anchored to the root scope on purpose: the framework's own items (request head, body, ...)
ROOT_SCOPE_ALLOWED = {'ComponentDb::build': 'framework primitives are visible to the whole application'}


def r5_scope_provenance(ctx):
    ctx.rule('C04.R5', 'P7 provenance: every component record built in analyses::components::db (synthetic constructors for prebuilt/config types, '
             'matchers, transformers, bound generics, ...) takes its scope_id from the scope of the component it derives from '
             '(UserComponentDb::scope_id / ComponentDb::scope_id) or from a parameter — never from ScopeGraph::root_scope_id, except in the '
             'reviewed table (framework items in ComponentDb::build). A component hoisted to the root scope becomes visible to sibling '
             'blueprints and overrides the root\'s own registration.')
    n = 0
    for b in ctx.fb.bodies('pavexc'):
        if b.is_promoted or 'analyses::components::db' not in b.nid:
            continue
        defs = None
        k = 0
        for bb, j, st in b.all_assigns():
            rv = st['rv']
            if rv['k'] != 'agg' or rv.get('ak') != 'adt' or 'scope_id' not in rv.get('fields', []):
                continue
            defs = defs or Defs(b)
            n += 1
            k += 1
            pl = op_place(rv['ops'][rv['fields'].index('scope_id')])
            calls, locs = set(), set()
            if pl is not None:
                sl, locs = backward_slice(b, pl['l'], defs)
                calls = {c for c, _, _ in slice_calls(sl)}
            short = '::'.join(b.nid.split('::')[-2:])
            root = any(c.endswith('::root_scope_id') for c in calls)
            getter = any(c.endswith('::scope_id') for c in calls)
            param = any(1 <= l <= b.raw['argc'] for l in locs)
            ok = (getter or param or not calls) and (not root or short in ROOT_SCOPE_ALLOWED)
            ctx.ob('C04.R5', 'scope-of|%s|%s#%d' % (short, rv.get('var'), k), ok, b.loc(bb, st),
                   '%s.scope_id built in %s derives from %s%s' % (rv.get('var'), short, sorted(c.split('::')[-2] + '::' + c.split('::')[-1] for c in calls if 'scope' in c.lower()) or 'a parameter / field',
                                                                 '' if ok else ': anchored to the ROOT scope'))
    ctx.floor('C04.R5', 'component records with a scope built in components::db', n, 10)


SHAPE_CALLS = {'next', 'is_some', 'is_none', 'is_empty', 'len', 'iter', 'iter_mut', 'into_iter', 'as_mut', 'as_ref', 'deref', 'deref_mut', 'enumerate'}


def r6_every_import_resolved(ctx):
    from ..govern import controlling_switches
    ctx.rule('C04.R6', 'P12 decision audit: an import is registered IN a blueprint, and what it brings in lands in that blueprint\'s scope. In '
             '`user_components::imports::resolve_imports` (its closures and private helpers included) every resolved import is recorded: '
             'whether the push of a `ResolvedImport` happens depends only on the shape of the input (the loops over the imports and their '
             'sources, which `Sources` variant, whether a lookup failed) — never on a boolean computed from other state (a "seen" set, a '
             'comparison with an earlier import). Two sibling blueprints importing the same module are two imports; dropping the second '
             'leaves its scope empty and the scope walk silently answers with the ancestor\'s constructor. The scope recorded in each '
             'ResolvedImport is the one of the raw import.')
    root = PX + 'analyses::user_components::imports::resolve_imports'
    bodies = [b for b in ctx.fb.bodies('pavexc') if not b.is_promoted and (b.nroot == root or b.nid == root)]
    if not ctx.need('C04.R6', 'user_components::imports::resolve_imports', bodies):
        return
    # private helpers of the same file that are handed the result vector
    fam = list(bodies)
    for b in ctx.fb.bodies('pavexc'):
        if b.is_promoted or b in fam or b.file != bodies[0].file:
            continue
        if any('ResolvedImport' in ty and 'Vec<' in ty for ty in b.locals[1:1 + b.raw['argc']]):
            fam.append(b)
    n = 0
    for b in fam:
        defs = Defs(b)
        for bb, t in b.calls():
            c = callee(t) or ''
            if c.split('::')[-1] not in ('push', 'extend', 'insert', 'push_back') or not any('ResolvedImport' in (a or '') for a in t.get('aty', [])):
                continue
            n += 1
            bad = []
            for sb, st in controlling_switches(b, bb):
                if 'enum' in st:
                    continue
                pl = op_place(st['d'])
                sl, _ = backward_slice(b, pl['l'], defs) if pl is not None else ([], set())
                cs = {x.split('::')[-1] for x, _, _ in slice_calls(sl)}
                if cs and not (cs - SHAPE_CALLS):
                    continue
                bad.append('%s at %s' % (sorted(cs) or 'a flag', b.loc(sb)))
            ctx.ob('C04.R6', 'import-always-recorded|%s|#%d' % ('::'.join(b.nid.split('::')[-2:]), n), not bad, b.loc(bb, t),
                   'the push of a ResolvedImport is governed by shape tests only%s' % ('' if not bad else ' — NO: it also depends on ' + '; '.join(bad)))
    # scope provenance
    n_agg = 0
    for b in fam:
        defs = Defs(b)
        for bb, j, st in b.all_assigns():
            rv = st['rv']
            if rv['k'] == 'agg' and rv.get('ak') == 'adt' and strip_generics(rv['adt']).endswith('imports::ResolvedImport') and 'scope_id' in rv.get('fields', []):
                n_agg += 1
                o = rv['ops'][rv['fields'].index('scope_id')]
                pl = op_place(o)
                ok = False
                if pl is not None:
                    if 'f:scope_id' in pl.get('p', []):
                        ok = True
                    else:
                        sl, _ = backward_slice(b, pl['l'], defs, through_calls=False)
                        for _, _, node in sl:
                            for q in ([node['rv'].get('pl')] if 'rv' in node and node['rv'].get('pl') else []) + \
                                     ([op_place(node['rv']['op'])] if 'rv' in node and node['rv']['k'] in ('use', 'cast') and op_place(node['rv'].get('op')) else []):
                                if q and 'f:scope_id' in q.get('p', []):
                                    ok = True
                ctx.ob('C04.R6', 'import-scope|%s|#%d' % (b.nid.split('::')[-1], n_agg), ok, b.loc(bb, st), 'ResolvedImport.scope_id is read from the `scope_id` field of the raw import: %s' % ok)
    ctx.floor('C04.R6', 'sites recording a resolved import', n, 1)
    ctx.floor('C04.R6', 'ResolvedImport values built', n_agg, 1)


def r7_generic_matching_is_faithful(ctx):
    ctx.rule('C04.R7', 'shared with C17.R13: whether the NEAREST generic constructor is the one that is bound for an injected type is decided by `Type::is_a_template_for`: a matcher that wrongly says "no match" sends the scope walk on to the parent blueprint, silently. The recursive calls of the template matcher keep the roles of template and concrete operand, and parts of the two '
             'operands are not compared by derived equality outside the reviewed sites.')
    from .c17 import r13_template_roles_and_relation
    from ..engine import Ctx
    side = Ctx(ctx.prop, ctx.fb, ctx.tier)
    r13_template_roles_and_relation(side)
    for ob in side.obs:
        ctx.ob('C04.R7', ob.key, ob.ok, ob.loc, ob.detail, ob.nontrivial)


def r8_never_clone_is_enforced_for_every_type(ctx):
    ctx.rule('C04.R8', 'shared with C08.R7 (the two cloning checkers only): "a never-clone component is never cloned" is enforced by '
             '`cloneables_can_be_cloned` and, for singletons handed out of the application state, by `runtime_singletons_can_be_cloned_if_needed` — the '
             'only thing in front of the unconditional `state.<field>.clone()` the code generator emits for an owned state input. What those two loops skip '
             'is decided by the reviewed predicates and by comparisons of the reviewed types (policies, lifecycles, edge kinds) only: a skip that looks at '
             'the TYPE of the singleton ("an Arc is cheap to clone") clones a never-clone value without a diagnostic.')
    from .c08 import r7_skip_conditions
    from ..engine import Ctx
    side = Ctx(ctx.prop, ctx.fb, ctx.tier)
    r7_skip_conditions(side)
    n = 0
    for ob in side.obs:
        if 'cloning' in ob.key and not ob.key.startswith('floor'):
            n += 1
            ctx.ob('C04.R8', ob.key, ob.ok, ob.loc, ob.detail, ob.nontrivial)
    ctx.floor('C04.R8', 'obligations on the cloning checkers', n, 4)


COMPOSITE_TYPES = ('Path', 'TypeAlias', 'Tuple', 'Array')


def r9_no_composite_type_is_copy_by_variant(ctx):
    from ..tables import enum_switches, switch_edges
    ctx.rule('C04.R9', 'P5 on the match over `Type` in `runtime_singletons_can_be_cloned_if_needed`: the owned inputs that are waved through without looking at the '
             'cloning policy are the variants that are Copy by construction (scalars, shared references, pointers). A composite type - Path, TypeAlias, Tuple, '
             'Array - is Copy only if its parts are, so none of them shares the arm of `ScalarPrimitive`: an array of a non-Copy type (`[Pool; 2]`) registered '
             'never_clone would otherwise be cloned out of the application state on every request without a diagnostic.')
    item = PX + 'analyses::application_state::cloning::runtime_singletons_can_be_cloned_if_needed'
    bodies = [b for b in ctx.fb.bodies_of_item('pavexc', item) if not b.is_promoted]
    if not ctx.need('C04.R9', 'runtime_singletons_can_be_cloned_if_needed', bodies):
        return
    n = 0
    for b in bodies:
        for bb, t in enum_switches(b):
            if strip_generics(t['enum']) != 'rustdoc_ir::Type':
                continue
            e = switch_edges(t)
            if 'ScalarPrimitive' not in e:
                continue
            if not (set(b.reachable([e['ScalarPrimitive']])) & set(b.return_blocks())):
                continue            # `let Type::Path(x) = .. else { unreachable!() }`: the other arm does not go on
            n += 1
            skipped = sorted(v for v in e if e[v] == e['ScalarPrimitive'])
            bad = [v for v in skipped if v in COMPOSITE_TYPES]
            ctx.ob('C04.R9', 'copy-by-variant|%s' % '+'.join(skipped), not bad, b.loc(bb),
                   'variants that share the arm of ScalarPrimitive: %s%s' % (skipped, '' if not bad else ' — composite: %s' % bad))
    ctx.floor('C04.R9', 'matches over Type in the singleton cloning check', n, 1)


def check(ctx):
    r9_no_composite_type_is_copy_by_variant(ctx)
    r8_never_clone_is_enforced_for_every_type(ctx)
    r7_generic_matching_is_faithful(ctx)
    r1_lookup_direction(ctx)
    r2_scopes_and_overrides(ctx)
    r3_clone_guard(ctx)
    r4_setters(ctx)
    r5_scope_provenance(ctx)
    r6_every_import_resolved(ctx)


CLAUSE += ' Also: what the two cloning checkers skip is decided by reviewed predicates and comparisons of reviewed types only.'
