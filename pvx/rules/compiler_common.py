"""Shared views for the compiler-side properties (C01-C10): call graph of pavexc, may-push set, sink gates."""
from ..callgraph import CallGraph
from ..facts import callee, callee_resolved, op_place, strip_generics

PX = 'pavexc::compiler::'
SINK = 'pavexc::diagnostic::sink::DiagnosticSink::'
PUSH = SINK + 'push'
_cache = {}


def cg(ctx):
    key = id(ctx.fb)
    if key not in _cache:
        g = CallGraph(ctx.fb, [('pavexc', 'Rlib')])
        _cache[key] = (g, g.reaching({PUSH}))
    return _cache[key]


def may_push(ctx):
    return cg(ctx)[1]


def item_bodies(ctx, nroot):
    return ctx.fb.bodies_of_item('pavexc', nroot)


def main_body(ctx, nroot):
    return ctx.fb.body('pavexc', nroot)


def err_unit_sites(b):
    """(bb, stmt) of `Err(())` aggregates"""
    out = []
    for bb, j, st in b.all_assigns():
        rv = st['rv']
        if rv['k'] == 'agg' and rv.get('var') == 'Err' and strip_generics(rv.get('adt', '')) == 'core::result::Result':
            o = rv['ops'][0]
            pl = op_place(o)
            ty = b.locals[pl['l']] if pl else o.get('ty')
            if ty == '()':
                out.append((bb, st))
    return out


def must_push(ctx):
    """functions of pavexc that push a diagnostic on EVERY path from entry to return (fixpoint; closures ignored)"""
    key = ('must', id(ctx.fb))
    if key in _cache:
        return _cache[key]
    must = {PUSH}
    bodies = {}
    for b in ctx.fb.bodies('pavexc'):
        if not b.is_promoted and b.nid == b.nroot:
            bodies[b.nid] = b
    changed = True
    while changed:
        changed = False
        for nid, b in bodies.items():
            if nid in must:
                continue
            pb = [bb for bb, t in b.calls() if callee(t) in must or callee_resolved(t) in must]
            if not pb:
                continue
            rets = set(b.return_blocks())
            if rets and not (b.reachable_from_entry(avoid=pb) & rets):
                must.add(nid)
                changed = True
    _cache[key] = must
    return must


def derived_inherits(ctx, rule, field, enum_suffix, what):
    """Component records built in analyses::components::db with `derived_from: Some(..)` (matchers, prebuilt/config constructors): `field` is
    read from the component they derive from (a getter / the id2* table / a parameter) and is not replaced by, or re-mapped to, a constant."""
    from ..facts import op_place
    from ..flow import Defs, backward_slice, slice_calls, slice_aggregates
    n = 0
    for b in ctx.fb.bodies('pavexc'):
        if b.is_promoted or 'analyses::components::db' not in b.nid:
            continue
        defs = None
        k = 0
        for bb, j, st in b.all_assigns():
            rv = st['rv']
            if rv['k'] != 'agg' or rv.get('ak') != 'adt' or field not in rv.get('fields', []) or 'derived_from' not in rv.get('fields', []):
                continue
            defs = defs or Defs(b)
            dpl = op_place(rv['ops'][rv['fields'].index('derived_from')])
            dsl, _ = backward_slice(b, dpl['l'], defs) if dpl else ([], set())
            if not any(v == 'Some' for a, v, _, _ in slice_aggregates(dsl)):
                continue    # not a derived component (or decided by the caller: a parameter)
            n += 1
            k += 1
            o = rv['ops'][rv['fields'].index(field)]
            pl = op_place(o)
            consts, calls, locs = [], set(), set()
            if pl is not None:
                sl, locs = backward_slice(b, pl['l'], defs)
                calls = {c for c, _, _ in slice_calls(sl)}
                consts = sorted({str(v) for a, v, _, _ in slice_aggregates(sl) if a.endswith(enum_suffix)})
            else:
                consts = ['<constant operand>']
            short = '::'.join(b.nid.split('::')[-2:])
            inherited = any(c.split('::')[-1] in (field, 'index', 'get', 'lifecycle', 'cloning_policy') for c in calls) or any(1 <= l <= b.raw['argc'] for l in locs)
            ok = inherited and not consts
            ctx.ob(rule, 'inherits-%s|%s#%d' % (field, short, k), ok, b.loc(bb, st),
                   'the derived component built in %s takes its %s from %s%s' % (short, what, sorted(c.split('::')[-2] + '::' + c.split('::')[-1] for c in calls)[:4] or 'nothing',
                                                                               '' if not consts else ' and from the constant(s) %s: it no longer follows the component it derives from' % consts))
    ctx.floor(rule, 'derived component records carrying a %s' % what, n, 3)


def expand_same_file(ctx, crate, c, home, stop=(), seen=None):
    """A private helper that lives in the same file as the function under analysis is a piece of that function that was given a name:
    what counts is what it calls, however many helpers deep. Accessors / predicates defined elsewhere keep their own name."""
    from ..facts import callee as _callee, strip_generics as _sg
    seen = seen if seen is not None else set()
    if c in seen:
        return set()
    if not c.startswith(crate + '::') or c in stop:
        return {c}
    hb = ctx.fb.bodies_of_item(crate, c)
    if not hb or hb[0].file != home:
        return {c}
    seen.add(c)
    out = set()
    for x in hb:
        for _, t in x.calls():
            cc = _sg(_callee(t) or '')
            if cc and cc != c:
                out |= expand_same_file(ctx, crate, cc, home, stop, seen)
    return out


def slice_calls_with_closures(b, sl):
    """callees in a slice, plus the callees of closures constructed in it"""
    from ..facts import callee as _callee, strip_generics as _sg
    from ..flow import slice_calls as _sc
    cs = {_sg(c) for c, _, _ in _sc(sl) if c}
    for _, _, node in sl:
        rv = node.get('rv')
        if rv and rv['k'] == 'agg' and rv.get('ak') == 'closure' and rv.get('def'):
            for x in b.fb.bodies_of_item(b.crate, b.nroot):
                if x.id == rv['def'] or x.id.startswith(rv['def'] + '::'):
                    cs |= {_sg(_callee(t2)) for _, t2 in x.calls() if _callee(t2)}
    return cs


_fam_cache = {}


def family_items(ctx, crate, roots):
    """`roots` plus every function of the crate all of whose callers inside the crate are already in the family (the private helpers a
    function was split into). Function values (`.map(helper)`) count as calls."""
    from ..callgraph import CallGraph
    key = (id(ctx.fb), crate)
    if key not in _fam_cache:
        g = CallGraph(ctx.fb, [(crate, 'Rlib')])
        callers = {}
        for f, cs in g.edges.items():
            for c in cs:
                if c in g.items and c != f:
                    callers.setdefault(c, set()).add(f)
        _fam_cache[key] = (g, callers)
    g, callers = _fam_cache[key]
    fam = set(roots)
    changed = True
    while changed:
        changed = False
        for h, cs in callers.items():
            if h not in fam and cs and cs <= fam:
                fam.add(h)
                changed = True
    return fam


def family_bodies(ctx, crate, roots):
    out = []
    for it in sorted(family_items(ctx, crate, roots)):
        out += ctx.fb.bodies_of_item(crate, it)
    return out
