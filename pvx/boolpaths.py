"""P10: path-sensitive boolean abstraction over a handful of named booleans (results of named calls).

State space: (block, partial assignment of the named booleans, per-path knowledge about bool locals) — finite, explored
exhaustively (loops included). Short-circuit `&&`/`||` lowering (a bool local assigned constants / copies on different
branches) is followed by a per-path constant/alias propagation."""
from .facts import callee, op_place


def _named_dests(body, named_calls):
    dest = {}
    eval_blocks = {}
    for bb, t in body.calls():
        for name, pred in named_calls.items():
            if pred(t) and not t['dest'].get('p'):
                dest[bb] = (t['dest']['l'], name)
                eval_blocks.setdefault(name, []).append(bb)
    return dest, eval_blocks


def symbolic_bools(body, named_calls):
    """flow-insensitive view (kept for callers that only need which locals alias a named boolean)"""
    dest, eval_blocks = _named_dests(body, named_calls)
    sym = {l: (n, True) for (l, n) in dest.values()}
    changed = True
    while changed:
        changed = False
        for bb, j, st in body.all_assigns():
            lhs = st['lhs']
            if lhs.get('p') or lhs['l'] in sym:
                continue
            rv = st['rv']
            if rv['k'] == 'use':
                pl = op_place(rv['op'])
                if pl is not None and not pl.get('p') and pl['l'] in sym:
                    sym[lhs['l']] = sym[pl['l']]
                    changed = True
            elif rv['k'] == 'un' and rv['uop'] == 'Not':
                pl = op_place(rv['op'])
                if pl is not None and not pl.get('p') and pl['l'] in sym:
                    n, pol = sym[pl['l']]
                    sym[lhs['l']] = (n, not pol)
                    changed = True
    return sym, eval_blocks


def states_at(body, sink_blocks, named_calls, max_states=200000):
    """All abstract states (dict name -> True/False, absent = unknown) with which some CFG path from the entry can
    arrive at one of `sink_blocks`."""
    dest, eval_blocks = _named_dests(body, named_calls)
    bool_locals = {i for i, ty in enumerate(body.locals) if ty == 'bool'}

    def freeze(named, loc):
        return (frozenset(named.items()), frozenset(loc.items()))

    start = (0,) + freeze({}, {})
    seen = {start}
    work = [start]
    out = {b: set() for b in sink_blocks}
    while work:
        if len(seen) > max_states:
            raise RuntimeError('boolpaths: state explosion')
        bb, fn, fl = work.pop()
        named = dict(fn)
        loc = dict(fl)
        if bb in out:
            out[bb].add(fn)
        # transfer over the statements of the block
        for st in body.stmts(bb):
            lhs = st.get('lhs')
            if lhs is None or lhs.get('p'):
                continue
            l = lhs['l']
            if l not in bool_locals:
                continue
            rv = st['rv']
            val = None
            if rv['k'] == 'use':
                o = rv['op']
                if 'int' in o:
                    val = ('c', o['int'] != '0')
                else:
                    pl = op_place(o)
                    if pl is not None and not pl.get('p'):
                        val = loc.get(pl['l'])
            elif rv['k'] == 'un' and rv['uop'] == 'Not':
                pl = op_place(rv['op'])
                if pl is not None and not pl.get('p') and pl['l'] in loc:
                    v = loc[pl['l']]
                    val = ('c', not v[1]) if v[0] == 'c' else ('s', v[1], not v[2])
            if val is None:
                loc.pop(l, None)
            else:
                loc[l] = val
        t = body.term(bb)
        if not t:
            continue
        # the terminator may evaluate a named boolean
        if bb in dest:
            l, name = dest[bb]
            named.pop(name, None)
            # aliases of the old evaluation are dropped
            loc = {k: v for k, v in loc.items() if not (v[0] == 's' and v[1] == name)}
            loc[l] = ('s', name, True)
        elif t['k'] == 'call' and not t['dest'].get('p'):
            loc.pop(t['dest']['l'], None)
        nexts = []
        if t['k'] == 'switch' and 'enum' not in t:
            pl = op_place(t['d'])
            v = loc.get(pl['l']) if pl is not None and not pl.get('p') else None
            zero = [tg for val, tg in t['ts'] if val == '0']
            nonzero = [tg for val, tg in t['ts'] if val != '0'] + [t['else']]
            if v is not None and v[0] == 'c':
                for tg in (nonzero if v[1] else zero):
                    nexts.append((tg, None, None))
            elif v is not None and v[0] == 's':
                _, name, pol = v
                if name in named:
                    truth = named[name] == pol
                    for tg in (nonzero if truth else zero):
                        nexts.append((tg, None, None))
                else:
                    for tg in zero:
                        nexts.append((tg, name, not pol))
                    for tg in nonzero:
                        nexts.append((tg, name, pol))
            else:
                nexts = [(s_, None, None) for s_ in body.succ(bb)]
        else:
            nexts = [(s_, None, None) for s_ in body.succ(bb)]
        for tgt, name, val in nexts:
            n2 = dict(named)
            if name is not None:
                if name in n2 and n2[name] != val:
                    continue
                n2[name] = val
            ns = (tgt,) + freeze(n2, loc)
            if ns not in seen:
                seen.add(ns)
                work.append(ns)
    sym, _ = symbolic_bools(body, named_calls)
    return {b: [dict(s) for s in sts] for b, sts in out.items()}, sym, eval_blocks
