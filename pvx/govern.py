"""Control dependence helpers: which branch conditions govern a block, and which fields those conditions read."""
from .facts import op_place
from .flow import Defs, backward_slice, rv_operands


def controlling_switches(body, bb):
    """switch terminators that dominate `bb` and have at least one successor from which `bb` is unreachable"""
    out = []
    for sb in body.live_blocks():
        t = body.term(sb)
        if not t or t['k'] != 'switch' or sb == bb:
            continue
        if not body.dominates(sb, bb):
            continue
        # the `otherwise -> unreachable` edge of an exhaustive match is not an alternative
        succs = [s for s in body.succ(sb) if (body.term(s) or {}).get('k') != 'unreachable' or body.stmts(s)]
        if any(bb not in body.reachable(s, avoid=[sb]) for s in succs):
            out.append((sb, t))
    return out


def field_reads_of_slice(sl, fields=None, owner=None):
    out = set()
    for _, _, node in sl:
        places = []
        if 'rv' in node:
            ops, pls = rv_operands(node['rv'])
            places = pls + [op_place(o) for o in ops if op_place(o) is not None]
        elif node.get('k') == 'call':
            places = [op_place(o) for o in node['args'] if op_place(o) is not None]
        for q in places:
            out |= field_reads_of_place(q, fields, owner)
    return out


def field_reads_of_place(q, fields=None, owner=None):
    out = set()
    fo = q.get('fo') or []
    i = 0
    for el in q.get('p', []):
        if el.startswith('f:'):
            o = fo[i] if i < len(fo) else ''
            i += 1
            name = el[2:]
            if fields is not None and name not in fields:
                continue
            if owner is not None and owner not in o:
                continue
            out.add(name)
    return out


def governing_fields(body, bb, defs=None, fields=None, owner=None):
    """fields read by the discriminants of the switches that control `bb`"""
    defs = defs or Defs(body)
    gov = set()
    for sb, st in controlling_switches(body, bb):
        pl = op_place(st['d'])
        if pl is not None:
            sl, _ = backward_slice(body, pl['l'], defs)
            gov |= field_reads_of_slice(sl, fields, owner)
        if 'src' in st:
            sl, _ = backward_slice(body, st['src']['l'], defs)
            gov |= field_reads_of_slice(sl, fields, owner)
            gov |= field_reads_of_place(st['src'], fields, owner)
    return gov
