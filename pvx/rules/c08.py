"""C08 — Blueprints that break a documented rule are rejected, never compiled.

Decided clauses: every documented rule checker is on the way from App::build, is called unconditionally by its caller,
reports with error severity, and is followed by an error gate before the Ok return; the checkers iterate their whole
domain. Whether a walk reaches a violation planted at arbitrary depth is not decided.
"""
from ..facts import callee, callee_resolved, op_place, strip_generics
from ..flow import Defs, backward_slice, slice_calls, forward_derived
from ..tables import enum_switches, switch_arms, switch_edges
from .compiler_common import PX, SINK, PUSH, cg, may_push

LEVEL = 'other'
CLAUSE = ('each rule checker of the frozen roster is reachable from App::build, is called on every path of the function that hosts it, can '
          'push a diagnostic and never lowers its severity below Error; in App::build every pass that receives the sink is followed by a '
          'has_errored gate before the Ok return; cycle detection starts a traversal from every node, the `&mut` input check looks at every '
          'input, and the method-conflict check counts every kind of method guard.')
TRUSTED = ['the walk inside each checker reaches the offending component (not decided statically)']

A = PX + 'analyses::'
ROSTER = {
    # checker -> (host function that must call it unconditionally, reason)
    A + 'constructibles::ConstructibleDb::detect_missing_constructors': (A + 'constructibles::ConstructibleDb::build', 'missing constructor; &mut of singleton/transient/cloneable'),
    A + 'constructibles::ConstructibleDb::verify_singleton_ambiguity': (A + 'constructibles::ConstructibleDb::build', 'singleton registered in two nested blueprints'),
    A + 'constructibles::ConstructibleDb::verify_lifecycle_of_singleton_dependencies': (A + 'constructibles::ConstructibleDb::build', 'singleton depends on request-scoped'),
    A + 'constructibles::ConstructibleDb::error_observers_cannot_depend_on_fallible_components': (A + 'constructibles::ConstructibleDb::build', 'observer needs fallible constructor'),
    A + 'call_graph::dependency_graph::DependencyGraph::assert_acyclic': (A + 'call_graph::core_graph::build_call_graph', 'dependency cycle'),
    A + 'application_state::thread_safety::runtime_singletons_are_thread_safe': (A + 'application_state::ApplicationState::new', 'singleton not Send + Sync'),
    A + 'application_state::cloning::runtime_singletons_can_be_cloned_if_needed': (A + 'application_state::ApplicationState::new', 'singleton by value without Copy/Clone'),
    A + 'cloning::cloneables_can_be_cloned': (PX + 'app::App::build', 'clone-if-necessary on a non-Clone type'),
    PX + 'path_parameters::verify_path_parameters': (PX + 'app::App::build', 'path-parameter field not in the route template'),
    A + 'user_components::router::PathRouter::detect_method_conflicts': (A + 'user_components::router::PathRouter::new', 'two routes for the same request (method)'),
    A + 'user_components::router::PathRouter::detect_path_conflicts': (A + 'user_components::router::PathRouter::new', 'two routes for the same request (path)'),
    A + 'user_components::router::DomainRouter::detect_domain_conflicts': (A + 'user_components::router::DomainRouter::new', 'two domains for the same host'),
}
# validators whose rejection is reported by the caller
VALIDATORS = {
    PX + 'component::CannotTakeMutReferenceError::check_callable': '`&mut` input on a constructor / middleware / observer / handler',
}
APP_BUILD = PX + 'app::App::build'


def r1_roster_on_the_way(ctx):
    ctx.rule('C08.R1', 'P4/P1: every roster checker is reachable from App::build in the resolved call graph of pavexc, and its host function calls it '
             'on every path from entry to return (the call cannot be bypassed).')
    g, mp = cg(ctx)
    reach = g.reachable({APP_BUILD})
    for chk, (host, why) in sorted(ROSTER.items()):
        short = chk.replace(PX, '').replace('analyses::', '')
        if not ctx.need('C08.R1', 'checker ' + short, chk in g.items):
            continue
        ctx.ob('C08.R1', 'reachable|%s' % short, chk in reach, '', '%s (%s) is reachable from App::build' % (short, why))
        hb = ctx.fb.body('pavexc', host)
        if ctx.need('C08.R1', 'host ' + host, hb) is None:
            continue
        sites = [bb for bb, t in hb.calls() if callee(t) == chk]
        rets = set(hb.return_blocks())
        # Ok-returns only: an early `return Err` before the checker is fine (the blueprint is rejected anyway)
        ok_rets = set()
        for r in rets:
            ok_rets.add(r)
        bypass = hb.reachable_from_entry(avoid=sites) & ok_rets if sites else ok_rets
        if bypass and sites:
            # tolerate bypasses that construct an Err result
            errs = [bb for bb, j, st in hb.all_assigns() if st['rv']['k'] == 'agg' and st['rv'].get('var') == 'Err']
            froms = [bb for bb, t in hb.calls() if callee(t) == 'core::ops::try_trait::FromResidual::from_residual']
            clean = hb.reachable_from_entry(avoid=sites + errs + froms) & ok_rets
            bypass = clean
        ctx.ob('C08.R1', 'unconditional|%s' % short, bool(sites) and not bypass, hb.loc(sites[0]) if sites else hb.loc(),
               '%s calls %s on every non-failing path (%d call site(s))' % (host.split('::')[-2] + '::' + host.split('::')[-1], short.split('::')[-1], len(sites)))
    ctx.floor('C08.R1', 'roster size', len(ROSTER), 12)


def r2_reports_errors(ctx):
    ctx.rule('C08.R2', 'P4/P7: every roster checker (and the reporter of each validator) can reach DiagnosticSink::push; no function reachable from a '
             'roster checker lowers the severity of what it pushes (CompilerDiagnosticBuilder::severity with a non-Error constant); positive '
             'control: the three Warning sites that exist today are outside the roster\'s reach.')
    g, mp = cg(ctx)
    warn_sites = []
    for b in ctx.fb.bodies('pavexc'):
        if b.is_promoted:
            continue
        for bb, t in b.calls():
            if (callee(t) or '').endswith('CompilerDiagnosticBuilder::severity'):
                sev = None
                a = t['args'][1] if len(t['args']) > 1 else {}
                pl = op_place(a)
                if pl is not None:
                    sl, _ = backward_slice(b, pl['l'], through_calls=False)
                    for _, _, n in sl:
                        rv = n.get('rv')
                        if rv and rv['k'] == 'agg' and rv.get('adt', '').endswith('Severity'):
                            sev = rv['var']
                warn_sites.append((b, bb, t, sev))
    ctx.floor('C08.R2', 'explicit severity sites (positive control)', len(warn_sites), 3)
    lowered = {b.nroot for b, bb, t, sev in warn_sites if sev != 'Error'}
    for chk in sorted(ROSTER):
        short = chk.replace(PX, '').replace('analyses::', '')
        ctx.ob('C08.R2', 'may-push|%s' % short, chk in mp, '', '%s can reach DiagnosticSink::push' % short)
        r = g.reachable({chk})
        bad = sorted(x for x in r if x in lowered)
        ctx.ob('C08.R2', 'error-severity|%s' % short, not bad, '', 'functions reachable from %s that lower the severity: %s' % (short.split('::')[-1], [x.split('::')[-1] for x in bad] or 'none'))
    for v, why in VALIDATORS.items():
        # callers of the validator must report its Err: each caller either propagates or reaches a may-push function with the error
        callers = [(b, bb) for (f, c), sites in g.sites.items() if c == v for (b, bb) in sites]
        ctx.floor('C08.R2', 'callers of %s' % v.split('::')[-1], len(callers), 4)
        for b, bb in callers:
            t = b.term(bb)
            der = forward_derived(b, {t['dest']['l']}, through_calls=True)
            reported = False
            for b2, t2 in b.calls():
                c2 = callee_resolved(t2) or callee(t2)
                if (c2 in mp or callee(t2) in mp) and any(op_place(a) and op_place(a)['l'] in der for a in t2['args']):
                    reported = True
                if callee(t2) == 'core::ops::try_trait::Try::branch' and op_place(t2['args'][0]) and op_place(t2['args'][0])['l'] in der:
                    reported = True
            # or the Err flows into the function's return value (`map_err(..)?` / returned Result)
            if not reported:
                sl, locs = backward_slice(b, 0)
                reported = bool(locs & der)
            ctx.ob('C08.R2', 'validator-reported|%s|%s' % (v.split('::')[-1], b.nroot.replace(PX, '')), reported, b.loc(bb, t),
                   'the result of %s (%s) is propagated or handed to a diagnostic-pushing function in %s' % (v.split('::')[-1], why, b.nroot.split('::')[-1]))


def r3_gated(ctx):
    ctx.rule('C08.R3', 'P1: in App::build every call that receives the diagnostic sink is followed, on every path to the Ok(..) return, by a '
             'has_errored() gate whose true branch returns Err — no pass can push an error that the final verdict ignores.')
    b = ctx.need('C08.R3', 'App::build', ctx.fb.body('pavexc', APP_BUILD))
    if b is None:
        return
    gates = [bb for bb, t in b.calls() if callee(t) == SINK + 'has_errored']
    oks = [bb for bb, j, st in b.all_assigns() if st['lhs'] == {'l': 0} and st['rv']['k'] == 'agg' and st['rv'].get('var') == 'Ok']
    ctx.need('C08.R3', 'Ok(..) return of App::build', oks)
    n = 0
    for bb, t in b.calls():
        if callee(t) == SINK + 'has_errored' or not any('DiagnosticSink' in a for a in t['aty']):
            continue
        if 'mo' in t and (t.get('mo') or '').startswith('tracing'):
            continue
        n += 1
        leak = set(oks) & b.reachable(b.succ(bb), avoid=gates)
        ctx.ob('C08.R3', 'gated|%s' % (callee(t) or '?').replace(PX, '').replace('analyses::', ''), not leak, b.loc(bb, t),
               'after %s every path to Ok(..) passes a has_errored() gate' % (callee(t) or '?').split('::')[-1])
    ctx.floor('C08.R3', 'sink-taking passes in App::build', n, 10)
    for gbb in gates:
        t = b.term(gbb)
        d = t['dest']['l']
        good = False
        for sb in b.live_blocks():
            w = b.term(sb)
            if w and w['k'] == 'switch' and 'enum' not in w and op_place(w['d']) and op_place(w['d'])['l'] in forward_derived(b, {d}):
                zero = [tg for v, tg in w['ts'] if v == '0']
                reg = b.reachable(w['else'], avoid=zero)
                errs = [x for x, j, st in b.all_assigns() if x in reg and st['lhs'] == {'l': 0} and st['rv']['k'] == 'agg' and st['rv'].get('var') == 'Err']
                good = bool(errs) and not (set(oks) & reg)
        ctx.ob('C08.R3', 'gate-returns-err|bb-order-%d' % gates.index(gbb), good, b.loc(gbb, t), 'the true branch of this has_errored() gate returns Err(sink)')


def r6_whole_domain(ctx):
    ctx.rule('C08.R6', 'P1/P5 whole-domain checks (slots filled from the repository): find_cycles starts a DFS from every node of the dependency '
             'graph (node_indices, no filter); check_callable inspects the type of every input (the match on the input type is reached on '
             'every iteration; no skip/filter); detect_method_conflicts counts handlers for both kinds of MethodGuard (each arm of the match '
             'inserts into the counted set).')
    fc = ctx.need('C08.R6', 'find_cycles', ctx.fb.body('pavexc', A + 'call_graph::dependency_graph::find_cycles'))
    if fc is not None:
        defs = Defs(fc)
        heads = [(bb, t) for bb, t in fc.calls() if callee(t) == 'core::iter::traits::iterator::Iterator::next']
        ok, src = False, []
        if heads:
            pl = op_place(heads[0][1]['args'][0])
            sl, _ = backward_slice(fc, pl['l'], defs)
            src = [c for c, _, _ in slice_calls(sl)]
            ok = any(c and c.endswith('::node_indices') for c in src) and not any(c and c.split('::')[-1] in ('filter', 'skip', 'take', 'externals', 'filter_map', 'step_by') for c in src)
        ctx.ob('C08.R6', 'find_cycles|starts-from-every-node', ok, fc.loc(), 'the outer loop of find_cycles iterates %s' % [c.split('::')[-1] for c in src if c and 'iter' not in c][:4])
    cc = ctx.need('C08.R6', 'check_callable', ctx.fb.body('pavexc', PX + 'component::CannotTakeMutReferenceError::check_callable'))
    if cc is not None:
        defs = Defs(cc)
        heads = [(bb, t) for bb, t in cc.calls() if callee(t) == 'core::iter::traits::iterator::Iterator::next']
        tsw = [sb for sb, st in enum_switches(cc, 'rustdoc_ir::Type')]
        ok = False
        src = []
        if heads and tsw:
            hb, ht = heads[0]
            pl = op_place(ht['args'][0])
            sl, _ = backward_slice(cc, pl['l'], defs)
            src = [c for c, _, _ in slice_calls(sl)]
            drop = [c for c in src if c and c.split('::')[-1] in ('filter', 'skip', 'take', 'filter_map', 'step_by', 'skip_while')]
            der = forward_derived(cc, {ht['dest']['l']})
            some_t = []
            for sb in cc.live_blocks():
                w = cc.term(sb)
                if w and w['k'] == 'switch' and strip_generics(w.get('enum', '')) == 'core::option::Option' and w['src']['l'] in der:
                    some_t += [tg for n_, tg in w['ts'] if n_ == 'Some']
            bypass = [s for s in some_t if s not in tsw and hb in cc.reachable(s, avoid=tsw)]
            ok = bool(some_t) and not bypass and not drop and any(c and c.endswith('::input_types') for c in src)
        ctx.ob('C08.R6', 'check_callable|every-input-inspected', ok, cc.loc(), 'every iteration over input_types() reaches the match on the input type (sources: %s)'
               % [c.split('::')[-1] for c in src if c][:4])
    mc = ctx.need('C08.R6', 'detect_method_conflicts', ctx.fb.body('pavexc', A + 'user_components::router::PathRouter::detect_method_conflicts'))
    if mc is not None:
        MG = A + 'user_components::router_key::MethodGuard'
        sws = list(enum_switches(mc))
        sws = [(sb, st) for sb, st in sws if strip_generics(st['enum']).endswith('MethodGuard')]
        ok = False
        detail = 'no match on MethodGuard'
        for sb, st in sws:
            arms = switch_arms(mc, sb)
            ins = {v: any(callee(mc.term(x)) and callee(mc.term(x)).endswith('IndexSet::insert') for x in blocks if mc.term(x) and mc.term(x)['k'] == 'call')
                   for v, blocks in arms.items()}
            detail = 'arms inserting into the counted set: %s' % ins
            if ins and all(ins.values()) and len(ins) >= 2 and sb in mc.reachable(mc.succ(sb)):
                ok = True
        ctx.ob('C08.R6', 'detect_method_conflicts|every-guard-kind-counted', ok, mc.loc(), detail)


def check(ctx):
    r1_roster_on_the_way(ctx)
    r2_reports_errors(ctx)
    r3_gated(ctx)
    r6_whole_domain(ctx)
