"""C11 — Session state carries over from one request to the next, exactly.

Decided clause (structural, necessary): the session is a typestate machine and its discipline holds on every path:
R1 dirty tracking, R2 sync table, R3 id/cookie plumbing, R4 only `sync` (and `force_load`) talk to the store.
History equality itself is not decided.
"""
from ..facts import callee, callee_resolved, op_place, strip_generics, is_user
from ..flow import Defs, backward_slice, forward_derived, slice_aggregates, slice_calls

LEVEL = 'other'
CLAUSE = ('every path that mutates the clean (as-loaded) session state re-tags it dirty before returning; Session::sync '
          'issues exactly the documented store operations per (state, id) cell and propagates their errors; the cookie '
          'carries the current id; only sync/force_load touch the store.')
TRUSTED = ['std HashMap semantics (remove returning None changed nothing)', 'SessionStore delegates to the backend']

CR = 'pavex_session'
M = 'pavex_session::session_::'
STATES = {
    M + 'ServerState': {'clean': {'Unchanged'}, 'dirty': {'Changed', 'MarkedForDeletion'}},
    M + 'ClientState': {'clean': {'Unchanged'}, 'dirty': {'Updated'}},
}
MEM_FNS = {'core::mem::take', 'core::mem::replace', 'core::mem::swap'}
NOCHANGE_ON_NONE = {'std::collections::hash::map::HashMap::remove', 'std::collections::hash::map::HashMap::remove_entry'}


def _clean_bindings(body):
    """statements taking a mutable reference to (or moving out of) the `state` payload of a clean variant"""
    out = []
    for bb, j, st in body.all_assigns():
        rv = st['rv']
        pl = None
        mutable = False
        if rv['k'] == 'ref' and rv['bk'] == 'mut':
            pl, mutable = rv['pl'], True
        elif rv['k'] == 'use' and 'mv' in rv['op']:
            pl, mutable = rv['op']['mv'], True
        if pl is None or not mutable:
            continue
        p = pl.get('p', [])
        enums = [strip_generics(e) for e in pl.get('e', [])]
        di = 0
        for idx, el in enumerate(p):
            if el.startswith('d:'):
                enum = enums[di] if di < len(enums) else None
                di += 1
                if enum in STATES and el[2:] in STATES[enum]['clean'] and idx + 1 < len(p) and p[idx + 1] == 'f:state':
                    out.append((bb, j, st, enum, el[2:]))
    return out


def _dirty_write_blocks(body, defs, enum):
    """blocks containing an assignment, to a place whose type mentions the state enum, of a value built from a
    dirty-variant aggregate (and from no clean-variant aggregate)"""
    short = enum
    blocks = {}
    for bb, j, st in body.all_assigns():
        lty = st.get('lty')
        if not lty or short not in strip_generics(lty) and short not in lty:
            continue
        rv = st['rv']
        ags = []
        if rv['k'] == 'agg' and rv.get('ak') == 'adt' and strip_generics(rv['adt']) == enum:
            ags.append(rv['var'])
        else:
            from ..flow import rv_read_locals
            for l in rv_read_locals(rv):
                sl, _ = backward_slice(body, l, defs)
                ags += [v for a, v, _, _ in slice_aggregates(sl) if a == enum]
        if ags and all(v in STATES[enum]['dirty'] for v in ags):
            blocks[bb] = ags
    return blocks


def _nochange_targets(body, mbb, mterm):
    """blocks entered only when the mutating call provably changed nothing (HashMap::remove returned None)"""
    if callee(mterm) not in NOCHANGE_ON_NONE:
        return set()
    d = mterm['dest']
    if d.get('p'):
        return set()
    derived = forward_derived(body, {d['l']}, through_calls=False)
    # results of `Try::branch(d)` / Option::is_some(&d) etc.
    bool_some, bool_none = set(), set()
    for bb, t in body.calls():
        args = [op_place(a) for a in t['args']]
        if not args or args[0] is None or args[0]['l'] not in derived:
            continue
        c = callee(t)
        if c == 'core::ops::try_trait::Try::branch' and not t['dest'].get('p'):
            derived |= forward_derived(body, {t['dest']['l']})
        elif c == 'core::option::Option::is_some' and not t['dest'].get('p'):
            bool_some.add(t['dest']['l'])
        elif c == 'core::option::Option::is_none' and not t['dest'].get('p'):
            bool_none.add(t['dest']['l'])
    out = set()
    for bb in body.live_blocks():
        t = body.term(bb)
        if not t or t['k'] != 'switch':
            continue
        if 'enum' in t and t['src']['l'] in derived:
            e = strip_generics(t['enum'])
            for name, tgt in t['ts']:
                if (e == 'core::option::Option' and name == 'None') or \
                   (e == 'core::ops::control_flow::ControlFlow' and name == 'Break'):
                    out.add(tgt)
            if 'None' in t.get('rest', []) and e == 'core::option::Option':
                out.add(t['else'])
        else:
            pl = op_place(t['d'])
            if pl is None or pl.get('p'):
                continue
            bl = forward_derived(body, bool_some) if bool_some else set()
            if pl['l'] in bl:
                out |= {tgt for name, tgt in t['ts'] if name == '0'}
            bl = forward_derived(body, bool_none) if bool_none else set()
            if pl['l'] in bl:
                out.add(t['else'])
    return out


def r1_dirty_tracking(ctx):
    ctx.rule('C11.R1', 'P6 typestate: on every CFG path on which a `&mut` to (or a move out of) the payload of the '
             'clean variant (ServerState::Unchanged.state / ClientState::Unchanged.state) reaches a call that may '
             'mutate it, the state is overwritten with a dirty variant before the function returns; exempt: paths on '
             'which HashMap::remove returned None.')
    n_bind = 0
    n_mut = 0
    by_enum = {e: 0 for e in STATES}
    for body in ctx.fb.bodies(CR):
        if body.is_promoted:
            continue
        binds = _clean_bindings(body)
        if not binds:
            continue
        defs = Defs(body)
        ctx.count('bodies_with_clean_binding')
        for bb, j, st, enum, var in binds:
            n_bind += 1
            lhs = st['lhs']
            if lhs.get('p'):
                continue
            seed = lhs['l']
            derived = forward_derived(body, {seed}, defs)
            other_defs = {b for (b, _, n) in defs.full.get(seed, []) if n is not st}
            region = body.reachable(bb, avoid=other_defs - {bb})
            dirty = _dirty_write_blocks(body, defs, enum)
            rets = set(body.return_blocks())
            for mbb, t in body.calls():
                if mbb not in region:
                    continue
                hit = False
                for a, aty in zip(t['args'], t['aty']):
                    pl = op_place(a)
                    if pl is not None and pl['l'] in derived and (aty.startswith('&mut ') or callee(t) in MEM_FNS
                                                                  or not aty.startswith('&')):
                        hit = True
                if not hit:
                    continue
                n_mut += 1
                by_enum[enum] += 1
                exempt = _nochange_targets(body, mbb, t)
                avoid = set(dirty) | exempt
                start = [s for s in body.succ(mbb) if s not in avoid]
                reach = body.reachable(start, avoid=avoid) if start else set()
                bad = sorted(reach & rets)
                fn = body.nroot.replace(M, '')
                key = '%s|%s|%s' % (fn, enum.replace(M, ''), callee(t))
                ctx.ob('C11.R1', key, not bad, body.loc(mbb, t),
                       'mutation of the clean %s payload via %s; %s' % (
                           enum.replace(M, ''), callee(t),
                           'every path to return re-tags the state dirty (dirty writes in blocks %s; no-change exits %s)'
                           % (sorted(dirty), sorted(exempt)) if not bad else
                           'a path reaches `return` (bb%s) WITHOUT overwriting the state with a dirty variant: the change '
                           'is lost at the next sync' % bad))
    ctx.count('clean_payload_bindings', n_bind)
    ctx.count('mutation_sites_on_clean_payload', n_mut)
    ctx.floor('C11.R1', 'mutating call sites on the clean server payload', by_enum[M + 'ServerState'], 2)
    ctx.floor('C11.R1', 'mutating call sites on the clean client payload', by_enum[M + 'ClientState'], 3)


def check(ctx):
    r1_dirty_tracking(ctx)
