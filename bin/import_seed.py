#!/usr/bin/env python3
"""import_seed.py <seed-dir> <Cxx> <name>: copy a confirmed seeded defect into /verif/seeded/<name>/ and record which checks catch it
(applies the patch to /repo, runs ./check Cxx, reverts)."""
import json, os, shutil, subprocess, sys, re
src, prop, name = sys.argv[1], sys.argv[2], sys.argv[3]
dst = os.path.join('/verif/seeded', name)
os.makedirs(dst, exist_ok=True)
for f in ('patch.diff', 'demo.diff'):
    shutil.copy(os.path.join(src, f), os.path.join(dst, f))
meta = json.load(open(os.path.join(src, 'meta.json')))
conf = json.load(open(os.path.join(src, 'confirm.json'))) if os.path.exists(os.path.join(src, 'confirm.json')) else {}
r = subprocess.run(['/verif/bin/try_seed.sh', os.path.join(dst, 'patch.diff'), prop], stdout=subprocess.PIPE, stderr=subprocess.STDOUT, text=True)
fired = sorted(set(re.findall(r'^\s+(C\d+\.R\w+) (\S+)', r.stdout, re.M)))
out = {
    'property': prop,
    'origin': 'independent sub-agent given only the property text and a scratch worktree of the pinned commit',
    'summary': meta.get('summary'), 'breaks': meta.get('breaks'), 'needs_to_manifest': meta.get('needs_to_manifest'),
    'demo_cmd': conf.get('demo_cmd', meta.get('demo_cmd')),
    'confirmed_by_me': {k: conf.get(k) for k in ('demo_without_patch', 'demo_with_patch', 'existing_tests_with_patch', 'workspace_check_with_patch', 'confirmed')},
    'ran_by_agent': meta.get('ran'),
    'check_result': {'caught': bool(fired), 'rules_fired': ['%s %s' % x for x in fired],
                     'cmd': 'git -C /repo apply seeded/%s/patch.diff && ./check %s; git -C /repo checkout -- .' % (name, prop)},
}
json.dump(out, open(os.path.join(dst, 'meta.json'), 'w'), indent=1)
print(name, 'caught' if fired else 'MISSED', [x[0] + ' ' + x[1] for x in fired][:3])
