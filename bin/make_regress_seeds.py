#!/usr/bin/env python3
"""make_regress_seeds.py: for every `fix:` commit this effort made in /repo, keep the REVERSE of the fix as a seeded defect
(seeded/regress-<commit>/patch.diff): applying it to the current tree re-introduces the repaired defect, and the check of the
property must report it again (a `fixed:` entry in known_findings.json suppresses nothing). Applies each patch to /repo, runs the
check, always reverts."""
import json, os, re, subprocess, sys
VERIF = os.path.dirname(os.path.dirname(os.path.abspath(__file__)))
FIXES = [('90abcd9', 'C11'), ('b2e89b2', 'C13'), ('60a3977', 'C17'), ('2cefd36', 'C09'), ('b0723eb', 'C10'),
         ('fe173ce', 'C11'), ('ea42ecc', 'C11'), ('ac5ac58', 'C11'), ('ec9d5b0', 'C17'), ('92100af', 'C09'), ('8848bd4', 'C08'), ('90fb81e', 'C15'), ('59c4098', 'C16'), ('af1a772', 'C10'), ('4941dcf', 'C13'), ('3374ffc', 'C09'), ('95f2a5b', 'C09'), ('77d80e5', 'C08'), ('72eb3c9', 'C09'), ('150c9ea', 'C09'), ('994f944', 'C01'), ('c114d4e', 'C10'), ('426f248', 'C19'), ('d52e436', 'C11'), ('35a2178', 'C04'), ('4b4bb18', 'C09'), ('03ea830', 'C09'), ('2cbb7b2', 'C13'), ('6ff34f3', 'C09'), ('d030010', 'C20'), ('bf7dd57', 'C01')]
if sys.argv[1:]:      # only the named ones: <commit>:<Cxx> ...
    FIXES = [tuple(a.split(':')) for a in sys.argv[1:]]
def sh(cmd, **kw):
    return subprocess.run(cmd, shell=True, stdout=subprocess.PIPE, stderr=subprocess.STDOUT, text=True, **kw)
assert not sh('git -C /repo status --porcelain --untracked-files=no').stdout.strip(), '/repo is dirty'
for c, prop in FIXES:
    d = os.path.join(VERIF, 'seeded', 'regress-%s' % c)
    os.makedirs(d, exist_ok=True)
    diff = sh('git -C /repo diff %s %s^' % (c, c)).stdout
    open(os.path.join(d, 'patch.diff'), 'w').write(diff)
    subject = sh('git -C /repo log -1 --format=%%s %s' % c).stdout.strip()
    r = sh('%s/bin/try_seed.sh %s/patch.diff %s' % (VERIF, d, prop))
    fired = sorted(set(re.findall(r'^\s+(C\d+\.R\w+) (\S+)', r.stdout, re.M)))
    applies = 'does not apply' not in r.stdout
    meta = {'property': prop, 'origin': 'reverse of the repair commit %s (%s)' % (c, subject),
            'summary': 're-introduces the defect repaired by %s' % c,
            'check_result': {'caught': bool(fired), 'applies_on_head': applies, 'rules_fired': ['%s %s' % x for x in fired],
                             'cmd': 'git -C /repo apply seeded/regress-%s/patch.diff && ./check %s; git -C /repo checkout -- .' % (c, prop)}}
    json.dump(meta, open(os.path.join(d, 'meta.json'), 'w'), indent=1)
    print('%-9s %-4s %-22s %s' % (c, prop, 'caught' if fired else ('MISSED' if applies else 'does-not-apply'), [x[0] + ' ' + x[1] for x in fired][:4]))
print('repo status after:', sh('git -C /repo status --porcelain --untracked-files=no').stdout.strip() or 'clean')
