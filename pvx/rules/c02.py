"""C02 — Rule-abiding blueprints are accepted.

Decided clauses: the documented exemptions (Copy, clone-if-necessary, consumers on different control-flow branches) are
consulted before any ownership diagnostic is emitted, in every pass; scope ancestry considers every parent; route-path
conflicts are checked per domain, over the handlers handed in; a generic parameter may be bound twice to the same type.
Completeness of acceptance as a whole is not decided.
"""
from ..facts import callee, op_place, strip_generics
from ..flow import Defs, backward_slice, slice_calls, forward_derived
from .compiler_common import PX

LEVEL = 'other'
TECHNIQUE = 'static analysis: must-pass-through (every CFG path to a diagnostic passes the exemption oracles, through wrappers and helper families), graph-walk shape rules, decision audit of walk loops against required exemptions, provenance of derived components'
CLAUSE = ('every ownership diagnostic of the borrow-check passes is emitted only after CopyChecker::is_copy said no and '
          'get_clone_component_id returned None for the value, and (multiple consumers) only when some control-flow path has two '
          'consumers; the ordering pass applies the same Copy exemption; ScopeId::is_descendant_of explores every parent; '
          'PathRouter::new checks path and method conflicts over exactly the handlers it was given (one domain); binding a generic '
          'parameter again to an equal type is accepted.')
TRUSTED = ['CopyChecker / get_clone_component_id answer correctly', 'petgraph traversals visit every reachable node']

BC = PX + 'analyses::call_graph::borrow_checker::'
CONS = PX + 'analyses::constructibles::'
IS_COPY = BC + 'copy::CopyChecker::is_copy'
GET_CLONE = BC + 'clone::get_clone_component_id'


_wrap_cache = {}


def wrappers_of(ctx, target):
    """`target` plus the functions of the borrow-checker module through which it is reached (a wrapper such as
    `get_clone_component_id_for_node(graph, node, ..)` consults the same oracle)"""
    key = (id(ctx.fb), target)
    if key not in _wrap_cache:
        from ..callgraph import CallGraph
        k2 = (id(ctx.fb), 'cg')
        if k2 not in _wrap_cache:
            _wrap_cache[k2] = CallGraph(ctx.fb, [('pavexc', 'Rlib')])
        cg_ = _wrap_cache[k2]
        # (a pass that itself reports ownership errors is a client of the oracle, not a wrapper of it)
        _wrap_cache[key] = {f for f in cg_.reaching({target}) if f == target or (
            f.startswith(BC) and '::{closure' not in f and not any(c.split('::')[-1].startswith('emit_') for c in cg_.edges.get(f, ())))}
    return _wrap_cache[key]


def consulting_blocks(ctx, b, target):
    """blocks of b that call `target` (directly or through a wrapper of the borrow-checker module), or call something with a closure of b's
    item whose body calls it"""
    out = []
    targets = wrappers_of(ctx, target) - {b.nroot}
    closures = {x.id: x for x in ctx.fb.bodies_of_item('pavexc', b.nroot) if x is not b}
    uses_target = {cid for cid, x in closures.items() if any(callee(t) in targets for _, t in x.calls())}
    for bb, t in b.calls():
        if callee(t) in targets:
            out.append(bb)
            continue
        for a in t['args']:
            pl = op_place(a)
            if pl is None:
                continue
            sl, _ = backward_slice(b, pl['l'], through_calls=False)
            for _, _, n in sl:
                rv = n.get('rv')
                if rv and rv['k'] == 'agg' and rv.get('ak') == 'closure' and rv.get('def') in uses_target:
                    out.append(bb)
        if (t.get('res') or '') in uses_target:
            out.append(bb)
    return sorted(set(out))


def r1_exemptions_first(ctx):
    ctx.rule('C02.R1', 'P1 + sibling cross-check: in multiple_consumers and in move_while_borrowed::try_clone every path to the error emitter passes '
             'through CopyChecker::is_copy and through get_clone_component_id; in complex_borrow_check the blocked predicate consults is_copy '
             'and the error is emitted only in the Error arm of the strategy; OrderedCallGraph::order consults is_copy as well (4 sites).')
    sites = [
        (BC + 'multiple_consumers::multiple_consumers', BC + 'multiple_consumers::emit_multiple_consumers_error'),
        (BC + 'move_while_borrowed::try_clone', BC + 'move_while_borrowed::emit_ancestor_descendant_borrow_error'),
    ]
    for fn, emitter in sites:
        b = ctx.need('C02.R1', fn.split('::')[-1], ctx.fb.body('pavexc', fn))
        if b is None:
            continue
        em = [bb for bb, t in b.calls() if callee(t) == emitter]
        cp = consulting_blocks(ctx, b, IS_COPY)
        cl = consulting_blocks(ctx, b, GET_CLONE)
        ctx.need('C02.R1', 'emitter call in ' + fn.split('::')[-1], em)
        for e in em:
            r1 = e in b.reachable_from_entry(avoid=cp) if cp else True
            r2 = e in b.reachable_from_entry(avoid=cl) if cl else True
            ctx.ob('C02.R1', 'exemptions-before-error|%s' % fn.split('::')[-1], bool(cp) and bool(cl) and not r1 and not r2, b.loc(e),
                   'every path to %s passes is_copy (blocks %s): %s, and get_clone_component_id (blocks %s): %s' % (emitter.split('::')[-1], cp, not r1, cl, not r2))
    n_copy = 0
    for fn in (BC + 'multiple_consumers::multiple_consumers', BC + 'move_while_borrowed::try_clone', BC + 'complex::complex_borrow_check',
               BC + 'assign_order::{impl pavexc::compiler::analyses::call_graph::borrow_checker::ordered_call_graph::OrderedCallGraph}::order'):
        from .compiler_common import family_bodies
        bodies = ctx.fb.bodies_of_item('pavexc', fn)
        has = any(callee(t) in wrappers_of(ctx, IS_COPY) for x in family_bodies(ctx, 'pavexc', [fn]) for _, t in x.calls())
        n_copy += 1 if has else 0
        ctx.ob('C02.R1', 'copy-exemption|%s' % fn.split('::')[-1], has, bodies[0].loc() if bodies else '', '%s consults CopyChecker::is_copy: %s' % (fn.split('::')[-1], has))
    ctx.floor('C02.R1', 'passes that apply the Copy exemption', n_copy, 4)
    cx = ctx.fb.body('pavexc', BC + 'complex::complex_borrow_check')
    if ctx.need('C02.R1', 'complex_borrow_check', cx) is not None:
        from ..tables import guard_context
        from ..inline import inlined
        cx = inlined(ctx.fb, cx, keep={BC + 'complex::emit_borrow_checking_error'}, depth=6)   # the fixed point may be a struct with methods
        em = [bb for bb, t in cx.calls() if callee(t) == BC + 'complex::emit_borrow_checking_error']

        def strategy(g):
            # the strategy enum, wherever it is declared (inside the function or at module level)
            vs = [v for k, v in g.items() if k.startswith(BC + 'complex::') and k.endswith('::StrategyOnBlock')]
            return vs[0] if len(vs) == 1 else None
        ok = bool(em) and all(strategy(guard_context(cx, e)) == {'Error'} for e in em)
        ctx.ob('C02.R1', 'complex|error-only-in-error-strategy', ok, cx.loc(em[0]) if em else cx.loc(), 'emit_borrow_checking_error is reached only under StrategyOnBlock::Error (after parking and cloning were tried)')


def r2_control_flow_test(ctx):
    ctx.rule('C02.R2', 'P1: in multiple_consumers the error is emitted only on the branch where the set of competing consumers (consumers that can reach '
             'the same sink) is not empty: consumers on different match arms are never reported.')
    fn = BC + 'multiple_consumers::multiple_consumers'
    b = ctx.need('C02.R2', 'multiple_consumers', ctx.fb.body('pavexc', fn))
    if b is None:
        return
    em = [bb for bb, t in b.calls() if callee(t) == BC + 'multiple_consumers::emit_multiple_consumers_error']
    emp = [(bb, t) for bb, t in b.calls() if (callee(t) or '').endswith('::is_empty') and 'IndexSet<alloc::collections::btree::set::BTreeSet' in t['aty'][0]]
    ok = False
    if em and emp:
        eb, et = emp[0]
        d = forward_derived(b, {et['dest']['l']})
        for sb in b.live_blocks():
            w = b.term(sb)
            if w and w['k'] == 'switch' and 'enum' not in w and op_place(w['d']) and op_place(w['d'])['l'] in d:
                zero = [tg for v, tg in w['ts'] if v == '0']
                # error reachable only from the "not empty" (0) edge
                ok = all(e not in b.reachable(w['else'], avoid=zero + [eb]) for e in em) and all(b.dominates(eb, e) for e in em)
    ctx.ob('C02.R2', 'error-only-with-competing-consumers', ok, b.loc(em[0]) if em else b.loc(), 'competing_consumer_sets.is_empty() dominates the error and the error is unreachable from its true branch: %s' % ok)
    from .compiler_common import family_bodies
    # reachability in the call graph, by whichever petgraph traversal (has_path_connecting per pair, or one Dfs/Bfs per consumer)
    hp = [bb for x in family_bodies(ctx, 'pavexc', [fn]) for bb, t in x.calls()
          if (callee(t) or '').endswith('has_path_connecting') or (callee(t) or '').startswith(('petgraph::visit::traversal::Dfs', 'petgraph::visit::traversal::Bfs'))]
    ctx.ob('C02.R2', 'competition-is-per-sink', bool(hp), b.loc(), 'competing sets are computed from reachability in the call graph (has_path_connecting / Dfs / Bfs): %s' % bool(hp), nontrivial=False)


def r3_scope_ancestry(ctx):
    ctx.rule('C02.R3', 'P3: ScopeId::is_descendant_of is a complete traversal of the reversed scope graph (Dfs/Bfs/has_path_connecting, or a work-list '
             'extended with all parents) — a scope with several parents (the application-state scope) descends from each of them.')
    fn = PX + 'analyses::user_components::scope_graph::ScopeId::is_descendant_of'
    bodies = ctx.fb.bodies_of_item('pavexc', fn)
    if not ctx.need('C02.R3', 'ScopeId::is_descendant_of', bodies):
        return
    cs = [callee(t) or '' for x in bodies for _, t in x.calls()]
    walker = [c for c in cs if c.startswith('petgraph::visit::traversal::Dfs') or c.startswith('petgraph::visit::traversal::Bfs') or c.endswith('has_path_connecting')]
    worklist = any(c.endswith('::extend') for c in cs) and any(c.endswith('direct_parent_ids') or c.endswith('neighbors_directed') for c in cs)
    single = [c for c in cs if c.split('::')[-1] in ('first', 'next', 'nth', 'last', 'min', 'max') and not walker]
    ctx.ob('C02.R3', 'all-parents-explored', bool(walker) or (worklist and not single), bodies[0].loc(),
           'graph walker used: %s; work-list over all parents: %s; single-parent selection: %s' % ([w.split('::')[-2] for w in walker][:2], worklist, single or 'none'))


def r4_conflicts_per_domain(ctx):
    ctx.rule('C02.R4', 'P7: PathRouter::new forwards its `component_ids` parameter to detect_method_conflicts and detect_path_conflicts, and both iterate '
             'that parameter (routes of other domains are never compared).')
    UR = PX + 'analyses::user_components::router::PathRouter::'
    new = ctx.need('C02.R4', 'PathRouter::new', ctx.fb.body('pavexc', UR + 'new'))
    if new is not None:
        defs = Defs(new)
        params = {i for i in range(1, new.raw['argc'] + 1) if 'Idx<' in new.locals[i] and ('[' in new.locals[i] or 'Vec' in new.locals[i])}
        for d in ('detect_method_conflicts', 'detect_path_conflicts'):
            cs = [(bb, t) for bb, t in new.calls() if callee(t) == UR + d]
            if not ctx.need('C02.R4', d + ' call', cs):
                continue
            bb, t = cs[0]
            ok = False
            for a, ty in zip(t['args'], t['aty']):
                if 'Idx<' in ty and ('[' in ty or 'Vec' in ty):
                    pl = op_place(a)
                    _, locs = backward_slice(new, pl['l'], defs) if pl else ([], set())
                    ok = ok or bool(locs & params)
            ctx.ob('C02.R4', 'forwards-its-handlers|%s' % d, ok, new.loc(bb, t), 'PathRouter::new passes its own component_ids to %s: %s' % (d, ok))
    for d in ('detect_method_conflicts', 'detect_path_conflicts'):
        b = ctx.need('C02.R4', d, ctx.fb.body('pavexc', UR + d))
        if b is None:
            continue
        defs = Defs(b)
        params = {i for i in range(1, b.raw['argc'] + 1) if 'Idx<' in b.locals[i] and ('[' in b.locals[i] or 'Vec' in b.locals[i])}
        heads = [(bb, t) for bb, t in b.calls() if callee(t) == 'core::iter::traits::iterator::Iterator::next']
        ok = False
        if heads and params:
            first = min(heads, key=lambda x: x[0])
            pl = op_place(first[1]['args'][0])
            _, locs = backward_slice(b, pl['l'], defs)
            ok = bool(locs & params)
        ctx.ob('C02.R4', 'iterates-its-handlers|%s' % d, ok, b.loc(), '%s iterates the component ids it was given (parameter %s): %s' % (d, sorted(params), ok))


def r5_rebinding(ctx):
    ctx.rule('C02.R5', 'shared with C17.R4: when a generic parameter is already bound, the template functions compare the previous and the new type by '
             'equality and go on when they are equal (a repeated parameter such as Pair<T, T> matches Pair<u8, u8>).')
    from .c17 import r4_bindings_compared_by_equality
    from ..engine import Ctx
    side = Ctx(ctx.prop, ctx.fb, ctx.tier)
    r4_bindings_compared_by_equality(side)
    for ob in side.obs:
        ctx.ob('C02.R5', ob.key, ob.ok, ob.loc, ob.detail, ob.nontrivial)


def r6_derived_cloning_policy(ctx):
    from .compiler_common import derived_inherits
    ctx.rule('C02.R6', 'P7 provenance: a component derived from a registered one (Ok-matcher, prebuilt / config constructor) carries the cloning '
             'policy of the component it derives from: `clone_if_necessary()` on a fallible constructor must reach the node that yields the '
             'value, otherwise the borrow checker refuses a blueprint that follows the documented rule.')
    derived_inherits(ctx, 'C02.R6', 'cloning_policy', '::CloningPolicy', 'cloning policy')


def r7_types_keyed_by_identity(ctx):
    ctx.rule('C02.R7', 'P7 (expected count 0, positive control: map operations keyed by Type itself): in the analyses of pavexc no map operation '
             '(entry / insert / get / contains_key / remove) uses a key that was produced by formatting a rustdoc_ir::Type (Debug / Display / '
             'render): the rendering omits the package id, so two distinct types with the same path (two versions of one crate) would be '
             'treated as one and a legitimate blueprint reported as ambiguous.')
    KEYED = ('entry', 'insert', 'get', 'get_mut', 'contains_key', 'remove', 'get_or_insert_with')
    n_by_type, bad = 0, 0
    for b in ctx.fb.bodies('pavexc'):
        if b.is_promoted or 'analyses::' not in b.nid:
            continue
        defs = None
        for bb, t in b.calls():
            c = callee(t) or ''
            if c.split('::')[-1] not in KEYED or len(t['aty']) < 2 or not any(k in t['aty'][0] for k in ('HashMap<', 'BTreeMap<', 'IndexMap<')):
                continue
            kty = t['aty'][1]
            if 'rustdoc_ir::Type' in kty or 'CanonicalType' in kty:
                n_by_type += 1
                continue
            if not any(k in kty for k in ('String', 'str')):
                continue
            defs = defs or Defs(b)
            pl = op_place(t['args'][1])
            if pl is None:
                continue
            sl, _ = backward_slice(b, pl['l'], defs)
            fmt = [nd for cc, _, nd in slice_calls(sl) if cc.startswith('core::fmt::rt::Argument::new_') and any('rustdoc_ir::Type' in g or 'rustdoc_ir::type_::' in g for g in nd.get('ga', []))]
            rend = [cc for cc, _, nd in slice_calls(sl) if cc.split('::')[-1] in ('render_type', 'display_for_error', 'render_with_inferred_lifetimes') and 'rustdoc_ir' in cc]
            if fmt or rend:
                bad += 1
                ctx.ob('C02.R7', 'keyed-by-rendering|%s' % b.nid.replace(PX, ''), False, b.loc(bb, t),
                       '%s on %s uses a key obtained by formatting a rustdoc_ir::Type' % (c.split('::')[-1], t['aty'][0][:60]))
    ctx.floor('C02.R7', 'map operations keyed by Type / CanonicalType in the analyses (positive control)', n_by_type, 10)
    ctx.ob('C02.R7', 'no-map-keyed-by-a-rendered-type', bad == 0, '', '%d map operation(s) keyed by a rendered type; %d keyed by the type itself' % (bad, n_by_type))


# documented exemptions that must keep deciding, at the named level of the walk, whether a component is examined at all
REQUIRED_EXEMPTIONS = [
    ('analyses::constructibles::ConstructibleDb::error_observers_cannot_depend_on_fallible_components', ('pop', 'pop_front', 'pop_back'),
     'analyses::components::db::ComponentDb::lifecycle',
     'error observers may depend on fallible SINGLETONS (built before any request is served), at any depth of the dependency walk'),
    ('analyses::constructibles::ConstructibleDb::verify_lifecycle_of_singleton_dependencies', ('next',),
     'analyses::components::db::ComponentDb::lifecycle', 'only singletons are subject to the "no shorter-lived dependency" rule'),
    ('analyses::cloning::cloneables_can_be_cloned', ('next',), 'analyses::components::db::ComponentDb::cloning_policy',
     'only clone-if-necessary components must implement Clone'),
]


def r8_exemptions_at_every_level(ctx):
    from .c08 import skip_predicates
    from .compiler_common import cg, expand_same_file
    ctx.rule('C02.R8', 'P1 + table: the documented exemptions of three rule checkers still decide, inside the loop that performs the walk, whether '
             'a component is examined: the lifecycle test (singletons) in the work-list loop of the error-observer check, the lifecycle test '
             'of verify_lifecycle_of_singleton_dependencies, the cloning-policy test of cloneables_can_be_cloned. An exemption applied '
             'only to the direct inputs rejects blueprints the documentation allows.')
    g, mp = cg(ctx)
    for fn, head_kinds, pred, why in REQUIRED_EXEMPTIONS:
        bodies = ctx.fb.bodies_of_item('pavexc', PX + fn)
        if not ctx.need('C02.R8', fn, bodies):
            continue
        found = False
        for b in bodies:
            for (H, W), cs in skip_predicates(b, mp, with_closures=False).items():
                hk = (callee(b.term(H)) or '').split('::')[-1]
                if hk not in head_kinds:
                    continue
                flat = set()
                for c0 in cs:
                    flat |= expand_same_file(ctx, 'pavexc', c0, b.file, stop={PX + fn})
                if PX + pred in flat:
                    found = True
        ctx.ob('C02.R8', 'exemption|%s' % fn.split('::')[-1], found, bodies[0].loc(),
               '%s decides a skip inside the %s-loop of %s: %s (%s)' % (pred.split('::')[-1], '/'.join(head_kinds), fn.split('::')[-1], found, why))


def r9_bound_constructor_brings_its_matchers(ctx):
    ctx.rule('C02.R9', 'P7/P1: when a generic constructor is specialised on demand (ConstructiblesInScope::bind_and_register_constructor, and any '
             'helper it is split into), the components derived from the bound constructor (ComponentDb::derived_component_ids: the Ok-matcher of '
             'a fallible constructor) are registered in the same scope, in a loop over that list: otherwise `fn parse<T>() -> Result<Json<T>, E>` '
             'can be bound but `Json<Order>` stays unconstructible and the compiler aborts on its own assertion.')
    fn = CONS + 'ConstructiblesInScope::bind_and_register_constructor'
    bodies = ctx.fb.bodies_of_item('pavexc', fn)
    if not ctx.need('C02.R9', 'ConstructiblesInScope::bind_and_register_constructor', bodies):
        return
    b = bodies[0]
    defs = Defs(b)
    bind = [(bb, t) for bb, t in b.calls() if (callee(t) or '').endswith('ComponentDb::bind_generic_type_parameters')]
    der = [(bb, t) for bb, t in b.calls() if (callee(t) or '').endswith('ComponentDb::derived_component_ids')]
    ok, how = False, 'derived_component_ids is not consulted'
    if bind and der:
        dbb, dt = der[0]
        pl = op_place(dt['args'][1]) if len(dt['args']) > 1 else None
        _, locs = backward_slice(b, pl['l'], defs) if pl else ([], set())
        from_bound = bind[0][1]['dest']['l'] in (locs | ({pl['l']} if pl else set()))
        heads = [(hb, ht) for hb, ht in b.calls() if (callee(ht) or '').split('::')[-1] == 'next' and hb in b.reachable(b.succ(hb))]
        looped = False
        for hb, ht in heads:
            rp = op_place(ht['args'][0])
            sl, _ = backward_slice(b, rp['l'], defs) if rp else ([], set())
            if any(c.endswith('ComponentDb::derived_component_ids') for c, _, _ in slice_calls(sl)):
                body_blocks = b.reachable(b.succ(hb), avoid=[hb])
                looped = any(bb2 in body_blocks and ((callee(t2) or '').split('::')[-1] == 'insert') for bb2, t2 in b.calls())
        ok = from_bound and looped
        how = 'derived_component_ids(bound constructor): %s; every derived id is inserted in a loop over it: %s' % (from_bound, looped)
    ctx.ob('C02.R9', 'derived-components-registered', ok, b.loc(der[0][0]) if der else b.loc(), how)


def r10_fallback_tree(ctx):
    ctx.rule('C02.R10', 'shared with C07.R3: nested fallbacks form a tree (the children of a scope hang under the node created for that scope). With a '
             'flat tree the scope-based fallback of a route becomes the outermost one; PathRouter::assign_fallbacks then sees it disagree with the '
             'path-based fallback and REJECTS a blueprint that nests `fallback` inside `fallback` under a prefix — a rule-abiding application.')
    from .c07 import r3_fallback_tree
    from ..engine import Ctx
    side = Ctx(ctx.prop, ctx.fb, ctx.tier)
    r3_fallback_tree(side)
    n = 0
    for ob in side.obs:
        n += 1
        ctx.ob('C02.R10', ob.key, ob.ok, ob.loc, ob.detail, ob.nontrivial)
    ctx.floor('C02.R10', 'fallback-tree obligations', n, 1)


def r11_lookup_key_ignores_lifetime_spelling(ctx):
    ctx.rule('C02.R11', 'shared with C17.R10 / C17.R11: the constructor (and error handler) tables are keyed by the canonical form of the type, so whether '
             'an injected type "has a constructor in scope" must not depend on how its lifetimes are spelled or on which arm of the canonicaliser a '
             'generic is first met in: canonical lifetimes come from the counter only, and the counters / the name map are threaded positionally '
             'through every recursive call.')
    from .c17 import r10_accumulators_threaded, r11_lifetime_names_are_fresh
    from ..engine import Ctx
    side = Ctx(ctx.prop, ctx.fb, ctx.tier)
    r10_accumulators_threaded(side)
    r11_lifetime_names_are_fresh(side)
    for ob in side.obs:
        if 'canonicalize' in ob.key or ob.key.startswith(('floor:', 'fresh-lifetime')):
            ctx.ob('C02.R11', ob.key, ob.ok, ob.loc, ob.detail, ob.nontrivial)


def r12_definition_sites_are_recorded(ctx):
    ctx.rule('C02.R12', 'P1 must-pass-through on a flag: `bp.import(from![crate::a::b])` is accepted only if some module of the crate is DEFINED at that path '
             '(`ImportIndexEntry::defined_at`). The index is filled by the closure of `rustdoc_processor::indexing::index_local_types` that records '
             'one path per visit of an item; a module can be reached through a re-export before its definition is walked. Whether the entry already '
             'exists or not, a visit that IS the definition records it: on every path of that closure from the computation of the `is_definition` '
             'flag to its return, the flag is read (handed to `ImportIndexEntry::new`, or tested before `defined_at` is assigned). An "entry '
             'exists: just add the path" arm that never looks at the flag leaves `defined_at` empty for a module first met through `pub use`, and '
             'a valid import is rejected as an unknown module path.')
    cands = []
    for b in ctx.fb.bodies('rustdoc_processor'):
        if b.is_promoted or not b.nroot.endswith('indexing::index_local_types'):
            continue
        for bb, t in b.calls():
            if strip_generics(callee(t) or '').endswith('import_index::ImportIndexEntry::new') and len(t['args']) >= 3:
                cands.append((b, bb, t))
    if not ctx.need('C02.R12', 'construction of an ImportIndexEntry in rustdoc_processor::indexing::index_local_types', cands):
        return
    n_flag = 0
    for b, bb, t in cands:
        defs = Defs(b)
        q = op_place(t['args'][2])
        if q is None:
            continue        # a literal `true` / `false`: nothing to consult
        n_flag += 1
        # the flag: follow plain copies back to the local that holds `is_definition`
        flag = q['l'] if q is not None else None
        for _ in range(6):
            ds = defs.full.get(flag, [])
            if len(ds) == 1 and 'rv' in ds[0][2] and ds[0][2]['rv']['k'] == 'use' and op_place(ds[0][2]['rv']['op']) is not None and not op_place(ds[0][2]['rv']['op']).get('p'):
                flag = op_place(ds[0][2]['rv']['op'])['l']
            else:
                break
        fdefs = defs.full.get(flag, [])
        if flag is None or not fdefs or b.locals[flag] != 'bool':
            ctx.ob('C02.R12', 'definition-flag-consulted|%s' % b.nid.split('::')[-1], False, b.loc(bb, t), 'the `is_definition` argument of ImportIndexEntry::new cannot be followed to a flag')
            continue
        def_bb = fdefs[0][0]
        readers = set()
        for xb, blk in enumerate(b.blocks):
            for st in blk['st']:
                if 'rv' not in st or st.get('lhs') == {'l': flag}:
                    continue
                from ..flow import rv_read_locals
                if flag in rv_read_locals(st['rv']):
                    readers.add(xb)
            tm = blk['term']
            if tm and tm['k'] == 'switch' and op_place(tm['d']) is not None and op_place(tm['d'])['l'] == flag:
                readers.add(xb)
        readers.discard(def_bb) if not any(st.get('lhs') != {'l': flag} and 'rv' in st and flag in __import__('pvx.flow', fromlist=['rv_read_locals']).rv_read_locals(st['rv']) for st in b.blocks[def_bb]['st']) else None
        rets = set(b.return_blocks())
        free = b.reachable(b.succ(def_bb), avoid=readers) & rets
        ctx.ob('C02.R12', 'definition-flag-consulted|%s' % b.nid.split('::')[-1], not free, b.loc(sorted(free)[0]) if free else b.loc(bb, t),
               'every path from the computation of `is_definition` to the return reads the flag (%d reading block(s)): %s' % (len(readers), not free))
    ctx.floor('C02.R12', 'ImportIndexEntry constructions governed by an is_definition flag', n_flag, 1)


def r13_positions_have_one_unit(ctx, rid='C02.R13', lead=''):
    ctx.rule(rid, lead + 'P9 writer/reader agreement on a unit: `RoutePath::parse` records where each `{parameter}` starts and ends; `PathRouter::assign_fallbacks` '
             'compares those positions with the length of the prefix to decide whether a prefix ends with a parameter (and cuts the parameter off). Both sides '
             'count in the same unit: positions drawn from `chars().enumerate()` go with `chars().count()`, positions drawn from `char_indices()` go with '
             '`len()`. With mixed units a prefix such as `/café/{id}` is not recognised as ending with a parameter, pavexc synthesises '
             '`/café/{id}{*catch_all}` and rejects a valid application.')
    fb = ctx.fb
    W = 'pavexc::compiler::analyses::route_path::RoutePath::parse'
    wb = [b for b in fb.bodies_of_item('pavexc', W) if not b.is_promoted]
    if not ctx.need(rid, 'bodies of RoutePath::parse', wb):
        return
    wnames = {(callee(t) or '').split('::')[-1].split('<')[0] for b in wb for _, t in b.calls()}
    w_unit = 'byte' if 'char_indices' in wnames else ('char' if {'chars', 'enumerate'} <= wnames else None)
    ctx.ob(rid, 'writer-unit', w_unit is not None, wb[0].loc(), 'RoutePath::parse draws positions from %s: unit = %s' % (
        sorted(wnames & {'chars', 'enumerate', 'char_indices', 'bytes', 'len', 'len_utf8'}), w_unit))
    n = 0
    for b in fb.bodies('pavexc'):
        if b.is_promoted or b.nroot == W or not any('PathParameterDetails' in ty for ty in b.locals):
            continue
        defs = Defs(b)

        def field_of(o):
            pl = op_place(o)
            if pl is None:
                return None
            if pl.get('p'):
                return pl['p'][-1]
            for _, _, nd in defs.full.get(pl['l'], []):
                rv = nd.get('rv')
                if rv and rv['k'] in ('use', 'cfd') and op_place(rv.get('op', {})) is not None and op_place(rv['op']).get('p'):
                    return op_place(rv['op'])['p'][-1]
            return None
        for bb, j, st in b.all_assigns():
            rv = st['rv']
            if rv['k'] != 'bin' or rv['bop'] not in ('Eq', 'Ne', 'Lt', 'Le', 'Gt', 'Ge'):
                continue
            fa, fb_ = field_of(rv['a']), field_of(rv['b'])
            if fa in ('f:end', 'f:start'):
                other = rv['b']
            elif fb_ in ('f:end', 'f:start'):
                other = rv['a']
            else:
                continue
            pl = op_place(other)
            names = set()
            if pl is not None:
                sl, _ = backward_slice(b, pl['l'], defs)
                names = {(x or '').split('::')[-1].split('<')[0] for x, _, _ in slice_calls(sl)}
            r_unit = 'char' if {'chars', 'count'} <= names else ('byte' if 'len' in names and 'chars' not in names else None)
            n += 1
            ctx.ob(rid, 'reader-unit|%s' % b.nid.replace(PX, '').replace('pavexc::', ''), r_unit is not None and r_unit == w_unit, b.loc(bb, st),
                   'a recorded position is compared with a value computed through %s: unit = %s; the writer counts in %s' % (
                       sorted(names & {'chars', 'count', 'len', 'char_indices', 'bytes'}), r_unit, w_unit))
    ctx.floor(rid, 'comparisons of a recorded parameter position with a length', n, 1)


def check(ctx):
    r13_positions_have_one_unit(ctx)
    r12_definition_sites_are_recorded(ctx)
    r1_exemptions_first(ctx)
    r2_control_flow_test(ctx)
    r3_scope_ancestry(ctx)
    r4_conflicts_per_domain(ctx)
    r5_rebinding(ctx)
    r6_derived_cloning_policy(ctx)
    r7_types_keyed_by_identity(ctx)
    r8_exemptions_at_every_level(ctx)
    r9_bound_constructor_brings_its_matchers(ctx)
    r10_fallback_tree(ctx)
    r11_lookup_key_ignores_lifetime_spelling(ctx)


CLAUSE += ' Also: the positions recorded for path parameters and the lengths they are compared with count in the same unit.'
