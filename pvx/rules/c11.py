"""C11 — Session state carries over from one request to the next, exactly.

Decided clause (structural, necessary): the session is a typestate machine and its discipline holds on every path:
R1 dirty tracking, R2 sync table, R3 id/cookie plumbing, R4 only `sync` (and `force_load`) talk to the store, R5 exhaustive
exploration of the abstract session state machine (operations interpreted on their MIR) against the store's contract.
Equality of the stored values themselves is not decided.
"""
import re
from ..facts import callee, callee_resolved, op_place, strip_generics, is_user
from ..flow import Defs, backward_slice, forward_derived, slice_aggregates, slice_calls

LEVEL = 'other'
TECHNIQUE = 'static analysis: abstract interpretation of every public Session operation on its MIR over a finite typestate, closed over all operation sequences against the hand-written store contract; plus typestate, provenance and who-may-call rules over the sync/finalize families; wire-key agreement'
CLAUSE = ('every path that mutates the clean (as-loaded) session state re-tags it dirty before returning; Session::sync '
          'issues exactly the documented store operations per (state, id) cell and propagates their errors; the cookie '
          'carries the current id; only sync/force_load touch the store; over every sequence of session operations in a '
          'request no store call of sync fails because of the session\'s own earlier calls, no panic in sync is reachable, no '
          'record survives an invalidation, no clean state is left without a record, no record is orphaned.')
TRUSTED = ['std HashMap semantics (remove returning None changed nothing)', 'SessionStore delegates to the backend',
           'the backend honours the SessionStorageBackend contract (create: DuplicateId iff a record exists; update/update_ttl/delete: UnknownId iff none; change_id: both)']

CR = 'pavex_session'
M = 'pavex_session::session_::'
STATES = {
    M + 'ServerState': {'clean': {'Unchanged'}, 'dirty': {'Changed', 'MarkedForDeletion'}},
    M + 'ClientState': {'clean': {'Unchanged'}, 'dirty': {'Updated'}},
}
MEM_FNS = {'core::mem::take', 'core::mem::replace', 'core::mem::swap'}
NOCHANGE_ON_NONE = {'std::collections::hash::map::HashMap::remove', 'std::collections::hash::map::HashMap::remove_entry'}


def _clean_bindings(body):
    """statements taking a mutable reference to (or moving out of) the `state` payload of a clean variant"""
    out = []
    for bb, j, st in body.all_assigns():
        rv = st['rv']
        pl = None
        mutable = False
        if rv['k'] == 'ref' and rv['bk'] == 'mut':
            pl, mutable = rv['pl'], True
        elif rv['k'] == 'use' and 'mv' in rv['op']:
            pl, mutable = rv['op']['mv'], True
        if pl is None or not mutable:
            continue
        p = pl.get('p', [])
        enums = [strip_generics(e) for e in pl.get('e', [])]
        di = 0
        for idx, el in enumerate(p):
            if el.startswith('d:'):
                enum = enums[di] if di < len(enums) else None
                di += 1
                if enum in STATES and el[2:] in STATES[enum]['clean'] and idx + 1 < len(p) and p[idx + 1] == 'f:state':
                    out.append((bb, j, st, enum, el[2:]))
    return out


def _dirty_write_blocks(body, defs, enum, _depth=0):
    """blocks containing an assignment, to a place whose type mentions the state enum, of a value built from a
    dirty-variant aggregate (and from no clean-variant aggregate)"""
    short = enum
    blocks = {}
    for bb, j, st in body.all_assigns():
        lty = st.get('lty')
        if not lty or short not in strip_generics(lty) and short not in lty:
            continue
        rv = st['rv']
        ags = []
        if rv['k'] == 'agg' and rv.get('ak') == 'adt' and strip_generics(rv['adt']) == enum:
            ags.append(rv['var'])
        else:
            from ..flow import rv_read_locals
            for l in rv_read_locals(rv):
                sl, _ = backward_slice(body, l, defs)
                ags += [v for a, v, _, _ in slice_aggregates(sl) if a == enum]
        if ags and all(v in STATES[enum]['dirty'] for v in ags):
            blocks[bb] = ags
    # a call of a private helper that re-tags the state it is handed (`self.0.mark_as_updated()`) is a dirty write
    if _depth == 0:
        markers = _dirty_markers(body.fb, enum)
        for bb, t in body.calls():
            c = strip_generics(callee(t) or '')
            if c in markers and t['aty'] and t['aty'][0].startswith('&mut ') and enum in strip_generics(t['aty'][0]):
                blocks.setdefault(bb, ['via ' + c.split('::')[-1]])
    return blocks


_MARKERS = {}


def _dirty_markers(fb, enum):
    """functions of the session crate that take `&mut <state enum>` as their first parameter and, whenever the state is in a clean variant,
    overwrite it with a dirty one on every path to their return"""
    key = (id(fb), enum)
    if key in _MARKERS:
        return _MARKERS[key]
    out = set()
    for f in fb.bodies(CR):
        if f.is_promoted or f.nid != f.nroot or f.raw['argc'] < 1 or not f.locals[1].startswith('&mut ') or enum not in strip_generics(f.locals[1]):
            continue
        fdefs = Defs(f)
        dirty = _dirty_write_blocks(f, fdefs, enum, _depth=1)
        if not dirty:
            continue
        rets = set(f.return_blocks())
        ok, seen = True, False
        from ..tables import enum_switches, switch_edges
        for sb, w in enum_switches(f, enum):
            if w['src']['l'] != 1:
                continue
            e = switch_edges(w)
            for v in STATES[enum]['clean']:
                tg = e.get(v, w.get('else'))
                if tg is None:
                    continue
                seen = True
                if f.reachable([tg], avoid=set(dirty)) & rets and tg not in dirty:
                    ok = False
        if seen and ok:
            out.add(f.nroot)
    _MARKERS[key] = out
    return out


def _nochange_targets(body, mbb, mterm):
    """blocks entered only when the mutating call provably changed nothing (HashMap::remove returned None)"""
    if callee(mterm) not in NOCHANGE_ON_NONE:
        return set()
    d = mterm['dest']
    if d.get('p'):
        return set()
    derived = forward_derived(body, {d['l']}, through_calls=False)
    # results of `Try::branch(d)` / Option::is_some(&d) etc.
    bool_some, bool_none = set(), set()
    for bb, t in body.calls():
        args = [op_place(a) for a in t['args']]
        if not args or args[0] is None or args[0]['l'] not in derived:
            continue
        c = callee(t)
        if c == 'core::ops::try_trait::Try::branch' and not t['dest'].get('p'):
            derived |= forward_derived(body, {t['dest']['l']})
        elif c == 'core::option::Option::is_some' and not t['dest'].get('p'):
            bool_some.add(t['dest']['l'])
        elif c == 'core::option::Option::is_none' and not t['dest'].get('p'):
            bool_none.add(t['dest']['l'])
    out = set()
    for bb in body.live_blocks():
        t = body.term(bb)
        if not t or t['k'] != 'switch':
            continue
        if 'enum' in t and t['src']['l'] in derived:
            e = strip_generics(t['enum'])
            for name, tgt in t['ts']:
                if (e == 'core::option::Option' and name == 'None') or \
                   (e == 'core::ops::control_flow::ControlFlow' and name == 'Break'):
                    out.add(tgt)
            if 'None' in t.get('rest', []) and e == 'core::option::Option':
                out.add(t['else'])
        else:
            pl = op_place(t['d'])
            if pl is None or pl.get('p'):
                continue
            bl = forward_derived(body, bool_some) if bool_some else set()
            if pl['l'] in bl:
                out |= {tgt for name, tgt in t['ts'] if name == '0'}
            bl = forward_derived(body, bool_none) if bool_none else set()
            if pl['l'] in bl:
                out.add(t['else'])
    return out


def r1_dirty_tracking(ctx):
    ctx.rule('C11.R1', 'P6 typestate: on every CFG path on which a `&mut` to (or a move out of) the payload of the '
             'clean variant (ServerState::Unchanged.state / ClientState::Unchanged.state) reaches a call that may '
             'mutate it, the state is overwritten with a dirty variant before the function returns; exempt: paths on '
             'which HashMap::remove returned None.')
    n_bind = 0
    n_mut = 0
    by_enum = {e: 0 for e in STATES}
    for body in ctx.fb.bodies(CR):
        if body.is_promoted:
            continue
        binds = _clean_bindings(body)
        if not binds:
            continue
        defs = Defs(body)
        ctx.count('bodies_with_clean_binding')
        for bb, j, st, enum, var in binds:
            n_bind += 1
            lhs = st['lhs']
            if lhs.get('p'):
                continue
            seed = lhs['l']
            derived = forward_derived(body, {seed}, defs)
            other_defs = {b for (b, _, n) in defs.full.get(seed, []) if n is not st}
            region = body.reachable(bb, avoid=other_defs - {bb})
            dirty = _dirty_write_blocks(body, defs, enum)
            rets = set(body.return_blocks())
            for mbb, t in body.calls():
                if mbb not in region:
                    continue
                hit = False
                for a, aty in zip(t['args'], t['aty']):
                    pl = op_place(a)
                    if pl is not None and pl['l'] in derived and (aty.startswith('&mut ') or callee(t) in MEM_FNS
                                                                  or not aty.startswith('&')):
                        hit = True
                if not hit:
                    continue
                n_mut += 1
                by_enum[enum] += 1
                exempt = _nochange_targets(body, mbb, t)
                avoid = set(dirty) | exempt
                start = [s for s in body.succ(mbb) if s not in avoid]
                reach = body.reachable(start, avoid=avoid) if start else set()
                bad = sorted(reach & rets)
                fn = body.nroot.replace(M, '')
                key = '%s|%s|%s' % (fn, enum.replace(M, ''), callee(t))
                ctx.ob('C11.R1', key, not bad, body.loc(mbb, t),
                       'mutation of the clean %s payload via %s; %s' % (
                           enum.replace(M, ''), callee(t),
                           'every path to return re-tags the state dirty (dirty writes in blocks %s; no-change exits %s)'
                           % (sorted(dirty), sorted(exempt)) if not bad else
                           'a path reaches `return` (bb%s) WITHOUT overwriting the state with a dirty variant: the change '
                           'is lost at the next sync' % bad))
    ctx.count('clean_payload_bindings', n_bind)
    ctx.count('mutation_sites_on_clean_payload', n_mut)
    ctx.floor('C11.R1', 'mutating call sites on the clean server payload', by_enum[M + 'ServerState'], 1)
    ctx.floor('C11.R1', 'mutating call sites on the clean client payload', by_enum[M + 'ClientState'], 1)


STORE = 'pavex_session::store_::SessionStore::'
SS, OPT, CID = M + 'ServerState', 'core::option::Option', M + 'CurrentSessionId'
# the documented sync table: (store method, server-state cell, id cell). 'NotLoaded' = the OnceCell is empty.
SYNC_TABLE = {
    ('create', 'DoesNotExist', 'Existing|NewlyGenerated'),
    ('create', 'DoesNotExist', 'ToBeRenamed'),
    ('change_id', 'NotLoaded', 'ToBeRenamed'),
    ('update_ttl', 'Unchanged', 'Existing'),
    ('change_id', 'Unchanged', 'ToBeRenamed'),
    ('create', 'Unchanged', 'ToBeRenamed'),        # fallback when change_id reports UnknownId
    ('create', 'Unchanged', 'NewlyGenerated'),
    ('delete', 'MarkedForDeletion', '*'),
    ('update', 'Changed', 'Existing'),
    ('create', 'Changed', 'Existing'),             # fallback when update reports UnknownId
    ('delete', 'Changed', 'ToBeRenamed'),
    ('create', 'Changed', 'ToBeRenamed'),
    ('create', 'Changed', 'NewlyGenerated'),
}
TOLERATED_ERR_VARIANTS = {'UnknownId', 'UnknownIdError'}   # the "no such record" variant of ChangeIdError/DeleteError and of UpdateError


def family(ctx, root):
    """`root` plus the crate's functions whose every caller inside the crate is already in the family: private helpers that a function
    was split into. Returned as {normalised item id: [bodies]}."""
    callers, items = {}, {}
    for b in ctx.fb.bodies(CR):
        if b.is_promoted:
            continue
        items.setdefault(b.nroot, []).append(b)
        for bb, t in b.calls():
            c = strip_generics(callee(t) or '')
            if c.startswith('pavex_session::') and c != b.nroot:
                callers.setdefault(c, set()).add(b.nroot)
    fam = {root}
    changed = True
    while changed:
        changed = False
        for it, cs in callers.items():
            if it not in fam and it in items and cs and cs <= fam:
                fam.add(it)
                changed = True
    return {it: items.get(it, []) for it in fam}


def _sync_body(ctx):
    bs = [b for b in ctx.fb.bodies_of_item(CR, M + 'Session::sync') if b.is_coroutine]
    return bs[0] if len(bs) == 1 else None


def _documented_cells():
    out = set()
    for meth, st, idc in SYNC_TABLE:
        for k in (['Existing', 'ToBeRenamed', 'NewlyGenerated'] if idc == '*' else idc.split('|')):
            out.add((meth, st, k))
    return out


def r2_sync_table(ctx):
    ctx.rule('C11.R2', 'P5+P1: every (store method, server-state variant, id variant) cell in which the typestate exploration of C11.R5 saw '
             'Session::sync (or a private helper of it) call the store is in the documented table; in sync and its helpers the result of '
             'every store call reaches `?` or an explicit match on Result whose only tolerated error variant is the unknown-id one; '
             'every record written is the empty record or the `state` payload of the current server state; where both sit in one body, '
             'delete(old) precedes create(new).')
    res = getattr(ctx, 'c11_model', None)
    if ctx.need('C11.R2', 'result of the typestate exploration (C11.R5)', res) is None:
        return
    documented = _documented_cells()
    observed = sorted(res['observed_cells'])
    for cell in observed:
        ok = cell in documented
        ctx.ob('C11.R2', 'cell|%s|%s|%s' % cell, ok, '', 'store.%s in cell (state=%s, id=%s): %s' % (
            cell[0], cell[1], cell[2], 'as documented' if ok else 'NOT in the documented sync table'))
    ctx.floor('C11.R2', 'distinct (method, state, id) cells observed', len(observed), 10)
    fam = family(ctx, M + 'Session::sync')
    # sync with the private helpers it was split into put back (P13): a record handed to a helper as a parameter, a result returned by a
    # helper and `?`-ed by the caller, are then visible in one body
    from ..inline import inlined
    sb_ = _sync_body(ctx)
    whole = None
    if sb_ is not None and len(fam) > 1:
        try:
            whole = inlined(ctx.fb, sb_, crate=CR, only=lambda cb: cb.nroot in fam, keep={'pavex_session::store_::SessionRecordRef::empty'})
        except Exception:
            whole = None
    if whole is not None and sum(1 for _, t in whole.calls() if (callee(t) or '').startswith(STORE)) >= sum(1 for it in fam for b in fam[it] for _, t in b.calls() if (callee(t) or '').startswith(STORE)):
        fam = {M + 'Session::sync': [whole]}
    sites = []
    for it in sorted(fam):
        for b in fam[it]:
            k = 0
            for bb, t in b.calls():
                c = callee(t)
                if c and c.startswith(STORE):
                    k += 1
                    sites.append((b, bb, t, c[len(STORE):], '%s#%d' % (it.replace(M, ''), k)))
    ctx.count('store_call_sites_in_sync', len(sites))
    ctx.floor('C11.R2', 'SessionStore call sites in Session::sync and its helpers', len(sites), 8)
    from ..flow import rv_operands
    for b, bb, t, meth, where in sites:
        defs = Defs(b)
        # record provenance
        if meth in ('create', 'update') and len(t['args']) >= 3:
            pl = op_place(t['args'][2])
            rd, calls = set(), set()
            if pl is not None:
                sl, _ = backward_slice(b, pl['l'], defs)
                calls = {c for c, _, _ in slice_calls(sl)}
                for _, _, node in sl:
                    if 'rv' not in node:
                        continue
                    ops, pls = rv_operands(node['rv'])
                    for q in pls + [op_place(o) for o in ops if op_place(o) is not None]:
                        pp = q.get('p', [])
                        for i, el in enumerate(pp):
                            if el.startswith('d:') and i + 1 < len(pp) and pp[i + 1] == 'f:state':
                                rd.add(el[2:] + '.state')
            empty = 'pavex_session::store_::SessionRecordRef::empty' in calls
            got = 'empty' if empty else ('|'.join(sorted(rd)) or '?')
            ctx.ob('C11.R2', 'record|%s|%s' % (meth, where), got in ('empty', 'Changed.state', 'Unchanged.state'), b.loc(bb, t),
                   'record written by store.%s at %s is built from: %s (must be the empty record or the state payload of one variant)' % (meth, where, got))
        # error discipline
        dest = t['dest']
        derived = forward_derived(b, {dest['l']}, through_calls=True)
        # the value of an awaited private helper that was inlined travels through `Poll::Ready(value)`: follow it
        for _ in range(4):
            more = {st['lhs']['l'] for _, _, st in b.all_assigns() if not st['lhs'].get('p') and st['rv']['k'] == 'agg' and st['rv'].get('ak') == 'adt'
                    and strip_generics(st['rv']['adt']) == 'core::task::poll::Poll' and any(op_place(o) is not None and op_place(o)['l'] in derived for o in st['rv']['ops'])}
            if more <= derived:
                break
            derived = forward_derived(b, derived | more, through_calls=True)
        handled = None
        tolerated = set()
        for b2, t2 in b.calls():
            if callee(t2) == 'core::ops::try_trait::Try::branch':
                pl = op_place(t2['args'][0])
                if pl is not None and pl['l'] in derived:
                    handled = 'propagated with `?`'
        for b2 in b.live_blocks():
            t2 = b.term(b2)
            if t2 and t2['k'] == 'switch' and 'enum' in t2 and t2['src']['l'] in derived:
                e = strip_generics(t2['enum'])
                if e == 'core::result::Result' and handled is None:
                    handled = 'matched explicitly'
                elif e.startswith('pavex_session::store_::errors::'):
                    tolerated |= {n for n, _ in t2['ts']}
        if handled is None:
            # the helper hands the Result back to its caller (`self.store.create(..).await` as the tail expression of a private helper):
            # the discipline is then the caller's — every call of the helper in the family propagates or matches what it returns
            returned = False
            for xb, j, st in b.all_assigns():
                if st['lhs'].get('l') == 0 and not st['lhs'].get('p'):
                    ops, pls = rv_operands(st['rv'])
                    if any(op_place(o) is not None and op_place(o)['l'] in derived for o in ops) or any(q['l'] in derived for q in pls):
                        returned = True
            if returned:
                callers_ok, n_callers = True, 0
                for it2 in fam:
                    for b3 in fam[it2]:
                        for cb, ct in b3.calls():
                            if strip_generics(callee(ct) or '') != b.nroot or ct['dest'].get('p'):
                                continue
                            n_callers += 1
                            der3 = forward_derived(b3, {ct['dest']['l']}, through_calls=True)
                            ok3 = any(callee(t4) == 'core::ops::try_trait::Try::branch' and op_place(t4['args'][0]) is not None and op_place(t4['args'][0])['l'] in der3
                                      for _, t4 in b3.calls())
                            for b4 in b3.live_blocks():
                                t4 = b3.term(b4)
                                if t4 and t4['k'] == 'switch' and 'enum' in t4 and t4['src']['l'] in der3:
                                    e4 = strip_generics(t4['enum'])
                                    if e4 == 'core::result::Result':
                                        ok3 = True
                                    elif e4.startswith('pavex_session::store_::errors::'):
                                        tolerated |= {n for n, _ in t4['ts']}
                            callers_ok = callers_ok and ok3
                if n_callers and callers_ok:
                    handled = 'returned to the caller (%d call site(s)), which propagates or matches it' % n_callers
        ok = handled is not None and tolerated <= TOLERATED_ERR_VARIANTS
        ctx.ob('C11.R2', 'errors|%s|%s' % (meth, where), ok, b.loc(bb, t),
               'result of store.%s: %s; explicitly distinguished error variants: %s' % (
                   meth, handled or 'DROPPED (neither `?` nor a match on the Result)', sorted(tolerated) or 'none'))
    # ordering, where decidable in one body
    for it in fam:
        for b in fam[it]:
            dels = [bb for bb, t in b.calls() if callee(t) == STORE + 'delete']
            crs = [bb for bb, t in b.calls() if callee(t) == STORE + 'create']
            for c in crs:
                for d in dels:
                    if c in b.reachable([d]) or d in b.reachable([c]):
                        if c in b.reachable(b.succ(d)) and d not in b.reachable(b.succ(c)):
                            ctx.ob('C11.R2', 'order|delete<create|%s' % it.replace(M, ''), True, b.loc(c), 'delete(old) precedes create(new) on the path they share')
                        elif d in b.reachable(b.succ(c)) and c not in b.reachable(b.succ(d)):
                            ctx.ob('C11.R2', 'order|delete<create|%s' % it.replace(M, ''), False, b.loc(c), 'create(new) is issued BEFORE delete(old) on the path they share')


def r3_id_plumbing(ctx):
    from ..tables import variant_table, enum_switches
    ctx.rule('C11.R3', 'P5/P7: CurrentSessionId::new_id / old_id read the documented field per variant; the session id written '
             'into the cookie value derives from new_id(); invalidate() sets the flag and marks the server state for '
             'deletion; cycle_id() keeps the old id, draws the new one from SessionId::random() and compares it with the '
             'old one before use.')
    # (a) tables
    want = {'new_id': {'Existing': 'f:0', 'ToBeRenamed': 'f:new', 'NewlyGenerated': 'f:0'},
            'old_id': {'Existing': 'f:0', 'ToBeRenamed': 'f:old', 'NewlyGenerated': None}}
    for fn, table in want.items():
        b = ctx.need('C11.R3', 'CurrentSessionId::' + fn, ctx.fb.body(CR, M + 'CurrentSessionId::' + fn))
        if b is None:
            continue
        sw = list(enum_switches(b, CID))
        if not ctx.need('C11.R3', 'match on CurrentSessionId in ' + fn, sw):
            continue
        vt = variant_table(b, sw[0][0])
        for var, field in table.items():
            f = vt.get(var)
            got = None
            if f:
                rd = [pl['p'][-1] for pl, _, _ in f['reads'] if ('d:' + var) in pl.get('p', [])]
                got = rd[0] if rd else None
                if field is None:
                    got = None if any(v == 'None' for a, v, _, _ in f['aggs']) and not rd else (got or 'Some(?)')
            ctx.ob('C11.R3', 'table|%s|%s' % (fn, var), got == field, b.loc(),
                   '%s(%s) reads %s (documented: %s)' % (fn, var, got, field))
    # (b) cookie id: finalize and the private helpers it was split into
    fin = [b for b in ctx.fb.bodies_of_item(CR, M + 'Session::finalize') if b.is_coroutine]
    fin = ctx.need('C11.R3', 'coroutine body of Session::finalize', fin[0] if len(fin) == 1 else None)
    if fin is not None:
        fam = family(ctx, M + 'Session::finalize')
        fam.pop(M + 'Session::sync', None)
        for it in list(fam):
            if it in family(ctx, M + 'Session::sync') and it != M + 'Session::finalize':
                fam.pop(it, None)
        found = 0
        builders = set()      # family members that construct a cookie
        COOKIE_NEW = lambda c: (c or '').endswith('ResponseCookie::new') or (c or '').endswith('RemovalCookie::new')
        for it, bodies in fam.items():
            for b in bodies:
                defs = Defs(b)
                if any(COOKIE_NEW(callee(t)) for _, t in b.calls()):
                    builders.add(it)
                for bb, j_, st in b.all_assigns():
                    rv = st['rv']
                    if rv['k'] == 'agg' and rv.get('ak') == 'adt' and strip_generics(rv['adt']) == 'pavex_session::wire::WireClientState':
                        found += 1
                        i_ = rv['fields'].index('session_id')
                        pl = op_place(rv['ops'][i_])
                        calls = set()
                        if pl is not None:
                            sl, _ = backward_slice(b, pl['l'], defs)
                            calls = {c for c, _, _ in slice_calls(sl)}
                        ok = (M + 'CurrentSessionId::new_id') in calls and (M + 'CurrentSessionId::old_id') not in calls
                        ctx.ob('C11.R3', 'cookie-id|finalize', ok, b.loc(bb, st),
                               'WireClientState.session_id derives from %s' % sorted(c for c in calls if 'SessionId' in c))
        ctx.floor('C11.R3', 'WireClientState constructions in finalize (and its helpers)', found, 1)
        # sync precedes cookie creation: in finalize itself, sync dominates every cookie constructor and every call of a helper that builds one
        from ..inline import inlined
        fin = inlined(ctx.fb, fin, keep={M + 'Session::sync'})     # cookie building may sit any number of private helpers deep
        syncs = [bb for bb, t in fin.calls() if callee(t) == M + 'Session::sync']
        news = [(bb, callee(t)) for bb, t in fin.calls() if COOKIE_NEW(callee(t)) or strip_generics(callee(t) or '') in builders - {M + 'Session::finalize'}]
        if ctx.need('C11.R3', 'call to Session::sync in finalize', syncs) and ctx.need('C11.R3', 'cookie constructors (or helpers that build cookies) in finalize', news):
            for nb, c in news:
                ctx.ob('C11.R3', 'sync-before-cookie|%s' % c.split('::')[-2], fin.dominates(syncs[0], nb),
                       fin.loc(nb), 'sync() (with `?`) dominates the construction of the cookie')
    # (c) invalidate
    inv = ctx.need('C11.R3', 'Session::invalidate', ctx.fb.body(CR, M + 'Session::invalidate'))
    if inv is not None:
        from ..inline import inlined as _inl
        inv = _inl(ctx.fb, inv, crate=CR, keep={M + 'InvalidationFlag::invalidate'})     # "mark for deletion" may be a helper shared with delete()
        defs = Defs(inv)
        flag = [bb for bb, t in inv.calls() if callee(t) == M + 'InvalidationFlag::invalidate']
        dirty = _dirty_write_blocks(inv, defs, SS)
        marked = [bb for bb, v in dirty.items() if v == ['MarkedForDeletion']]
        rets = inv.return_blocks()
        rs = set(rets)
        ok = bool(flag) and bool(marked) and not (inv.reachable_from_entry(avoid=flag) & rs) and not (inv.reachable_from_entry(avoid=marked) & rs)
        ctx.ob('C11.R3', 'invalidate|flag+marked', ok, inv.loc(),
               'invalidate() sets the invalidation flag (blocks %s) and writes MarkedForDeletion (blocks %s) on every path' % (flag, marked))
    # (d) cycle_id
    cyc = ctx.need('C11.R3', 'Session::cycle_id', ctx.fb.body(CR, M + 'Session::cycle_id'))
    if cyc is not None:
        defs = Defs(cyc)
        RANDOM = 'pavex_session::id::SessionId::random'
        is_id_cmp = lambda t: callee(t) in ('core::cmp::PartialEq::ne', 'core::cmp::PartialEq::eq') and t['aty'] and 'SessionId' in t['aty'][0]
        rnd = [bb for bb, t in cyc.calls() if callee(t) == RANDOM]
        cmp_ = [bb for bb, t in cyc.calls() if is_id_cmp(t)]
        # the same draw written with iterator adaptors: `repeat_with(SessionId::random)..find(|new| Some(*new) != old)`: random() is handed over as a
        # function value and the comparison sits in the predicate of the `find`
        fnvals = [bb for bb, t in cyc.calls() if any(isinstance(a_, dict) and a_.get('fn') == RANDOM for a_ in t['args'])]
        finds = []
        for bb, t in cyc.calls():
            if (callee(t) or '').split('::')[-1] in ('find', 'find_map', 'skip_while', 'filter') and (callee(t) or '').startswith('core::iter::'):
                for x in ctx.fb.bodies_of_item(CR, cyc.nroot):
                    if x.id != cyc.id and any(is_id_cmp(t2) for _, t2 in x.calls()) and t['aty'] and any(('closure@' in a_) for a_ in t['aty']):
                        finds.append(bb)
                        break
        writes = [(bb, st) for bb, j, st in cyc.all_assigns() if st.get('lty') and strip_generics(st['lty']) == CID]
        ctx.need('C11.R3', 'assignment to Session.id in cycle_id', writes)
        ctx.need('C11.R3', 'SessionId::random() in cycle_id', rnd or fnvals)

        def from_random(pl):
            sl, _ = backward_slice(cyc, pl['l'], defs) if pl is not None else ([], set())
            direct = RANDOM in {c for c, _, _ in slice_calls(sl)}
            via = [n for _, _, n in sl if n.get('k') == 'call' and any(isinstance(a_, dict) and a_.get('fn') == RANDOM for a_ in n['args'])]
            filtered = [n for _, _, n in sl if n.get('k') == 'call' and (callee(n) or '').split('::')[-1] in ('find', 'find_map', 'skip_while', 'filter')]
            return direct, bool(via) and bool(filtered)

        for bb, st in writes:
            ok = bool(cmp_) and any(cyc.dominates(c, bb) for c in cmp_) and bool(rnd) and cyc.dominates(rnd[0], bb)
            if not ok and fnvals and finds:
                rv = st['rv']
                pl = op_place(rv['op']) if rv['k'] == 'use' else None
                ok = pl is not None and from_random(pl)[1] and all(cyc.dominates(f, bb) for f in finds[:1])
            ctx.ob('C11.R3', 'cycle_id|compared-before-use', ok, cyc.loc(bb, st),
                   'the new id is drawn from SessionId::random() and compared (==/!=) with the old id on every path to the write of Session.id')
        # aggregates: ToBeRenamed{old,new}: `new` from random(), `old` not from random()
        for bb, j, st in cyc.all_assigns():
            rv = st['rv']
            if rv['k'] == 'agg' and rv.get('ak') == 'adt' and strip_generics(rv['adt']) == CID and rv['var'] == 'ToBeRenamed':
                srcs = {}
                for fname, o in zip(rv['fields'], rv['ops']):
                    d_, v_ = from_random(op_place(o))
                    srcs[fname] = d_ or v_
                ctx.ob('C11.R3', 'cycle_id|ToBeRenamed-fields', srcs.get('new') is True and srcs.get('old') is False, cyc.loc(bb, st),
                       'ToBeRenamed{old,new}: new derives from random(): %s; old derives from random(): %s' % (srcs.get('new'), srcs.get('old')))


def r3b_removal_cookie(ctx):
    ctx.rule('C11.R3b', 'shared with C12.R3: the removal cookie sent after invalidate() is built from the configured name, domain and path (a removal '
             'cookie only evicts the cookie whose name, domain and path it repeats: without the domain the client keeps the invalidated cookie).')
    from .c12 import r3_attribute_plumbing
    from ..engine import Ctx
    side = Ctx(ctx.prop, ctx.fb, ctx.tier)
    r3_attribute_plumbing(side)
    n = 0
    for ob in side.obs:
        if 'RemovalCookie' in ob.key:
            n += 1
            ctx.ob('C11.R3b', ob.key, ob.ok, ob.loc, ob.detail, ob.nontrivial)
    ctx.floor('C11.R3b', 'removal-cookie obligations', n, 4)


def r4_only_sync_talks_to_store(ctx):
    ctx.rule('C11.R4', 'P3 who-may-call: inside pavex_session, SessionStore::{create,update,update_ttl,delete,change_id} are '
             'called only from Session::sync (and private helpers whose only callers are sync or such helpers) and SessionStore::load only from '
             'force_load (same closure); positive control: the query '
             'matches the known sites.')
    fam_sync = set(family(ctx, M + 'Session::sync'))
    fam_load = set(family(ctx, M + 'force_load'))
    allowed = {'create': fam_sync, 'update': fam_sync, 'update_ttl': fam_sync, 'delete': fam_sync, 'change_id': fam_sync, 'load': fam_load}
    n = 0
    meths = set()
    seen = set()
    for b in ctx.fb.bodies(CR):
        if b.is_promoted:
            continue
        for bb, t in b.calls():
            c = callee(t)
            if c and c.startswith(STORE):
                meth = c[len(STORE):]
                if meth in allowed:
                    n += 1
                    meths.add(meth)
                    ok = b.nroot in allowed[meth]
                    key = 'caller|%s|%s' % (meth, b.nroot.replace(M, ''))
                    if key not in seen or not ok:
                        seen.add(key)
                        ctx.ob('C11.R4', key, ok, b.loc(bb, t), 'SessionStore::%s called from %s' % (meth, b.nroot), nontrivial=True)
    ctx.count('store_call_sites', n)
    # positive control: the query sees a call of every store method (how many call sites each has is the maintainers' business)
    ctx.floor('C11.R4', 'distinct SessionStore methods called inside pavex_session (positive control)', len(meths), 6)


def r6_wire_symmetry(ctx):
    ctx.rule('C11.R6', 'P9 writer/reader agreement on the cookie payload (WireClientState): Serialize hands every field to serialize_field as a value '
             'of the field\'s own declared type (no `serialize_with` wrapper or filtered copy), under the key the Deserialize side reads; the only '
             'condition under which a field is skipped is "the map is empty" (which `#[serde(default)]` on the reader restores). Whatever the '
             'client state holds — including null values — is what the next request reads.')
    W = 'pavex_session::wire::WireClientState'
    a = ctx.need('C11.R6', 'ADT WireClientState', ctx.fb.adt(CR, W))
    if a is None:
        return
    norm = lambda ty: re.sub(r"'\w+", "'_", ty).replace(' ', '')
    decl = {f['n']: norm(f['ty']) for v in a['variants'] for f in v['fields']}
    ser = [b for b in ctx.fb.bodies(CR) if not b.is_promoted and b.raw.get('impl_trait', '').endswith('ser::Serialize') and W in strip_generics(b.raw.get('impl_self', '') or b.nid)]
    de = [b for b in ctx.fb.bodies(CR) if not b.is_promoted and 'Deserialize for ' + W in b.nid]
    if not ctx.need('C11.R6', 'impl Serialize for WireClientState', ser) or not ctx.need('C11.R6', 'impl Deserialize for WireClientState', de):
        return
    written = {}
    skips = set()
    for b in ser:
        defs = Defs(b)
        for bb, t in b.calls():
            c = callee(t) or ''
            if c.endswith('SerializeStruct::serialize_field') or c.endswith('SerializeMap::serialize_entry'):
                key = next((x['str'] for x in t['args'] if isinstance(x, dict) and 'str' in x), None)
                written[key] = norm((t.get('ga') or ['', ''])[-1])
            if c.endswith('SerializeStruct::skip_field'):
                from ..govern import controlling_switches
                for sb, st in controlling_switches(b, bb):
                    if 'enum' in st:
                        continue     # `?` on the earlier writes: reaching this point at all, not whether the field is skipped
                    pl = op_place(st['d']) if 'd' in st else None
                    if pl is None:
                        continue
                    # the calls whose result is tested (copies followed, arguments not: `is_empty(&*self.user_values)` is the predicate)
                    _, locs = backward_slice(b, pl['l'], defs, through_calls=False)
                    sl = [(sb2, 0, t2) for sb2, t2 in b.calls() if not t2['dest'].get('p') and t2['dest']['l'] in (locs | {pl['l']})]
                    skips |= {x.split('::')[-2] + '::' + x.split('::')[-1] for x, _, _ in slice_calls(sl) if x.split('::')[-1] not in ('deref', 'as_ref', 'borrow')}
    read_keys = set()
    for b in de:
        for bb, t in b.calls():
            if (callee(t) or '').split('::')[-1] in ('missing_field', 'duplicate_field'):
                read_keys |= {x['str'] for x in t['args'] if isinstance(x, dict) and 'str' in x}
    ctx.ob('C11.R6', 'keys-agree', set(written) == read_keys and len(written) == len(decl), ser[0].loc(),
           'keys written %s; keys read %s; declared fields %d' % (sorted(map(str, written)), sorted(read_keys), len(decl)))
    types = sorted(decl.values())
    for key, ty in sorted(written.items(), key=lambda kv: str(kv[0])):
        ctx.ob('C11.R6', 'written-as-declared|%s' % key, ty in types, ser[0].loc(),
               'field written under key %r is serialised as %s (declared field types: %s)' % (key, ty[:90], [x[:60] for x in types]))
    ctx.ob('C11.R6', 'skipped-only-when-empty', skips <= {'HashMap::is_empty'}, ser[0].loc(), 'conditions under which a field is skipped: %s' % (sorted(skips) or 'none'))


def r7_the_store_keeps_its_side_of_the_contract(ctx):
    ctx.rule('C11.R7', 'shared with C13.R3: the typestate exploration (C11.R5) checks Session against a store CONTRACT — create stores the record it is given unless a '
             'live record has the id, an expired record is absent. The in-memory store, which `Session::sync` is fed in every test and example, keeps that '
             'contract: its guarded accessors answer present-and-fresh only, `create` inserts (overwrites a stale slot) after the freshness test, nothing '
             'is mutated on a failing path. A `create` that keeps a stale slot (`entry().or_insert`) makes the re-creation that `sync` performs after '
             '`update` reported an unknown id a silent no-op: the next request loads nothing.')
    from .c13 import r3_memory
    from ..engine import Ctx
    side = Ctx(ctx.prop, ctx.fb, ctx.tier)
    r3_memory(side)
    for ob in side.obs:
        ctx.ob('C11.R7', ob.key, ob.ok, ob.loc, ob.detail, ob.nontrivial)


MAP_MUTATORS = {'retain', 'remove', 'remove_entry', 'clear', 'drain', 'extract_if', 'insert', 'entry', 'get_mut', 'values_mut', 'iter_mut', 'shrink_to',
                'extend', 'try_insert'}
R8_IDENTITY = {'into_owned', 'into', 'from', 'clone', 'to_owned', 'deref', 'borrow', 'as_ref', 'unwrap_or_default', 'new', 'default', 'branch', 'from_residual',
               'value', 'get', 'from_str', 'as_str'}


def r8_incoming_client_state_is_the_cookies(ctx):
    ctx.rule('C11.R8', 'P7 provenance + P3: the client-side values a request starts with are the ones the cookie carried. In every body of pavex_session that '
             'builds an `IncomingSession` (extract, from_parts) or takes one apart (`Session::new`), the `client_state` reaches its destination through '
             'identity conversions only, and no method that edits a map (retain / remove / clear / drain / insert ..) is called in those bodies: an entry '
             'dropped on the way in (a `null`, an empty string, an unknown key) is a value that silently fails to carry over.')
    fb = ctx.fb
    CR = 'pavex_session'
    n_agg = 0
    bodies = []
    for b in fb.bodies(CR):
        if b.is_promoted:
            continue
        builds = [(bb, j, st) for bb, j, st in b.all_assigns()
                  if st['rv']['k'] == 'agg' and st['rv'].get('ak') == 'adt' and strip_generics(st['rv']['adt']) == 'pavex_session::incoming::IncomingSession']
        takes = b.nid.startswith('pavex_session::session_::Session::new') and any('IncomingSession' in t for t in b.locals[1:1 + b.n_args]) if hasattr(b, 'n_args') else \
            b.nid == 'pavex_session::session_::Session::new'
        if builds or takes:
            bodies.append((b, builds))
    ctx.floor('C11.R8', 'bodies that build or open an IncomingSession', len(bodies), 2)
    for b, builds in bodies:
        short = b.nid.replace('pavex_session::', '')
        muts = [(bb, t) for bb, t in b.calls()
                if (callee(t) or '').startswith('std::collections::hash::map::HashMap::') and (callee(t) or '').split('::')[-1].split('<')[0] in MAP_MUTATORS]
        ctx.ob('C11.R8', 'no-map-edit|%s' % short, not muts, b.loc(muts[0][0], muts[0][1]) if muts else b.loc(),
               'map-editing calls in this body: %s' % ([callee(t).split('::')[-1] for _, t in muts] or 'none'))
        defs = Defs(b)
        for bb, j, st in builds:
            rv = st['rv']
            for f, o in zip(rv.get('fields', []), rv['ops']):
                if f != 'client_state':
                    continue
                n_agg += 1
                pl = op_place(o)
                cs = []
                if pl is not None:
                    sl, _ = backward_slice(b, pl['l'], defs)
                    cs = sorted({(c or '?').split('::')[-1].split('<')[0] for c, _, _ in slice_calls(sl)})
                bad = [c for c in cs if c not in R8_IDENTITY]
                ctx.ob('C11.R8', 'client-state-as-received|%s' % short, not bad, b.loc(bb, st),
                       'client_state is built through %s%s' % (cs or 'a plain move', '' if not bad else ' — NOT identity conversions: %s' % bad))
    ctx.floor('C11.R8', 'IncomingSession aggregates', n_agg, 1)


def check(ctx):
    r8_incoming_client_state_is_the_cookies(ctx)
    r7_the_store_keeps_its_side_of_the_contract(ctx)
    from .c11_model import r5_typestate
    r5_typestate(ctx)
    r1_dirty_tracking(ctx)
    r2_sync_table(ctx)
    r3_id_plumbing(ctx)
    r3b_removal_cookie(ctx)
    r4_only_sync_talks_to_store(ctx)
    r6_wire_symmetry(ctx)


CLAUSE += " Also: the typestate exploration is closed over REQUESTS (a cookie handed out without a record starts the next request); the client state a request starts with is the cookie's, unfiltered."
