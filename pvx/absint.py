"""P11: path-wise abstract interpretation of one MIR body over a small finite "typestate" domain.

The interpreter walks the CFG path by path (depth first). Everything that is specific to the analysed code is supplied by a
`Semantics` object: how an enum switch is resolved from the abstract environment, what a call does to it, which calls
diverge. What the interpreter itself knows:

  * bool locals: per-path memo keyed by the *root* local (copies / short-circuit constants are followed); a switch on a
    bool whose value is unknown forks the path and remembers the choice, so two tests of the same flag agree;
  * tags: a per-path map local -> tag, propagated through whole-local copies, references and derefs; semantics can tag the
    destination of a call (e.g. "result of old_id()") and use the tag when an enum switch on that local is reached;
  * closures: `run_closure` interprets a closure body with its upvars resolved to the parent's bool roots;
  * await machinery: a switch on core::task::poll::Poll takes the Ready edge only (the Pending edge yields and loops).

Every path ends in one of: ('return', env), ('panic', env, message), or is cut (unreachable / cycle).
"""
from .facts import callee, op_place, strip_generics
from .tables import switch_edges

POLL = 'core::task::poll::Poll'
UNSIGNED = ('usize', 'u8', 'u16', 'u32', 'u64', 'u128')


class Semantics:
    def enum_switch(self, interp, path, body, bb, term, enum):
        """-> list of variant names that may be taken, or None for "all"."""
        return None

    def call(self, interp, path, body, bb, term, name):
        """-> None (no effect), or a list of successor paths (already advanced: the hook mutates copies of `path`)."""
        return None

    def assign(self, interp, path, body, bb, st):
        pass

    def bool_switch(self, interp, path, body, bb, term):
        """-> True / False to force the outcome of a switch on a bool that has no effect on the model, None otherwise"""
        return None


class PathState:
    __slots__ = ('env', 'memo', 'alias', 'tags', 'pay', 'num', 'trail', 'seen')

    def __init__(self, env):
        self.env = dict(env)
        self.memo = {}      # root key -> bool
        self.alias = {}     # (body id, local) -> root key
        self.tags = {}      # (body id, local) -> tag
        self.num = {}       # (body id, local) -> '0' | '+' : an unsigned counter that is zero / has been incremented
        self.pay = {}       # (body id, local) -> bool payload of an Option<bool> / Result<bool, _> value held in that local
        self.trail = []
        self.seen = set()

    def fork(self):
        p = PathState(self.env)
        p.memo = dict(self.memo)
        p.alias = dict(self.alias)
        p.tags = dict(self.tags)
        p.pay = dict(self.pay)
        p.num = dict(self.num)
        p.trail = list(self.trail)
        p.seen = set(self.seen)
        return p

    def key(self):
        return (tuple(sorted(self.env.items(), key=lambda kv: kv[0])), tuple(sorted((str(k), v) for k, v in self.memo.items())))


class Interp:
    def __init__(self, sem, max_paths=20000):
        self.sem = sem
        self.max_paths = max_paths
        self.n_paths = 0
        self.n_steps = 0
        self.inert_macros = ('tracing::', 'log::')

    # -- roots / tags -------------------------------------------------------------------------------------------------
    def root(self, path, body, local, upvars=None):
        k = (body.id, local)
        seen = set()
        while k in path.alias and k not in seen:
            seen.add(k)
            k = path.alias[k]
        return k

    def tag_of(self, path, body, place):
        if place is None:
            return None
        return path.tags.get((body.id, place['l']))

    def _whole(self, pl):
        """a place that denotes a whole local, possibly behind derefs"""
        return pl is not None and all(e == '*' for e in pl.get('p', []))

    # -- statements ---------------------------------------------------------------------------------------------------
    def _stmt(self, path, body, bb, st, upvars):
        lhs = st.get('lhs')
        if lhs is None:
            return
        self.sem.assign(self, path, body, bb, st)
        if lhs.get('p'):
            return
        l = lhs['l']
        k = (body.id, l)
        rv = st['rv']
        path.alias.pop(k, None)
        path.memo.pop(k, None)
        path.tags.pop(k, None)
        path.pay.pop(k, None)
        path.num.pop(k, None)
        kind = rv['k']
        src = None
        if kind == 'bin':
            self._arith(path, body, k, l, rv)
            return
        if kind == 'use':
            o = rv['op']
            if 'int' in o and body.locals[l] == 'bool':
                path.memo[k] = o['int'] != '0'
                return
            if 'int' in o and body.locals[l] in UNSIGNED:
                path.num[k] = '0' if o['int'] == '0' else '+'
                return
            src = op_place(o)
            if src is not None and src.get('p') == ['f:0'] and (body.id, src['l']) in path.num and body.locals[l] in UNSIGNED:
                path.num[k] = path.num[(body.id, src['l'])]          # the value half of a checked addition
                return
        elif kind == 'ref':
            src = rv['pl']
        elif kind == 'cfd':
            src = rv['pl']
        elif kind == 'un' and rv.get('uop') == 'Not':
            pl = op_place(rv['op'])
            if pl is not None and self._whole(pl):
                r = self.root(path, body, pl['l'])
                if r in path.memo:
                    path.memo[k] = not path.memo[r]
                else:
                    path.alias[k] = ('not', r)
            return
        if src is None:
            return
        if self._whole(src):
            sk = (body.id, src['l'])
            path.alias[k] = self.root(path, body, src['l'])
            if sk in path.tags:
                path.tags[k] = path.tags[sk]
            if sk in path.pay:
                path.pay[k] = path.pay[sk]
            if sk in path.num:
                path.num[k] = path.num[sk]
        elif self._payload_place(src) and (body.id, src['l']) in path.pay and body.locals[l] == 'bool':
            path.memo[k] = path.pay[(body.id, src['l'])]
        elif upvars is not None and src['l'] == 1 and src.get('p') and src['p'][0].startswith('f:'):
            # read of a captured variable: _1.f:<i>.*
            name = src['p'][0][2:]
            if name in upvars and all(e == '*' for e in src['p'][1:]):
                path.alias[k] = upvars[name]

    def _num_of(self, path, body, op):
        if op is None:
            return None
        if 'int' in op:
            return '0' if op['int'] == '0' else '+'
        pl = op_place(op)
        if pl is not None and not pl.get('p'):
            return path.num.get((body.id, pl['l']))
        return None

    def _arith(self, path, body, k, l, rv):
        """unsigned counters: 0 / incremented. `n = n + c` (checked or not) and comparisons of a counter with the constant 0"""
        a, b = self._num_of(path, body, rv['a']), self._num_of(path, body, rv['b'])
        bop = rv['bop']
        if bop in ('Add', 'AddWithOverflow', 'AddUnchecked'):
            if a is not None and b is not None:
                path.num[k] = '+' if '+' in (a, b) else '0'
            return
        if body.locals[l] != 'bool' or a is None or b is None:
            return
        zero_b, zero_a = 'int' in rv['b'] and rv['b']['int'] == '0', 'int' in rv['a'] and rv['a']['int'] == '0'
        v = None
        if zero_b:      # a <op> 0
            v = {'Eq': a == '0', 'Ne': a == '+', 'Gt': a == '+', 'Le': a == '0', 'Ge': True, 'Lt': False}.get(bop)
        elif zero_a:    # 0 <op> b
            v = {'Eq': b == '0', 'Ne': b == '+', 'Lt': b == '+', 'Ge': b == '0', 'Le': True, 'Gt': False}.get(bop)
        if v is not None:
            path.memo[k] = v

    @staticmethod
    def _payload_place(pl):
        """`(x as Variant).0`, possibly behind derefs"""
        p = [e for e in (pl.get('p') or []) if e != '*']
        return len(p) == 2 and p[0].startswith('d:') and p[1] in ('f:0', 'f:__0')

    def bool_value(self, path, body, local):
        r = self.root(path, body, local)
        neg = False
        while isinstance(r, tuple) and r and r[0] == 'not':
            neg = not neg
            r = r[1]
            while r in path.alias:
                r = path.alias[r]
        if r in path.memo:
            return path.memo[r] != neg, r, neg
        return None, r, neg

    # -- driver -------------------------------------------------------------------------------------------------------
    def run(self, body, env, upvars=None, path=None, start=0):
        """-> list of outcomes: ('return', PathState) | ('panic', PathState, msg)"""
        out = []
        descent = path is not None
        p0 = path if path is not None else PathState(env)
        stack = [(start, p0)]
        while stack:
            bb, path = stack.pop()
            self.n_steps += 1
            if self.n_paths > self.max_paths:
                raise RuntimeError('absint: path explosion in %s' % body.id)
            key = (body.id, bb, path.key())
            if key in path.seen:
                continue  # cycle on this path without progress
            path.seen.add(key)
            for st in body.stmts(bb):
                self._stmt(path, body, bb, st, upvars)
            t = body.term(bb)
            if not t:
                continue
            k = t['k']
            if k in ('goto', 'drop', 'assert'):
                stack.append((t['t'], path))
            elif k == 'yield':
                continue  # only reached through Poll::Pending, which is never taken
            elif k == 'return':
                self.n_paths += 1
                out.append(('return', path))
            elif k == 'unreachable':
                continue
            elif k == 'call':
                name = callee(t) or ''
                succ = self.sem.call(self, path, body, bb, t, name)
                if succ is None:
                    d = t.get('dest')
                    if d is not None and not d.get('p'):
                        dk = (body.id, d['l'])
                        path.alias.pop(dk, None)
                        path.memo.pop(dk, None)
                        path.tags.pop(dk, None)
                    if 't' in t:
                        stack.append((t['t'], path))
                    elif (t.get('mo') or '') in ('debug_assert', 'debug_assert_eq', 'debug_assert_ne'):
                        continue    # a debug assertion failing: not part of the builds users run; the path on which it holds goes on
                    else:
                        self.n_paths += 1
                        out.append(('panic', path, self._panic_message(body, bb)))
                else:
                    for item in succ:
                        if item[0] == 'next':
                            if 't' in t:
                                stack.append((t['t'], item[1]))
                        elif item[0] == 'panic':
                            self.n_paths += 1
                            out.append(('panic', item[1], item[2]))
            elif k == 'switch':
                if 'enum' in t:
                    enum = strip_generics(t['enum'])
                    edges = switch_edges(t)
                    if enum == POLL:
                        allowed = ['Ready']
                    else:
                        allowed = self.sem.enum_switch(self, path, body, bb, t, enum)
                    if allowed is None:
                        allowed = list(edges)
                    tg = {}
                    for v in allowed:
                        if v in edges:
                            tg.setdefault(edges[v], []).append(v)
                    first = True
                    for target, vs in tg.items():
                        p = path if first and len(tg) == 1 else path.fork()
                        first = False
                        p.trail.append(('switch', enum.split('::')[-1], '|'.join(vs)))
                        stack.append((target, p))
                else:
                    pl = op_place(t['d'])
                    zero = [tgt for v, tgt in t['ts'] if v == '0']
                    is_bool = pl is not None and not pl.get('p') and body.locals[pl['l']] == 'bool' and len(t['ts']) == 1 and zero
                    if pl is not None and pl.get('p') and len(t['ts']) == 1 and zero and self._payload_place(pl) and (body.id, pl['l']) in path.pay:
                        stack.append((t['else'] if path.pay[(body.id, pl['l'])] else zero[0], path))
                        continue
                    if is_bool and (t.get('mo') or '').startswith(self.inert_macros):
                        # logging / tracing expansions: whether the event is enabled has no effect on the model
                        stack.append((zero[0], path))
                    elif is_bool and self.sem.bool_switch(self, path, body, bb, t) is not None:
                        stack.append((t['else'] if self.sem.bool_switch(self, path, body, bb, t) else zero[0], path))
                    elif is_bool:
                        val, r, neg = self.bool_value(path, body, pl['l'])
                        if val is not None:
                            stack.append((t['else'] if val else zero[0], path))
                        else:
                            pt, pf = path.fork(), path.fork()
                            pt.memo[r] = (True != neg)
                            pf.memo[r] = (False != neg)
                            stack.append((t['else'], pt))
                            stack.append((zero[0], pf))
                    else:
                        nv = path.num.get((body.id, pl['l'])) if pl is not None and not pl.get('p') else None
                        zt = [tgt for v, tgt in t['ts'] if v == '0']
                        if nv == '0':
                            # a counter known to be zero: `match n { 0 => .., 1 => .., _ => .. }` takes the 0 arm (or the default one)
                            stack.append((zt[0] if zt else t['else'], path))
                        elif nv == '+':
                            for target in dict.fromkeys([x[1] for x in t['ts'] if x[0] != '0'] + [t['else']]):
                                stack.append((target, path.fork()))
                        else:
                            for target in dict.fromkeys([x[1] for x in t['ts']] + [t['else']]):
                                stack.append((target, path.fork()))
        if descent:
            # an activation that has returned is over: calling the same helper again further down the path (with the same abstract state)
            # is not a cycle of the path
            for oc in out:
                oc[1].seen = {k for k in oc[1].seen if k[0] != body.id}
        return out

    def _panic_message(self, body, bb):
        # the message of a panic is usually a str constant one or two blocks before the diverging call
        seen, work = set(), [bb]
        for _ in range(4):
            nxt = []
            for b in work:
                if b in seen:
                    continue
                seen.add(b)
                t = body.term(b)
                for o in (t.get('args', []) if t else []):
                    if isinstance(o, dict) and ('str' in o or 'bytes' in o):
                        return str(o.get('str') or o.get('bytes'))[:700]
                for st in body.stmts(b):
                    rv = st.get('rv')
                    if rv and rv['k'] == 'use' and ('str' in rv['op'] or 'bytes' in rv['op']):
                        return str(rv['op'].get('str') or rv['op'].get('bytes'))[:700]
                nxt += body.pred(b)
            work = nxt
        return ''


def closure_upvars(interp, path, parent, closure_local):
    """{field name or index (as str): root key in the parent} for a closure value held in `closure_local` of `parent`
    (the closure aggregate's operands are references to the parent's locals)."""
    out = {}
    for bb, j, st in parent.all_assigns():
        rv = st['rv']
        if st['lhs'].get('p') or st['lhs']['l'] != closure_local or rv['k'] != 'agg' or rv.get('ak') != 'closure':
            continue
        for i, o in enumerate(rv['ops']):
            pl = op_place(o)
            if pl is None or pl.get('p'):
                continue
            # the operand is a local holding `&x` / `&mut x` / a copy of x
            for b2, j2, st2 in parent.all_assigns():
                if st2['lhs'].get('p') or st2['lhs']['l'] != pl['l']:
                    continue
                r2 = st2['rv']
                src = r2['pl'] if r2['k'] == 'ref' else (op_place(r2['op']) if r2['k'] == 'use' else None)
                if src is not None and not src.get('p'):
                    out[str(i)] = interp.root(path, parent, src['l'])
        return out, rv.get('def')
    return out, None
