"""P5: enum -> facts table extraction from `match` lowering (SwitchInt on a discriminant)."""
from .facts import callee, op_place, strip_generics
from .flow import rv_operands


def enum_switches(body, enum=None):
    """(bb, term) of live SwitchInt terminators on an enum discriminant (optionally of a given ADT)"""
    for bb in sorted(body.live_blocks()):
        t = body.term(bb)
        if t and t['k'] == 'switch' and 'enum' in t:
            if enum is None or strip_generics(t['enum']) == enum:
                yield bb, t


def switch_edges(t):
    """{variant name: target block}; variants routed to `otherwise` are keyed by their names too"""
    m = {}
    for name, tgt in t['ts']:
        m[name] = tgt
    for name in t.get('rest', []):
        m[name] = t['else']
    return m


def switch_arms(body, bb):
    """{variant: blocks reachable from its target that are NOT reachable from any other variant's target}
    (blocks exclusive to the arm; the join blocks after the match are excluded)."""
    t = body.term(bb)
    edges = switch_edges(t)
    # `otherwise` that is `unreachable` is noise
    tgt2vars = {}
    for v, tg in edges.items():
        tgt2vars.setdefault(tg, []).append(v)
    # loop-aware: an arm ends where control comes back to the switch itself
    reach = {tg: body.reachable(tg, avoid=[bb]) for tg in tgt2vars}
    arms = {}
    for tg, vs in tgt2vars.items():
        others = set()
        for tg2, r in reach.items():
            if tg2 != tg:
                others |= r
        excl = reach[tg] - others
        for v in vs:
            arms[v] = excl
    return arms


def region_facts(body, blocks):
    """aggregates, calls, field reads, constants inside a set of blocks"""
    f = {'aggs': [], 'calls': [], 'reads': [], 'strs': [], 'ints': [], 'rets': False, 'unreachable': False, 'blocks': blocks}
    for bb in sorted(blocks):
        blk = body.blocks[bb]
        for st in blk['st']:
            rv = st.get('rv')
            if not rv:
                continue
            if rv['k'] == 'agg' and rv.get('ak') == 'adt':
                f['aggs'].append((strip_generics(rv['adt']), rv['var'], bb, st))
            ops, places = rv_operands(rv)
            for o in ops:
                pl = op_place(o)
                if pl is not None and pl.get('p'):
                    f['reads'].append((pl, bb, st))
                if 'str' in o:
                    f['strs'].append(o['str'])
                if 'int' in o:
                    f['ints'].append(o['int'])
            for pl in places:
                if pl.get('p'):
                    f['reads'].append((pl, bb, st))
        t = blk['term']
        if not t:
            continue
        if t['k'] == 'call':
            f['calls'].append((callee(t), bb, t))
            for o in t['args']:
                if 'str' in o:
                    f['strs'].append(o['str'])
                if 'int' in o:
                    f['ints'].append(o['int'])
                pl = op_place(o)
                if pl is not None and pl.get('p'):
                    f['reads'].append((pl, bb, t))
        elif t['k'] == 'return':
            f['rets'] = True
        elif t['k'] == 'unreachable':
            f['unreachable'] = True
    return f


def variant_table(body, bb):
    arms = switch_arms(body, bb)
    return {v: region_facts(body, blocks) for v, blocks in arms.items()}


def guard_context(body, target_bb):
    """For a block: {enum: set(variants)} over the enum switches that dominate it, where the set lists the variants whose
    edge can lead to the block (without re-entering the switch)."""
    ctx = {}
    for sbb, t in enum_switches(body):
        if sbb == target_bb or not body.dominates(sbb, target_bb):
            continue
        edges = switch_edges(t)
        allowed = set()
        for v, tg in edges.items():
            if tg == target_bb or target_bb in body.reachable(tg, avoid=[sbb]):
                allowed.add(v)
        e = strip_generics(t['enum'])
        if len(allowed) < len(edges):
            # several switches on the same enum may dominate (nested matches): intersect
            ctx[e] = ctx[e] & allowed if e in ctx else allowed
        elif e not in ctx:
            ctx[e] = allowed
    return ctx
