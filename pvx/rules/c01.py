"""C01 — Accepted blueprints yield a server SDK that compiles.

Decided clauses: the borrow-check pipeline is a typestate code generation cannot bypass (an OrderedCallGraph exists only
after the three passes ran, in order, each gated on "no new diagnostics"); the ownership table that drives the passes and
the ordering maps each edge kind to the documented relationship; a by-reference input is mutable as soon as one consumer
needs `&mut`; a binding handed out as `&mut` is declared `mut`.
Whether rustc accepts the emitted crate is not decided.
"""
import re
from ..facts import callee, op_place, strip_generics
from ..flow import Defs, backward_slice, slice_calls, forward_derived, rv_operands
from ..quote import chains, token_of, is_quote_call
from ..tables import enum_switches, switch_arms, variant_table, guard_context
from .compiler_common import PX, SINK

LEVEL = 'other'
TECHNIQUE = 'static analysis: typestate / ordering (dominance) over the MIR of the borrow-check pipeline, enum-table extraction from match lowering, provenance slices, control-dependence of recursive calls in type walkers, field-read coverage'
CLAUSE = ('OrderedCallGraph values are built only by order(), which is called only by new() after borrow_check()?; borrow_check runs '
          'multiple_consumers, move_while_borrowed, complex_borrow_check in that order on each other\'s output and returns Err whenever a '
          'pass added diagnostics; OwnershipRelationships::compute maps Move->consumes, SharedBorrow/ExclusiveBorrow->borrows, '
          'HappensBefore->nothing; an input parameter is turned into a reference only if it is never moved and the reference is mutable iff '
          'some edge is an ExclusiveBorrow (monotone OR); get_expr_for_type marks the binding mutable on the path that emits `&mut`. The five callable-path renderers for generated code render nested types with (CrateLookup, Erase); no fragment of an opened CanonicalType is compared, hashed or used as a key.')
TRUSTED = ['each borrow-checking pass is correct on its own (not decided)', 'the body emitter follows the OrderedCallGraph it is given']

BC = PX + 'analyses::call_graph::borrow_checker::'
OCG = BC + 'assign_order::{impl pavexc::compiler::analyses::call_graph::borrow_checker::ordered_call_graph::OrderedCallGraph}::'
OCG_T = BC + 'ordered_call_graph::OrderedCallGraph'
EDGE = PX + 'analyses::call_graph::core_graph::CallGraphEdgeMetadata'


def short(p):
    return '::'.join(strip_generics(p).split('::')[-2:])


def r1_typestate(ctx):
    ctx.rule('C01.R1', 'P3: the struct OrderedCallGraph is constructed (aggregate) only inside OrderedCallGraph::order, and order() is called only from '
             'OrderedCallGraph::new; every call graph stored for code generation has that type (fields of RequestHandlerPipeline / '
             'ApplicationStateCallGraph).')
    n = 0
    for b in ctx.fb.bodies('pavexc'):
        if b.is_promoted:
            continue
        for bb, j, st in b.all_assigns():
            rv = st['rv']
            if rv['k'] == 'agg' and rv.get('ak') == 'adt' and strip_generics(rv['adt']) == OCG_T:
                n += 1
                derived = b.raw.get('impl_trait') in ('core::clone::Clone',)
                ctx.ob('C01.R1', 'constructor|%s' % b.nroot.split('::')[-1], b.nroot == OCG + 'order' or derived, b.loc(bb, st), 'OrderedCallGraph built in %s' % b.nroot)
        for bb, t in b.calls():
            if callee(t) == OCG + 'order':
                ctx.ob('C01.R1', 'order-caller|%s' % b.nroot.split('::')[-1], b.nroot == OCG + 'new', b.loc(bb, t), 'order() called from %s' % b.nroot)
    ctx.floor('C01.R1', 'OrderedCallGraph construction sites', n, 1)
    for adt, field in ((PX + 'analyses::processing_pipeline::pipeline::RequestHandlerPipeline', 'id2call_graph'),
                       (PX + 'analyses::call_graph::application_state::ApplicationStateCallGraph', 'call_graph')):
        a = ctx.need('C01.R1', 'ADT ' + adt.split('::')[-1], ctx.fb.adt('pavexc', adt))
        if a:
            ty = next((f['ty'] for v in a['variants'] for f in v['fields'] if f['n'] == field), None)
            ctx.ob('C01.R1', 'stored-graph-type|%s.%s' % (adt.split('::')[-1], field), ty is not None and 'OrderedCallGraph' in ty, '%s:%s' % (a['file'], a['ln']),
                   '%s.%s : %s' % (adt.split('::')[-1], field, ty))


def r2_pipeline(ctx):
    ctx.rule('C01.R2', 'P1/P2/P7: OrderedCallGraph::new calls borrow_check(..)? and passes its result to order(); borrow_check calls multiple_consumers, '
             'move_while_borrowed and complex_borrow_check in that order, each on the previous result, with a diagnostics-count gate after '
             'the first two and after the third whose "grew" branch returns Err, and returns Ok(result of the third pass).')
    new = ctx.need('C01.R2', 'OrderedCallGraph::new', ctx.fb.body('pavexc', OCG + 'new'))
    if new is not None:
        defs = Defs(new)
        bc = [(bb, t) for bb, t in new.calls() if callee(t) == OCG + 'borrow_check']
        od = [(bb, t) for bb, t in new.calls() if callee(t) == OCG + 'order']
        ok = False
        if bc and od:
            der = forward_derived(new, {bc[0][1]['dest']['l']}, through_calls=True)
            tr = [bb for bb, t in new.calls() if callee(t) == 'core::ops::try_trait::Try::branch' and op_place(t['args'][0]) and op_place(t['args'][0])['l'] in der]
            pl = op_place(od[0][1]['args'][0])
            ok = bool(tr) and new.dominates(tr[0], od[0][0]) and pl is not None and pl['l'] in der
        ctx.ob('C01.R2', 'new|checked-before-ordered', ok, new.loc(bc[0][0]) if bc else new.loc(), 'order() receives the graph returned by borrow_check()?')
    b = ctx.need('C01.R2', 'borrow_check', ctx.fb.body('pavexc', OCG + 'borrow_check'))
    if b is None:
        return
    passes = [BC + 'multiple_consumers::multiple_consumers', BC + 'move_while_borrowed::move_while_borrowed', BC + 'complex::complex_borrow_check']
    sites = []
    for p in passes:
        s = [(bb, t) for bb, t in b.calls() if callee(t) == p]
        ctx.need('C01.R2', p.split('::')[-1] + ' in borrow_check', s)
        sites.append(s[0] if s else None)
    if None in sites:
        return
    order_ok = b.dominates(sites[0][0], sites[1][0]) and b.dominates(sites[1][0], sites[2][0])
    chain_ok = True
    for i in (1, 2):
        pl = op_place(sites[i][1]['args'][0])
        der = forward_derived(b, {sites[i - 1][1]['dest']['l']})
        chain_ok = chain_ok and pl is not None and pl['l'] in der
    ctx.ob('C01.R2', 'passes-in-order-on-each-others-output', order_ok and chain_ok, b.loc(sites[0][0]), 'order: %s; each pass consumes the previous result: %s' % (order_ok, chain_ok))
    lens = [bb for bb, t in b.calls() if callee(t) == SINK + 'len']
    errs = [bb for bb, j, st in b.all_assigns() if st['lhs'] == {'l': 0} and st['rv']['k'] == 'agg' and st['rv'].get('var') == 'Err']
    oks = [(bb, st) for bb, j, st in b.all_assigns() if st['lhs'] == {'l': 0} and st['rv']['k'] == 'agg' and st['rv'].get('var') == 'Ok']
    # gate between pass 2 and pass 3, and between pass 3 and Ok: a len() comparison whose one branch returns Err
    def gated(frm, to):
        cands = [l for l in lens if b.dominates(frm, l) and b.dominates(l, to) and l != lens[0]] if lens else []
        for l in cands:
            der = forward_derived(b, {b.term(l)['dest']['l']}, through_calls=True)
            for sb in b.live_blocks():
                w = b.term(sb)
                if w and w['k'] == 'switch' and 'enum' not in w and op_place(w['d']) and op_place(w['d'])['l'] in der and b.dominates(sb, to):
                    for s_ in b.succ(sb):
                        reg = b.reachable(s_, avoid=[x for x in b.succ(sb) if x != s_])
                        if set(errs) & reg and to not in reg:
                            return True
        return False
    g1 = gated(sites[1][0], sites[2][0])
    g2 = bool(oks) and gated(sites[2][0], oks[0][0])
    ctx.ob('C01.R2', 'gated-after-simple-passes', g1, b.loc(sites[1][0]), 'a diagnostics-count gate that returns Err sits between move_while_borrowed and complex_borrow_check: %s' % g1)
    ctx.ob('C01.R2', 'gated-before-ok', g2, b.loc(sites[2][0]), 'a diagnostics-count gate that returns Err sits between complex_borrow_check and Ok(..): %s' % g2)
    if oks:
        pl = op_place(oks[0][1]['rv']['ops'][0])
        der = forward_derived(b, {sites[2][1]['dest']['l']})
        ctx.ob('C01.R2', 'ok-returns-checked-graph', pl is not None and pl['l'] in der, b.loc(oks[0][0]), 'Ok(..) carries the graph returned by complex_borrow_check')
    snap = bool(lens) and b.dominates(lens[0], sites[0][0])
    ctx.ob('C01.R2', 'count-snapshot-first', snap, b.loc(lens[0]) if lens else b.loc(), 'the diagnostics count is snapshotted before the first pass')


def r5_ownership_table(ctx):
    ctx.rule('C01.R5', 'P5: OwnershipRelationships::compute maps every call-graph edge kind to the documented relationship: Move -> consumes, '
             'SharedBorrow -> borrows, ExclusiveBorrow -> borrows, HappensBefore -> nothing (this table drives both the borrow-check passes '
             'and the ordering: is_consumed_by && is_borrowed).')
    fn = BC + 'ownership_relationship::OwnershipRelationships::compute'
    b = ctx.need('C01.R5', 'OwnershipRelationships::compute', ctx.fb.body('pavexc', fn))
    if b is None:
        return
    sws = list(enum_switches(b, EDGE))
    if not ctx.need('C01.R5', 'match on CallGraphEdgeMetadata', sws):
        return
    arms = switch_arms(b, sws[0][0])
    want = {'Move': {'consumes'}, 'SharedBorrow': {'borrows'}, 'ExclusiveBorrow': {'borrows'}, 'HappensBefore': set()}
    for var, exp in want.items():
        got = set()
        for bb in arms.get(var, ()):
            t = b.term(bb)
            if t and t['k'] == 'call':
                m = (callee(t) or '').split('::')[-1]
                if m in ('consumes', 'borrows', 'remove_consumer', 'remove_all_borrows'):
                    got.add(m)
        ctx.ob('C01.R5', 'edge|%s' % var, got == exp, b.loc(sws[0][0]), '%s edge -> %s (documented: %s)' % (var, sorted(got) or 'nothing', sorted(exp) or 'nothing'))


def r6_reference_inputs(ctx):
    ctx.rule('C01.R6', 'P5/P7: in take_references_as_inputs_if_they_suffice the flags are a monotone OR over the outgoing edges (Move sets by-value, '
             'ExclusiveBorrow sets mutably-borrowed, never reset inside the loop, no Iterator::all); the rewritten input is built only when '
             'the by-value flag is clear and TypeReference.is_mutable is that mutably-borrowed flag.')
    fn = PX + 'analyses::call_graph::core_graph::take_references_as_inputs_if_they_suffice'
    bodies = ctx.fb.bodies_of_item('pavexc', fn)
    b = ctx.need('C01.R6', 'take_references_as_inputs_if_they_suffice', ctx.fb.body('pavexc', fn))
    if b is None:
        return
    alls = [(x, bb) for x in bodies for bb, t in x.calls() if callee(t) == 'core::iter::traits::iterator::Iterator::all']
    sws = list(enum_switches(b, EDGE))
    setters = {}
    if sws:
        arms = switch_arms(b, sws[0][0])
        for var, blocks in arms.items():
            for bb in blocks:
                for st in b.stmts(bb):
                    if 'lhs' in st and not st['lhs'].get('p') and b.locals[st['lhs']['l']] == 'bool' and st['rv']['k'] == 'use' and 'int' in st['rv']['op']:
                        setters.setdefault(var, []).append((st['lhs']['l'], st['rv']['op']['int']))
    mut_flag = {l for l, v in setters.get('ExclusiveBorrow', []) if v == '1'}
    val_flag = {l for l, v in setters.get('Move', []) if v == '1'}
    resets = [(var, l) for var, xs in setters.items() for l, v in xs if v == '0']
    ok_flags = bool(mut_flag) and bool(val_flag) and not resets and not alls and not (mut_flag & val_flag)
    ctx.ob('C01.R6', 'monotone-or-over-edges', ok_flags, b.loc(sws[0][0]) if sws else b.loc(),
           'ExclusiveBorrow arm sets flag %s, Move arm sets flag %s; resets inside the match: %s; Iterator::all used: %s'
           % (sorted(b.var_name(l) or l for l in mut_flag), sorted(b.var_name(l) or l for l in val_flag), resets or 'none', bool(alls)))
    defs = Defs(b)
    aggs = [(bb, st) for bb, j, st in b.all_assigns() if st['rv']['k'] == 'agg' and strip_generics(st['rv'].get('adt', '')) == 'rustdoc_ir::type_reference::TypeReference']
    if ctx.need('C01.R6', 'TypeReference construction', aggs):
        bb, st = aggs[0]
        i = st['rv']['fields'].index('is_mutable')
        pl = op_place(st['rv']['ops'][i])
        locs = backward_slice(b, pl['l'], defs, through_calls=False)[1] if pl else set()
        from_flag = bool(locs & mut_flag)
        # built only when by-value flag is clear
        guard_ok = False
        for sb in b.live_blocks():
            w = b.term(sb)
            if w and w['k'] == 'switch' and 'enum' not in w and op_place(w['d']) and (backward_slice(b, op_place(w['d'])['l'], defs, through_calls=False)[1] & val_flag) and b.dominates(sb, bb):
                guard_ok = True
        ctx.ob('C01.R6', 'reference-mutability-from-flag', from_flag and guard_ok, b.loc(bb, st),
               'TypeReference.is_mutable is the mutably-borrowed flag: %s; the rewrite is guarded by the by-value flag: %s' % (from_flag, guard_ok))


def r7_mut_binding(ctx):
    ctx.rule('C01.R7', 'P6: in Bindings::get_expr_for_type every block that emits the `mut` keyword of a `&mut <binding>` expression is dominated by the '
             'assignment `binding.mutable = true` (the stage function then declares the parameter `mut`).')
    fn = PX + 'analyses::processing_pipeline::pipeline::Bindings::get_expr_for_type'
    b = ctx.need('C01.R7', 'Bindings::get_expr_for_type', ctx.fb.body('pavexc', fn))
    if b is None:
        return
    muts = [bb for bb, t in b.calls() if is_quote_call(t) and token_of(b, t) == ('ident', 'mut')]
    sets = [bb for bb, j, st in b.all_assigns() if st['lhs'].get('p') and st['lhs']['p'][-1] == 'f:mutable' and st['rv']['k'] == 'use' and st['rv']['op'].get('int') == '1']
    if not ctx.need('C01.R7', 'emission of the `mut` keyword', muts):
        return
    ok = bool(sets) and all(any(b.dominates(s, m) for s in sets) for m in muts)
    ctx.ob('C01.R7', 'mut-binding-marked', ok, b.loc(muts[0]), '`mut` is emitted in blocks %s; binding.mutable = true in blocks %s, dominating: %s' % (muts, sets, ok))


def r8_rendered_crate_names(ctx):
    ctx.rule('C01.R8', 'P9 sibling agreement: the five callable-path renderers of rustdoc_ir (free function, inherent method, trait method, struct '
             'literal, enum variant) each obtain the crate prefix they write into generated code from the id -> name map of the generated '
             'manifest (BiHashMap::get_by_left) and none of them formats its own `crate_name` field, which is the name used for diagnostics: '
             'the two differ whenever a dependency is renamed because two versions of a crate are in use.')
    n = 0
    for b in ctx.fb.bodies('rustdoc_ir'):
        if b.is_promoted or not b.nid.startswith('rustdoc_ir::callable_path::') or not b.nid.endswith('::render_path'):
            continue
        n += 1
        bodies = ctx.fb.bodies_of_item('rustdoc_ir', b.nid)
        lookup = any((callee(t) or '').endswith('BiHashMap::get_by_left') for x in bodies for _, t in x.calls())
        raw = []
        for x in bodies:
            for bb, blk in enumerate(x.blocks):
                for st in blk['st']:
                    if 'rv' not in st:
                        continue
                    ops, pls = rv_operands(st['rv'])
                    for q in pls + [op_place(o) for o in ops if op_place(o) is not None]:
                        if 'f:crate_name' in q.get('p', []):
                            raw.append(x.loc(bb, st))
        ctx.ob('C01.R8', 'crate-prefix|%s' % b.nid.split('::')[-2], lookup and not raw, raw[0] if raw else b.loc(),
               '%s::render_path looks the crate name up in the dependency map: %s; formats its own crate_name field: %s' % (b.nid.split('::')[-2], lookup, bool(raw)))
    ctx.floor('C01.R8', 'callable path renderers', n, 5)


def r9_total_type_walkers(ctx):
    from ..govern import controlling_switches
    ctx.rule('C01.R9', 'P1: the in-place walkers of rustdoc_ir::Type (methods taking `&mut self`, returning nothing and calling themselves on nested '
             'types: set_implicit_lifetimes, rename_lifetime_parameters, ..) reach every nested type: a recursive call may depend only on '
             'the shape of the value (which variant, which generic-argument kind, whether an optional child is present, the loop over '
             'children), never on another property of the node such as the kind of its lifetime. A walker that stops below a node whose '
             'own lifetime it rewrote leaves `\'_` in generated struct fields, which does not compile.')
    STRUCTURAL = ('rustdoc_ir::Type', 'core::option::Option', 'rustdoc_ir::generic_argument::GenericArgument')
    n_fn, n_sites = 0, 0
    for b in ctx.fb.bodies('rustdoc_ir'):
        if b.is_promoted or b.nid != b.nroot or '{impl rustdoc_ir::Type}' not in b.nid:
            continue
        if b.raw['argc'] < 1 or not b.locals[1].startswith('&mut rustdoc_ir::Type') or b.locals[0] != '()':
            continue
        bodies = ctx.fb.bodies_of_item('rustdoc_ir', b.nroot)
        if not any(strip_generics(callee(t) or '') == b.nroot for x in bodies for _, t in x.calls()):
            continue
        n_fn += 1
        defs = Defs(b)
        k_site = 0
        for bb, t in sorted(b.calls(), key=lambda x: x[0]):
            if strip_generics(callee(t) or '') != b.nroot:
                continue
            n_sites += 1
            k_site += 1
            bad = []
            for sb, st in controlling_switches(b, bb):
                if 'enum' in st:
                    if strip_generics(st['enum']) in STRUCTURAL:
                        continue
                    bad.append('match on %s at %s' % (strip_generics(st['enum']).split('::')[-1], b.loc(sb)))
                else:
                    pl = op_place(st['d'])
                    sl, _ = backward_slice(b, pl['l'], defs) if pl is not None else ([], set())
                    cs = {c.split('::')[-1] for c, _, _ in slice_calls(sl)}
                    if cs & {'next', 'is_some', 'is_none', 'is_empty', 'len'} and not (cs - {'next', 'is_some', 'is_none', 'is_empty', 'len', 'iter', 'iter_mut', 'into_iter', 'as_mut', 'as_ref', 'deref', 'deref_mut'}):
                        continue
                    bad.append('test on %s at %s' % (sorted(cs) or 'a field', b.loc(sb)))
            ctx.ob('C01.R9', 'recursion-unconditional|%s|#%d' % (b.nid.split('::')[-1], k_site), not bad, b.loc(bb, t),
                   'the recursive call of %s is governed by shape tests only%s' % (b.nid.split('::')[-1], '' if not bad else ' — NO: it also depends on ' + '; '.join(bad)))
    ctx.floor('C01.R9', 'in-place walkers of Type', n_fn, 2)
    ctx.floor('C01.R9', 'recursive call sites in them', n_sites, 6)


def r10_framework_items_for_every_pipeline(ctx):
    ctx.rule('C01.R10', 'P8 coverage: the generated Router::route binds a framework item (request body, connection info, path parameters, ..) iff '
             'some pipeline it may invoke needs it. In codegen::router::path_router every pipeline-bearing field of the per-path router '
             '(CodegenMethodRouter: the method-specific pipelines and the per-path catch-all) that the function reads at all is also read by '
             'the code that answers `needs_framework_item`: otherwise a nested fallback that alone needs the item is invoked with an '
             'unbound variable (E0425 in generated code).')
    item = PX + 'codegen::router::path_router'
    bodies = ctx.fb.bodies_of_item('pavexc', item)
    if not ctx.need('C01.R10', 'codegen::router::path_router', bodies):
        return
    bearing = {}
    for a in ctx.fb.adts('pavexc'):
        for v in a['variants']:
            for f in v['fields']:
                if 'CodegenedRequestHandlerPipeline' in f['ty']:
                    bearing.setdefault(strip_generics(a['id']), set()).add(f['n'])
    if not ctx.need('C01.R10', 'structs holding CodegenedRequestHandlerPipeline values', bearing):
        return

    def reads(b):
        out = set()
        for bb, blk in enumerate(b.blocks):
            nodes = list(blk['st']) + ([blk['term']] if blk['term'] else [])
            for node in nodes:
                pls = []
                if 'rv' in node:
                    ops, places = rv_operands(node['rv'])
                    pls = places + [op_place(o) for o in ops if op_place(o) is not None]
                elif node.get('k') == 'call':
                    pls = [op_place(o) for o in node['args'] if op_place(o) is not None]
                for q in pls:
                    fo = q.get('fo') or []
                    i = 0
                    for el in q.get('p', []):
                        if el.startswith('f:'):
                            o = strip_generics(fo[i]) if i < len(fo) else ''
                            i += 1
                            if el[2:] in bearing.get(o, ()):
                                out.add((o.split('::')[-1], el[2:]))
        return out
    deciding = set()
    n_dec = 0
    for b in bodies:
        if any((callee(t) or '').endswith('::needs_framework_item') for _, t in b.calls()):
            n_dec += 1
            # the closure itself and the closures nested in it
            for x in bodies:
                if x.id == b.id or x.id.startswith(b.id + '::'):
                    deciding |= reads(x)
    used = set()
    for b in bodies:
        used |= reads(b)
    ctx.floor('C01.R10', 'bodies answering needs_framework_item', n_dec, 1)
    for o, f in sorted(used):
        ctx.ob('C01.R10', 'consulted|%s.%s' % (o, f), (o, f) in deciding, bodies[0].loc(),
               'path_router uses %s.%s; the needs_framework_item decision reads it: %s' % (o, f, (o, f) in deciding))
    ctx.floor('C01.R10', 'pipeline-bearing fields used by path_router', len(used), 2)


def r11_unelide_early_exits(ctx):
    ctx.rule('C01.R11', 'P12 decision audit: Callable::unelide_output_lifetimes is what ties the output of a constructor to the input it borrows from '
             '(the move-while-borrowed pass follows it); it hands the callable back UNCHANGED only for struct / enum-variant initialisers, callables '
             'without an output, and outputs without elided lifetimes. The branches one of whose outcomes reaches a return without passing '
             '`set_implicit_lifetimes` are fed by those reviewed predicates only — a further shortcut (say, "no input is a reference") leaves a by-value '
             'input that carries an elided lifetime (`View<\'_>`) untied, and the generated code moves a value that is still borrowed.')
    from .compiler_common import slice_calls_with_closures
    CAL = 'rustdoc_ir::callable::Callable::'
    b = ctx.need('C01.R11', 'Callable::unelide_output_lifetimes', ctx.fb.body('rustdoc_ir', CAL + 'unelide_output_lifetimes'))
    if b is None:
        return
    REVIEWED = {CAL + 'output', 'rustdoc_ir::type_::{impl rustdoc_ir::Type}::has_implicit_lifetime_parameters', 'rustdoc_ir::Type::has_implicit_lifetime_parameters'}
    sets = [bb for bb, t in b.calls() if (callee(t) or '').endswith('::set_implicit_lifetimes')]
    rets = set(b.return_blocks())
    if not ctx.need('C01.R11', 'set_implicit_lifetimes in unelide_output_lifetimes', sets):
        return
    defs = Defs(b)
    found, n = {}, 0
    for sb in sorted(b.live_blocks()):
        w = b.term(sb)
        if not w or w['k'] != 'switch':
            continue
        succs = list(dict.fromkeys([x[1] for x in w['ts']] + [w['else']]))
        early = [bool(b.reachable([x], avoid=sets) & rets) for x in succs]
        # the loop over the inputs sits between the early exits and the rewrite: only branches from which the rewrite of the OUTPUT can still be
        # reached on another edge decide "unchanged or rewritten"
        if not (any(early) and not all(early)):
            continue
        n += 1
        l = w['src']['l'] if 'src' in w else (op_place(w['d'])['l'] if op_place(w.get('d')) else None)
        if l is None:
            continue
        sl, _ = backward_slice(b, l, defs)
        for c in slice_calls_with_closures(b, sl):
            if c.startswith('rustdoc_ir::') or c.split('::')[-1] in ('any', 'all', 'is_empty', 'contains', 'len', 'eq', 'ne'):
                found.setdefault(c, b.loc(sb))
    new_ = sorted(set(found) - REVIEWED)
    ctx.ob('C01.R11', 'unchanged-only-for-reviewed-reasons', n > 0 and not new_, found[new_[0]] if new_ else b.loc(),
           '%d branch(es) decide whether the callable is returned unchanged; predicates feeding them: %s; not reviewed: %s' % (n, sorted(found), new_ or 'none'))


def _config_styles(ctx, b):
    """For the (inlined) body b: for every call of a rustdoc_ir renderer that takes a `&RenderConfig`, the set of (PathStyle variant,
    LifetimeStyle variant) pairs its configuration can have; None in a slot = could not be determined."""
    from ..inline import inlined
    ib = inlined(ctx.fb, b, crate='rustdoc_ir')
    defs = Defs(ib)
    out = []
    for bb, t in ib.calls():
        if not any('RenderConfig' in (a_ty or '') for a_ty in t.get('aty', [])):
            continue
        for a, aty in zip(t['args'], t.get('aty', [])):
            if 'RenderConfig' not in (aty or ''):
                continue
            pl = op_place(a)
            if pl is None:
                out.append((ib.loc(bb, t), {(None, None)}))
                continue
            sl, _ = backward_slice(ib, pl['l'], defs, through_calls=False)
            pairs = set()
            unknown = False
            for bb2, j2, node in sl:
                rv = node.get('rv')
                if rv and rv['k'] == 'agg' and rv.get('ak') == 'adt' and strip_generics(rv['adt']).endswith('render::RenderConfig'):
                    vs = []
                    for fld in ('path', 'lifetime'):
                        o = rv['ops'][rv['fields'].index(fld)]
                        q = op_place(o)
                        got = set()
                        if q is not None:
                            sl2, _ = backward_slice(ib, q['l'], defs, through_calls=False)
                            for _, _, n2 in sl2:
                                r2 = n2.get('rv')
                                if r2 and r2['k'] == 'agg' and r2.get('ak') == 'adt' and strip_generics(r2['adt']).endswith('Style'):
                                    got.add(r2['var'])
                                elif n2.get('k') == 'call':
                                    got.add(None)
                        vs.append(got or {None})
                    for p in vs[0]:
                        for l in vs[1]:
                            pairs.add((p, l))
                elif node.get('k') == 'call' and 'RenderConfig' in (ib.locals[node['dest']['l']] if not node['dest'].get('p') else ''):
                    unknown = True
            if unknown or not pairs:
                pairs.add((None, None))
            out.append((ib.loc(bb, t), pairs))
    return out


def r12_codegen_renderers_erase_lifetimes(ctx):
    ctx.rule('C01.R12', 'P9 sibling agreement: the five callable-path renderers that write into GENERATED code (`render_path`, the form that takes '
             'the id -> name map) render every nested type and generic argument with the configuration (PathStyle::CrateLookup, '
             'LifetimeStyle::Erase), however that configuration is built (literal, or a constructor of RenderConfig, which is followed). The '
             'call they emit sits in a function that declares no lifetime parameters: a sibling that preserves named lifetimes writes '
             '`<app::Session<\'a> as Clone>::clone(&v)` — E0261 in the SDK — for a cloned type that is spelled with a named lifetime.')
    n = 0
    for b in ctx.fb.bodies('rustdoc_ir'):
        if b.is_promoted or not b.nid.startswith('rustdoc_ir::callable_path::') or not b.nid.endswith('::render_path'):
            continue
        sites = _config_styles(ctx, b)
        for loc, pairs in sites:
            n += 1
        bad = [(loc, sorted(pairs, key=str)) for loc, pairs in sites if pairs != {('CrateLookup', 'Erase')}]
        ctx.ob('C01.R12', 'erase-in-generated-code|%s' % b.nid.split('::')[-2], bool(sites) and not bad, bad[0][0] if bad else b.loc(),
               '%s::render_path: %d nested render call(s), all with (CrateLookup, Erase): %s%s' % (
                   b.nid.split('::')[-2], len(sites), not bad, '' if not bad else ' — NO: %s' % bad[0][1]))
    ctx.floor('C01.R12', 'nested render calls in the callable path renderers', n, 5)


CANON_OPEN = ('rustdoc_ir::type_::CanonicalType::inner', 'rustdoc_ir::type_::CanonicalType::into_inner')
IDENTITY_CALLS = ('as_ref', 'deref', 'borrow', 'clone', 'as_mut', 'deref_mut', 'to_owned', 'unwrap', 'expect', 'as_deref', 'into_inner', 'inner')
CMP_SINKS = ('eq', 'ne', 'hash', 'cmp', 'partial_cmp', 'get', 'get_mut', 'contains_key', 'contains', 'insert', 'entry', 'remove', 'get_by_left',
             'get_index_of', 'swap_remove', 'shift_remove')


def canonical_fragment_flows(b):
    """-> (n_open, whole_sinks, fragment_sinks): the calls of CanonicalType::inner / into_inner in body b, and the comparison / hashing /
    map-key sinks reached by the whole opened value and by a FRAGMENT of it (a value obtained through a field or variant projection)."""
    whole, frag = set(), set()
    n_open = 0
    for bb, t in b.calls():
        c = strip_generics(callee(t) or '')
        if c in CANON_OPEN and not t['dest'].get('p'):
            whole.add(t['dest']['l'])
            n_open += 1
    # the tuple field of a CanonicalType value read directly (inside rustdoc_ir)
    for bb, j, st in b.all_assigns():
        rv = st['rv']
        pl = rv.get('pl') or (op_place(rv['op']) if rv['k'] == 'use' else None)
        if pl is not None and not st['lhs'].get('p') and 'CanonicalType' in b.locals[pl['l']] and 'f:0' in pl.get('p', []) and 'Type' in b.locals[st['lhs']['l']]:
            whole.add(st['lhs']['l'])
            n_open += 1
    if not whole:
        return 0, [], []
    changed = True
    while changed:
        changed = False
        for bb, blk in enumerate(b.blocks):
            for st in blk['st']:
                lhs = st.get('lhs')
                if lhs is None or lhs.get('p'):
                    continue
                rv = st['rv']
                if rv['k'] not in ('use', 'ref', 'cfd', 'cast', 'rawptr'):
                    continue
                pl = rv.get('pl') or op_place(rv.get('op'))
                if pl is None:
                    continue
                proj = [e for e in pl.get('p', []) if e != '*']
                l = lhs['l']
                if pl['l'] in frag or (pl['l'] in whole and proj):
                    if l not in frag:
                        frag.add(l); changed = True
                elif pl['l'] in whole and l not in whole and l not in frag:
                    whole.add(l); changed = True
            t = blk['term']
            if t and t['k'] == 'call' and not t['dest'].get('p') and t['args']:
                name = (callee(t) or '').split('::')[-1].split('<')[0]
                if name in IDENTITY_CALLS:
                    a0 = op_place(t['args'][0])
                    d = t['dest']['l']
                    if a0 is not None:
                        if a0['l'] in frag and d not in frag:
                            frag.add(d); changed = True
                        elif a0['l'] in whole and d not in whole and d not in frag:
                            whole.add(d); changed = True
    ws, fs = [], []
    for bb, t in b.calls():
        name = (callee(t) or '').split('::')[-1].split('<')[0]
        if name not in CMP_SINKS:
            continue
        for a in t['args']:
            pl = op_place(a)
            if pl is None:
                continue
            if pl['l'] in frag:
                fs.append((bb, t)); break
            if pl['l'] in whole:
                ws.append((bb, t)); break
    return n_open, ws, fs


def r13_canonical_forms_compared_whole(ctx):
    ctx.rule('C01.R13', 'P7 provenance: the names in a canonical form are POSITIONAL (`&\'a RawPathParams<\'b, \'c>`), so a part of a canonical form is '
             'not the canonical form of that part. Wherever a CanonicalType is opened (`inner()` / `into_inner()` / its field), the opened value '
             'may be displayed, cloned, re-canonicalized or compared WHOLE, but no value reached from it through a field or variant projection '
             'is compared, hashed or used as a map key. (`needs_input_type` peels the reference off the raw parameter and canonicalizes what is '
             'inside; peeling the canonical form instead makes `&RawPathParams<\'_, \'_>` differ from the framework item, the router then omits '
             '`let url_params = ..` and the generated entrypoint call does not compile.)')
    n_open, n_whole = 0, 0
    for crate in ('pavexc', 'rustdoc_ir', 'rustdoc_resolver', 'rustdoc_processor'):
        try:
            bodies = ctx.fb.bodies(crate)
        except KeyError:
            continue
        for b in bodies:
            if b.is_promoted:
                continue
            k, ws, fs = canonical_fragment_flows(b)
            n_open += k
            n_whole += len(ws)
            for bb, t in fs:
                ctx.ob('C01.R13', 'fragment-of-canonical-form-compared|%s|%s' % (short(b.nroot), (callee(t) or '').split('::')[-1].split('<')[0]), False, b.loc(bb, t),
                       'a value taken out of an opened CanonicalType through a projection reaches %s' % strip_generics(callee(t) or ''))
    ctx.ob('C01.R13', 'canonical-forms-compared-whole', True, '', '%d sites open a CanonicalType; %d comparison / key sinks take the whole opened value; none takes a fragment' % (n_open, n_whole), nontrivial=False)
    ctx.floor('C01.R13', 'sites that open a CanonicalType', n_open, 3)
    ctx.floor('C01.R13', 'positive control: key sinks reached by a whole opened value (verify_singleton_ambiguity)', n_whole, 1)


def r14_alias_never_replaces_a_real_binding(ctx):
    ctx.rule('C01.R14', 'P7/P3 write discipline of a map with two kinds of entry: `codegen_call_block` binds every input type of the call to the variable '
             'that holds it, keyed by canonical type, and for a `&mut T` dependency ALSO files the variable under `&T` (deref coercion). The exact '
             'entries are authoritative, the alias is a fallback: the write whose key is rebuilt as a shared `TypeReference { is_mutable: false, .. }` '
             'never replaces an entry (`entry(..).or_insert*`), and the write keyed by the dependency\'s own type always does (`insert`). With both '
             '`insert`, a component that takes `&mut T` and a `&T` provided by another constructor is called as `handler(&mut v1, &mut v1)` '
             'whenever the `T` node is ordered after the `&T` node (E0499 in the SDK); with both `or_insert`, whenever it is ordered before.')
    b = ctx.fb.body('pavexc', PX + 'codegen_utils::codegen_call_block')
    if not ctx.need('C01.R14', 'pavexc::compiler::codegen_utils::codegen_call_block', b):
        return
    defs = Defs(b)
    writes = []   # (bb, term, kind in insert/entry, alias?)
    for bb, t in b.calls():
        c = callee(t) or ''
        m = c.split('::')[-1]
        if m not in ('insert', 'entry') or not t.get('aty') or not re.search(r'HashMap<rustdoc_ir::[a-z_:]*CanonicalType', t['aty'][0]):
            continue
        # the key is `<a type>.canonicalize()`: it is the alias iff that type is built right there as `Type::Reference(TypeReference { is_mutable: false, .. })`
        # (followed through single definitions only: the dependency's own type is a variable with several)
        alias = False
        cur = op_place(t['args'][1])
        for _ in range(12):
            if cur is None:
                break
            ds = defs.full.get(cur['l'], [])
            if len(ds) != 1:
                break
            nd = ds[0][2]
            if nd.get('k') == 'call':
                cur = op_place(nd['args'][0]) if nd['args'] else None
                continue
            rv = nd.get('rv')
            if not rv:
                break
            if rv['k'] == 'agg' and rv.get('ak') == 'adt':
                if strip_generics(rv['adt']).endswith('type_reference::TypeReference') and 'is_mutable' in rv.get('fields', []):
                    alias = rv['ops'][rv['fields'].index('is_mutable')].get('int') == '0'
                    break
                cur = op_place(rv['ops'][0]) if rv['ops'] else None
                continue
            cur = rv.get('pl') or (op_place(rv['op']) if rv['k'] in ('use', 'cast') else None)
        if m == 'entry':
            # what is done with the entry
            der = forward_derived(b, {t['dest']['l']}, defs, through_calls=False)
            uses = {(callee(t2) or '').split('::')[-1].split('<')[0] for _, t2 in b.calls() if t2 is not t and any(op_place(a) is not None and op_place(a)['l'] in der for a in t2['args'])}
            kind = 'keeps' if uses and uses <= {'or_insert', 'or_insert_with', 'or_insert_with_key', 'or_default'} else 'entry:%s' % sorted(uses)
        else:
            kind = 'replaces'
        writes.append((bb, t, kind, alias))
    al = [w for w in writes if w[3]]
    ex = [w for w in writes if not w[3]]
    if not ctx.need('C01.R14', 'write of the `&T` alias in codegen_call_block', al) or not ctx.need('C01.R14', 'write of the exact binding in codegen_call_block', ex):
        return
    bad_a = [w for w in al if w[2] != 'keeps']
    bad_e = [w for w in ex if w[2] != 'replaces']
    ctx.ob('C01.R14', 'alias-keeps-an-existing-binding', not bad_a, b.loc(*(bad_a[0][:2] if bad_a else al[0][:2])),
           'the `&T` alias of a `&mut T` dependency is written with %s' % sorted({w[2] for w in al}))
    ctx.ob('C01.R14', 'exact-binding-replaces-an-alias', not bad_e, b.loc(*(bad_e[0][:2] if bad_e else ex[0][:2])),
           'the binding keyed by the dependency\'s own type is written with %s' % sorted({w[2] for w in ex}))


def r16_every_bound_value_can_be_borrowed_mutably(ctx):
    ctx.rule('C01.R16', 'P9 sibling agreement on the `let` templates of the call-graph code generator (`quote!` read from MIR): a value bound by '
             '`_codegen_callable_closure_body` may be the target of an ExclusiveBorrow edge, and the consumer then renders `&mut <var>`. Every `let <var> = ..` template '
             'of that function therefore interpolates the maybe-`mut` token (`Option<TokenStream>`) between `let` and the variable, as the template for computed '
             'values does; the template that binds the `Ok` value of a fallible constructor (`let <ok> = match <result> { .. }`) must not be the exception, or '
             '`fn handler(a: &mut A)` with a fallible request-scoped `A` is accepted and the generated code fails with E0596.')
    bodies = [b for b in ctx.fb.bodies('pavexc') if not b.is_promoted and b.nroot.endswith('call_graph::codegen::_codegen_callable_closure_body')]
    if not ctx.need('C01.R16', '_codegen_callable_closure_body', bodies):
        return
    n = 0
    for b in bodies:
        for ch in chains(b):
            toks = [tok for _, tok in ch]
            for i, tok in enumerate(toks):
                if tok != ('ident', 'let') or i + 2 >= len(toks):
                    continue
                nxt = toks[i + 1]
                if nxt[0] != 'interp':
                    continue
                n += 1
                has_mut = 'Option<proc_macro2::TokenStream>' in nxt[2] or (nxt[0] == 'ident' and nxt[1] == 'mut')
                kind = 'match' if ('ident', 'match') in toks[i:i + 6] else 'value'
                ctx.ob('C01.R16', 'let-template-allows-mut|%s' % kind, has_mut, b.loc(ch[i][0]),
                       'the `let` template (%s) %s the maybe-`mut` token before the variable' % (kind, 'interpolates' if has_mut else 'does NOT interpolate'))
    ctx.floor('C01.R16', '`let` templates in _codegen_callable_closure_body', n, 2)


def r17_impl_matching_looks_at_generic_arguments(ctx):
    ctx.rule('C01.R17', 'P8 field coverage in the trait solver: `traits::implements_trait` answers "is `T: Copy` / `T: Clone`" by looking for an impl whose self type '
             '`is_equivalent` to `T`. For a path type that comparison has to take the generic arguments into account (`impl<T: Copy> Copy for Option<T>` does '
             'not make `Option<String>` Copy): the function reads `PathType::generic_arguments`, not the base path only. If it does not, a non-Copy value '
             'consumed by value twice is taken to be Copy - no clone, no diagnostic - and the generated code moves it twice (E0382).')
    item = PX + 'traits::is_equivalent'
    bodies = [b for b in ctx.fb.bodies_of_item('pavexc', item) if not b.is_promoted]
    if not ctx.need('C01.R17', 'traits::is_equivalent', bodies):
        return
    base = args = False
    for b in bodies:
        for bb, blk in enumerate(b.blocks):
            nodes = [st['rv'] for st in blk['st'] if 'rv' in st]
            places = []
            for rv in nodes:
                ops, pls = rv_operands(rv)
                places += pls + [op_place(o) for o in ops if op_place(o) is not None]
            t = blk.get('term')
            if t and t.get('k') in ('call', 'tailcall'):
                places += [op_place(a) for a in t['args'] if op_place(a) is not None]
            for q in places:
                pp = q.get('p', [])
                base = base or 'f:base_type' in pp
                args = args or 'f:generic_arguments' in pp
    ctx.ob('C01.R17', 'positive-control|base_type-is-read', base, bodies[0].loc(), 'is_equivalent reads PathType.base_type: %s' % base, nontrivial=False)
    ctx.ob('C01.R17', 'impl-matching-reads-generic-arguments|traits::is_equivalent', args, bodies[0].loc(),
           'is_equivalent %s PathType.generic_arguments' % ('reads' if args else 'never reads'))


def check(ctx):
    r17_impl_matching_looks_at_generic_arguments(ctx)
    r16_every_bound_value_can_be_borrowed_mutably(ctx)
    from .persist_common import writer_replaces_the_whole_file
    writer_replaces_the_whole_file(ctx, 'C01.R15', 'shared with C10.R10: ')
    r1_typestate(ctx)
    r2_pipeline(ctx)
    r5_ownership_table(ctx)
    r6_reference_inputs(ctx)
    r7_mut_binding(ctx)
    r8_rendered_crate_names(ctx)
    r9_total_type_walkers(ctx)
    r10_framework_items_for_every_pipeline(ctx)
    r11_unelide_early_exits(ctx)
    r12_codegen_renderers_erase_lifetimes(ctx)
    r13_canonical_forms_compared_whole(ctx)
    r14_alias_never_replaces_a_real_binding(ctx)


CLAUSE += ' Also: every write of a generated file goes to a handle that replaces the file (no tail of a previous, longer generation survives).'
CLAUSE += ' Also: every let template of the call-graph code generator can declare its variable mut; impl matching in the trait solver reads the generic arguments (known finding).'
