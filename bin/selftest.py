#!/usr/bin/env python3
"""selftest.py [Cxx ...]: checker self-test over the seeded defects kept under /verif/seeded.
For every seeded/<name>/ (patch.diff + meta.json with check_result.caught == true) of the selected properties:
  make a scratch copy of /repo's tracked files (git archive HEAD + working-tree diff), apply the patch there, run the property's
  check against the scratch copy (PVX_REPO, separate evidence dir) and require that it reports a violation.
Never touches /repo. Prints one line per seed; exit 0 iff every expected detection happened."""
import json, os, shutil, subprocess, sys, tempfile
VERIF = os.path.dirname(os.path.dirname(os.path.abspath(__file__)))
props = [a.upper() for a in sys.argv[1:] if not a.startswith('-')]   # --only=<substring of the seed/refactor name> narrows further
UPDATE = '--update' in sys.argv   # write the observed result back into each seed's meta.json (after strengthening rules)
seeds = []
for name in sorted(os.listdir(os.path.join(VERIF, 'seeded'))):
    d = os.path.join(VERIF, 'seeded', name)
    mp = os.path.join(d, 'meta.json')
    if not (os.path.exists(mp) and os.path.exists(os.path.join(d, 'patch.diff'))):
        continue
    m = json.load(open(mp))
    if props and m.get('property') not in props:
        continue
    seeds.append((name, d, m))
JOBS = 4
for a in sys.argv[1:]:
    if a.startswith('-j'):
        JOBS = max(1, int(a[2:] or 4))
# behaviour-preserving refactors (refactors/<name>/): every check must stay SILENT on them
ALL = ['C%02d' % i for i in range(1, 21)]
if not props or '--refactors' in sys.argv:
    for name in sorted(os.listdir(os.path.join(VERIF, 'refactors'))) if os.path.isdir(os.path.join(VERIF, 'refactors')) else []:
        d = os.path.join(VERIF, 'refactors', name)
        mp = os.path.join(d, 'meta.json')
        if os.path.exists(mp) and os.path.exists(os.path.join(d, 'patch.diff')):
            m = json.load(open(mp))
            m['kind'] = 'refactor'
            seeds.append((name, d, m))
ONLY = [a.split('=', 1)[1] for a in sys.argv[1:] if a.startswith('--only=')]
if ONLY:
    seeds = [x for x in seeds if any(o in x[0] for o in ONLY)]
base = tempfile.mkdtemp(prefix='pvx-selftest-', dir=os.environ.get('PVX_SCRATCH', '/var/tmp'))
ok = True
results = []
import re, threading, queue
lock = threading.Lock()


def prepare(scratch):
    os.makedirs(scratch)
    subprocess.run('git -C /repo archive HEAD | tar -x -C %s' % scratch, shell=True, check=True)
    # carry over uncommitted edits of /repo's working tree, if any
    diff = subprocess.run('git -C /repo diff HEAD', shell=True, stdout=subprocess.PIPE, text=True).stdout
    if diff.strip():
        subprocess.run(['git', 'apply', '--unsafe-paths', '--directory', scratch], input=diff, text=True, cwd='/')
    subprocess.run('git init -q && git add -A && git -c user.email=x@x -c user.name=x commit -qm base', shell=True, cwd=scratch, check=True)


def worker(i, q):
    global ok
    scratch = os.path.join(base, 'repo-%d' % i)
    prepare(scratch)
    env = dict(os.environ, PVX_REPO=scratch, PVX_EVIDENCE_DIR=os.path.join(base, 'evidence-%d' % i), PVX_TARGET=os.path.join(base, 'target-%d' % i))
    while True:
        try:
            name, d, m = q.get_nowait()
        except queue.Empty:
            return
        expected = bool(m.get('check_result', {}).get('caught'))
        r = subprocess.run(['git', 'apply', os.path.join(d, 'patch.diff')], cwd=scratch, stdout=subprocess.PIPE, stderr=subprocess.STDOUT, text=True)
        if r.returncode != 0:
            r = subprocess.run(['git', 'apply', '-3', os.path.join(d, 'patch.diff')], cwd=scratch, stdout=subprocess.PIPE, stderr=subprocess.STDOUT, text=True)
        if r.returncode != 0:
            with lock:
                results.append((name, 'patch-does-not-apply', expected))
                print('%-28s %-8s expected=%s' % (name, 'NO-APPLY', 'caught' if expected else 'missed'), flush=True)
            subprocess.run('git reset -q; git checkout -q -- .; git clean -fdq', shell=True, cwd=scratch)
            continue
        if m.get('kind') == 'refactor':
            alarms = {}
            for pr in ALL:
                c = subprocess.run([os.path.join(VERIF, 'check'), pr, '--tier', 'quick'], env=env, stdout=subprocess.PIPE, stderr=subprocess.STDOUT, text=True)
                if c.returncode != 0 and 'VIOLATION property=' not in c.stdout:
                    # not a verdict (an infrastructure hiccup under parallel load): once more
                    c = subprocess.run([os.path.join(VERIF, 'check'), pr, '--tier', 'quick'], env=env, stdout=subprocess.PIPE, stderr=subprocess.STDOUT, text=True)
                if 'VIOLATION property=' in c.stdout or c.returncode != 0:
                    alarms[pr] = sorted(set('%s %s' % x for x in re.findall(r'^\s+(C\d+\.R\w+) (\S+)', c.stdout, re.M))) or ['exit %d' % c.returncode]
            with lock:
                silent = not alarms
                if UPDATE:
                    mm = json.load(open(os.path.join(d, 'meta.json')))
                    mm.setdefault('check_result', {}).update({'applies': True, 'silent': silent, 'alarms': alarms})
                    mm['check_result'].setdefault('at_import', {'applies': True, 'silent': silent, 'alarms': alarms})
                    json.dump(mm, open(os.path.join(d, 'meta.json'), 'w'), indent=1)
                results.append((name, 'silent' if silent else 'FALSE-ALARM', True))
                print('%-28s %-11s expected=silent %s' % (name, 'silent' if silent else 'FALSE-ALARM', str(alarms)[:160] if alarms else ''), flush=True)
                if not silent:
                    ok = False
            subprocess.run('git reset -q; git checkout -q -- .; git clean -fdq', shell=True, cwd=scratch)
            continue
        c = subprocess.run([os.path.join(VERIF, 'check'), m['property'], '--tier', 'quick'], env=env, stdout=subprocess.PIPE, stderr=subprocess.STDOUT, text=True)
        if 'VIOLATION property=' not in c.stdout and ('[pvx] %s quick:' % m['property']) not in c.stdout:
            # not a verdict (an infrastructure hiccup under parallel load): say what happened, then once more
            with lock:
                print('%-28s no verdict (exit %d): %s -- retrying' % (name, c.returncode, c.stdout.strip()[-300:].replace('\n', ' | ')), flush=True)
            c = subprocess.run([os.path.join(VERIF, 'check'), m['property'], '--tier', 'quick'], env=env, stdout=subprocess.PIPE, stderr=subprocess.STDOUT, text=True)
        fired = [l.strip() for l in c.stdout.splitlines() if l.startswith('  C')]
        caught = 'VIOLATION property=' in c.stdout
        with lock:
            if UPDATE:
                rules = sorted(set('%s %s' % x for x in re.findall(r'^\s+(C\d+\.R\w+) (\S+)', c.stdout, re.M)))
                m.setdefault('check_result', {})
                if m['check_result'].get('caught') != caught or (caught and m['check_result'].get('rules_fired') != rules):
                    if m['check_result'].get('caught') is False and caught:
                        m['check_result']['missed_at_import'] = True
                    m['check_result']['caught'] = caught
                    m['check_result']['rules_fired'] = rules
                    json.dump(m, open(os.path.join(d, 'meta.json'), 'w'), indent=1)
                expected = caught
            results.append((name, 'caught' if caught else 'missed', expected))
            print('%-28s %-8s expected=%s %s' % (name, 'caught' if caught else 'MISSED', 'caught' if expected else 'missed', (fired[0][:120] if fired else '')), flush=True)
            if expected and not caught:
                ok = False
        subprocess.run('git reset -q; git checkout -q -- .; git clean -fdq', shell=True, cwd=scratch)


try:
    q = queue.Queue()
    for x in seeds:
        q.put(x)
    ths = [threading.Thread(target=worker, args=(i, q)) for i in range(min(JOBS, max(1, len(seeds))))]
    for t in ths:
        t.start()
    for t in ths:
        t.join()
finally:
    shutil.rmtree(base, ignore_errors=True)
results.sort()
json.dump([{'seed': n, 'result': r, 'expected_caught': e} for n, r, e in results], open(os.path.join(VERIF, '.cache', 'selftest-last.json'), 'w'), indent=1)
print('selftest: %d seeds, %d caught, %d expected-caught missed; %d refactors, %d silent' % (sum(1 for _, r, _ in results if r in ('caught', 'missed', 'patch-does-not-apply')), sum(1 for _, r, _ in results if r == 'caught'), sum(1 for _, r, e in results if e and r in ('missed', 'patch-does-not-apply')), sum(1 for _, r, _ in results if r in ('silent', 'FALSE-ALARM')), sum(1 for _, r, _ in results if r == 'silent')))
sys.exit(0 if ok else 1)
