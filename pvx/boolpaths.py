"""P10: path-sensitive boolean abstraction over a handful of named booleans (results of named calls).

State space: (block, partial assignment of the named booleans) — finite, explored exhaustively (loops included)."""
from .facts import callee, op_place


def symbolic_bools(body, named_calls):
    """named_calls: {name: predicate(call terminator)}.
    Returns (sym, eval_blocks): sym maps local -> (name, polarity) for locals that hold a named boolean or its negation
    (through copies / moves / `Not`); eval_blocks maps name -> blocks whose terminator evaluates it."""
    sym = {}
    eval_blocks = {}
    for bb, t in body.calls():
        for name, pred in named_calls.items():
            if pred(t) and not t['dest'].get('p'):
                sym[t['dest']['l']] = (name, True)
                eval_blocks.setdefault(name, []).append(bb)
    changed = True
    while changed:
        changed = False
        for bb, j, st in body.all_assigns():
            lhs = st['lhs']
            if lhs.get('p') or lhs['l'] in sym:
                continue
            rv = st['rv']
            if rv['k'] == 'use':
                pl = op_place(rv['op'])
                if pl is not None and not pl.get('p') and pl['l'] in sym:
                    sym[lhs['l']] = sym[pl['l']]
                    changed = True
            elif rv['k'] == 'un' and rv['uop'] == 'Not':
                pl = op_place(rv['op'])
                if pl is not None and not pl.get('p') and pl['l'] in sym:
                    n, pol = sym[pl['l']]
                    sym[lhs['l']] = (n, not pol)
                    changed = True
    return sym, eval_blocks


def states_at(body, sink_blocks, named_calls):
    """All abstract states (dict name -> True/False, absent = unknown) with which some CFG path from the entry can
    arrive at one of `sink_blocks`. Branches on a named boolean refine the state; re-evaluating a named call forgets it."""
    sym, eval_blocks = symbolic_bools(body, named_calls)
    evals = {}
    for n, bbs in eval_blocks.items():
        for b in bbs:
            evals.setdefault(b, []).append(n)
    start = (0, frozenset())
    seen = {start}
    work = [start]
    out = {b: set() for b in sink_blocks}
    while work:
        bb, st = work.pop()
        if bb in out:
            out[bb].add(st)
        t = body.term(bb)
        if not t:
            continue
        d = dict(st)
        nexts = []
        if t['k'] == 'switch' and 'enum' not in t:
            pl = op_place(t['d'])
            s = sym.get(pl['l']) if pl is not None and not pl.get('p') else None
            if s is not None:
                name, pol = s
                for val, tgt in t['ts']:
                    if val == '0':
                        nexts.append((tgt, name, not pol))   # local is false => named bool is `not pol`
                    else:
                        nexts.append((tgt, name, pol))
                nexts.append((t['else'], name, pol))          # non-zero => local true
            else:
                nexts = [(s_, None, None) for s_ in body.succ(bb)]
        else:
            nexts = [(s_, None, None) for s_ in body.succ(bb)]
        for tgt, name, val in nexts:
            d2 = dict(d)
            # evaluating a named call (in the *current* block's terminator) forgets the previous knowledge
            for n in evals.get(bb, []):
                d2.pop(n, None)
            if name is not None:
                if name in d2 and d2[name] != val:
                    continue  # infeasible
                d2[name] = val
            ns = (tgt, frozenset(d2.items()))
            if ns not in seen:
                seen.add(ns)
                work.append(ns)
    return {b: [dict(s) for s in sts] for b, sts in out.items()}, sym, eval_blocks
