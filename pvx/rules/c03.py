"""C03 — Constructor lifecycles are honoured at run time.

Decided clauses: the two lifecycle -> allowed-invocations tables; one de-duplicator per call graph (created outside the
fixpoint loop) used for at-most-once nodes and never for transients; the per-pipeline invariant check looks at every
call graph; the set of already-built request-scoped values is threaded to every graph (re)construction.
Run-time construction counts are not decided.
"""
from ..facts import callee, op_place, strip_generics
from ..flow import Defs, backward_slice, slice_calls, forward_derived
from ..govern import field_reads_of_slice
from ..tables import enum_switches, variant_table, guard_context
from .compiler_common import PX

LEVEL = 'other'
TECHNIQUE = 'static analysis: enum-table extraction (lifecycle tables), who-may-call + loop membership, guard contexts, provenance of derived lifecycles, decision audit (bind-or-inline), dominance of per-node membership tests, monotone-set who-may-mutate audit'
CLAUSE = ('request graphs map Singleton->input, RequestScoped->One, Transient->Multiple and the application-state graph maps Singleton->One, '
          'Transient->Multiple; in build_call_graph the NodeDeduplicator is created once, outside every loop, nodes that may run once go '
          'through it and transient nodes never do; RequestHandlerPipeline::enforce_invariants counts constructor nodes over all stored call '
          'graphs without merging duplicates; every (re)construction of a middleware call graph receives the caller\'s set of prebuilt '
          'request-scoped ids — only the exploratory first pass and the application-state graphs use a fresh empty set. The per-node guard sets of build_call_graph are created outside every loop and never emptied.')
TRUSTED = ['a Compute node appears once in the generated closure per node of the call graph (code generation, C01)']

A = PX + 'analyses::'
CG = A + 'call_graph::'
LIFE = 'pavexc::compiler::component::constructor::Lifecycle'
NAI = CG + 'core_graph::NumberOfAllowedInvocations'


def r1_tables(ctx):
    ctx.rule('C03.R1', 'P5: the lifecycle -> NumberOfAllowedInvocations tables handed to build_call_graph equal the documented ones.')
    want = {
        CG + 'request_scoped::_request_scoped_call_graph::lifecycle2invocations': {'Singleton': 'None', 'RequestScoped': 'One', 'Transient': 'Multiple'},
        CG + 'application_state::application_state_call_graph::lifecycle2invocations': {'Singleton': 'One', 'Transient': 'Multiple', 'RequestScoped': 'unreachable'},
    }
    for fn, table in want.items():
        b = ctx.need('C03.R1', fn.replace(CG, ''), ctx.fb.body('pavexc', fn))
        if b is None:
            continue
        sws = [x for x in enum_switches(b) if strip_generics(x[1]['enum']).endswith('Lifecycle')]
        if not ctx.need('C03.R1', 'match on Lifecycle in ' + fn.split('::')[-2], sws):
            continue
        vt = variant_table(b, sws[0][0])
        for var, exp in table.items():
            f = vt.get(var, {})
            nai = [v for a, v, _, _ in f.get('aggs', []) if a.endswith('NumberOfAllowedInvocations')]
            opt = [v for a, v, _, _ in f.get('aggs', []) if a == 'core::option::Option']
            got = nai[0] if nai else ('None' if 'None' in opt else ('unreachable' if f.get('unreachable') or any((c or '').startswith('core::panicking') for c, _, _ in f.get('calls', [])) else '?'))
            ctx.ob('C03.R1', 'table|%s|%s' % (fn.split('::')[-2], var), got == exp, b.loc(sws[0][0]), '%s: %s -> %s (documented: %s)' % (fn.split('::')[-2], var, got, exp))
    # no other table reaches build_call_graph
    n = 0
    for b in ctx.fb.bodies('pavexc'):
        if b.is_promoted:
            continue
        for bb, t in b.calls():
            if callee(t) == CG + 'core_graph::build_call_graph':
                n += 1
                fns = [a.get('fn') for a in t['args'] if 'fn' in a] + [g for g in t.get('ga', []) if 'lifecycle2invocations' in g]
                ok = any(strip_generics(x).replace('fn(', '') in want or any(w in x for w in want) for x in fns)
                ctx.ob('C03.R1', 'table-source|%s' % b.nroot.replace(CG, ''), ok, b.loc(bb, t), 'build_call_graph is given the table %s' % [x[-70:] for x in fns])
    ctx.floor('C03.R1', 'build_call_graph call sites', n, 3)


def r2_dedup(ctx):
    ctx.rule('C03.R2', 'P3/P5: in build_call_graph NodeDeduplicator::new() is called exactly once, in a block that is not part of any cycle (one '
             'de-duplicator per graph, shared by every pass of the fixpoint); in the node-adding closure the de-duplicating path is taken '
             'only for nodes that may run once (NumberOfAllowedInvocations::One / input parameters) and the raw add_node only for Multiple.')
    bodies = ctx.fb.bodies_of_item('pavexc', CG + 'core_graph::build_call_graph')
    if not ctx.need('C03.R2', 'build_call_graph', bodies):
        return
    news = [(b, bb) for b in bodies for bb, t in b.calls() if callee(t) == CG + 'core_graph::NodeDeduplicator::new']
    ok = len(news) == 1 and news[0][1] not in news[0][0].reachable(news[0][0].succ(news[0][1]))
    ctx.ob('C03.R2', 'one-deduplicator-per-graph', ok, news[0][0].loc(news[0][1]) if news else bodies[0].loc(),
           'NodeDeduplicator::new() call sites: %d; inside a loop: %s' % (len(news), [bb in b.reachable(b.succ(bb)) for b, bb in news]))
    n = 0
    from .compiler_common import family_bodies
    for b in family_bodies(ctx, 'pavexc', [CG + 'core_graph::build_call_graph']):
        if b.is_promoted:
            continue
        dd = [bb for bb, t in b.calls() if callee(t) == CG + 'core_graph::NodeDeduplicator::add_node_at_most_once']
        raw = [bb for bb, t in b.calls() if (callee(t) or '').endswith('StableGraph::add_node') and bb not in dd]
        if not dd or not raw:
            continue
        n += 1
        for bb in dd:
            g = guard_context(b, bb).get(NAI)
            ctx.ob('C03.R2', 'dedup-only-for-once-nodes', g is None or g == {'One'}, b.loc(bb),
                   'add_node_at_most_once is reached under NumberOfAllowedInvocations %s' % (sorted(g) if g else '(input parameter arm)'))
        for bb in raw:
            g = guard_context(b, bb).get(NAI)
            ctx.ob('C03.R2', 'raw-add-only-for-transients', g == {'Multiple'}, b.loc(bb), 'graph.add_node(..) is reached under NumberOfAllowedInvocations %s' % (sorted(g) if g else None))
    ctx.floor('C03.R2', 'node-adding closures with both paths', n, 1)
    # a node that may run several times gets a node of its own EVERY time it is asked for: every path through the Multiple arm adds one
    from ..inline import inlined
    from ..tables import enum_switches, switch_edges
    m = 0
    for b0 in family_bodies(ctx, 'pavexc', [CG + 'core_graph::build_call_graph']):
        if b0.is_promoted or not any(callee(t) == CG + 'core_graph::NodeDeduplicator::add_node_at_most_once' for _, t in b0.calls()):
            continue
        b = inlined(ctx.fb, b0, keep={CG + 'core_graph::NodeDeduplicator::add_node_at_most_once'})
        raw = [bb for bb, t in b.calls() if (callee(t) or '').endswith('StableGraph::add_node')]
        rets = set(b.return_blocks())
        for sbb, t in enum_switches(b):
            if strip_generics(t['enum']) != NAI:
                continue
            tg = switch_edges(t).get('Multiple')
            if tg is None:
                continue
            m += 1
            escapes = sorted(b.reachable(tg, avoid=raw) & rets)
            ctx.ob('C03.R2', 'transient-node-is-always-fresh', not escapes, b.loc(sbb),
                   'every path through the NumberOfAllowedInvocations::Multiple arm of the node-adding closure calls graph.add_node itself%s' % (
                       '' if not escapes else ': a path returns a node index without adding a node (a node looked up or remembered somewhere is shared between injection sites)'))
    ctx.floor('C03.R2', 'Multiple arms of the node-adding closure', m, 1)


def r3_invariants(ctx):
    ctx.rule('C03.R3', 'P1/P7: RequestHandlerPipeline::new reaches Ok only through enforce_invariants; enforce_invariants iterates the values of the '
             'whole id2call_graph map (all middleware, pre/post-processing and handler graphs) and counts nodes without de-duplicating them.')
    PIPE = A + 'processing_pipeline::pipeline::RequestHandlerPipeline::'
    new = ctx.need('C03.R3', 'RequestHandlerPipeline::new', ctx.fb.body('pavexc', PIPE + 'new'))
    if new is not None:
        ei = [bb for bb, t in new.calls() if callee(t) == PIPE + 'enforce_invariants']
        oks = [bb for bb, j, st in new.all_assigns() if st['lhs'] == {'l': 0} and st['rv']['k'] == 'agg' and st['rv'].get('var') == 'Ok']
        ctx.ob('C03.R3', 'invariants-before-ok', bool(ei) and bool(oks) and all(new.dominates(ei[0], o) for o in oks), new.loc(ei[0]) if ei else new.loc(),
               'enforce_invariants() dominates Ok(self)')
    ei_bodies = ctx.fb.bodies_of_item('pavexc', PIPE + 'enforce_invariants')
    if ctx.need('C03.R3', 'enforce_invariants', ei_bodies):
        main = [b for b in ei_bodies if b.nid == b.nroot][0]
        defs = Defs(main)
        vals = [(bb, t) for bb, t in main.calls() if (callee(t) or '').endswith('::values') or (callee(t) or '').endswith('::iter')]
        src_ok = False
        for bb, t in vals:
            pl = op_place(t['args'][0])
            sl, _ = backward_slice(main, pl['l'], defs)
            if 'id2call_graph' in field_reads_of_slice(sl) | {x[2:] for x in pl.get('p', []) if x.startswith('f:')}:
                src_ok = True
        allc = [callee(t) or '' for b in ei_bodies for bb, t in b.calls()]
        dedups = sorted({c.split('::')[-1] for c in allc if c.split('::')[-1] in ('dedup', 'unique', 'collect') and ('HashSet' in c or 'BTreeSet' in c or 'unique' in c or 'dedup' in c)})
        sets = [t for b in ei_bodies for bb, t in b.calls() if callee(t) and callee(t).endswith('::collect') and any(x in ' '.join(t.get('ga', [])) for x in ('HashSet', 'BTreeSet', 'IndexSet'))]
        filt_wrap = [c for c in allc if c.endswith('wrapping_id') or 'StageIds' in c]
        ctx.ob('C03.R3', 'counts-all-graphs', src_ok and not dedups and not sets and not filt_wrap, main.loc(),
               'enforce_invariants walks id2call_graph.values() (%s); de-duplication before counting: %s; restriction to some graphs: %s'
               % (src_ok, bool(dedups or sets), bool(filt_wrap)))


def r4_prebuilt_threaded(ctx):
    ctx.rule('C03.R4', 'P7: inside call_graph::request_scoped every call that (re)builds a call graph passes on the function\'s own '
             '`request_scoped_prebuilt_ids` parameter; a fresh empty IndexSet is passed only by the exploratory first pass of the pipeline and '
             'by the application-state graph (where no request-scoped value exists).')
    RS = CG + 'request_scoped::'
    targets = {RS + 'request_scoped_call_graph', RS + '_request_scoped_call_graph', RS + 'augment_preprocessing_graph', CG + 'core_graph::build_call_graph',
               RS + 'request_scoped_ordered_call_graph'}
    allowed_empty = {A + 'processing_pipeline::pipeline::RequestHandlerPipeline::new': 1, CG + 'application_state::application_state_call_graph': 2}
    empties = {}
    n = 0
    for b in ctx.fb.bodies('pavexc'):
        if b.is_promoted:
            continue
        defs = None
        for bb, t in b.calls():
            c = callee(t)
            if c not in targets:
                continue
            # which argument is the prebuilt set
            idx = [i for i, a in enumerate(t['aty']) if 'IndexSet<la_arena::Idx<pavexc::compiler::analyses::components' in a and a.startswith('&')]
            if not idx:
                # a graph builder without the prebuilt-set argument at all
                if c != RS + 'augment_preprocessing_graph' and c != CG + 'core_graph::build_call_graph':
                    continue
                ctx.ob('C03.R4', 'prebuilt-arg|%s->%s' % (b.nroot.split('::')[-1], c.split('::')[-1]), False, b.loc(bb, t), '%s is called without a prebuilt-ids argument' % c.split('::')[-1])
                continue
            n += 1
            defs = defs or Defs(b)
            pl = op_place(t['args'][idx[0]])
            sl, locs = backward_slice(b, pl['l'], defs)
            fresh = 'indexmap::set::IndexSet::new' in {x for x, _, _ in slice_calls(sl)}
            from_param = any(1 <= l <= b.raw['argc'] and 'IndexSet' in b.locals[l] for l in locs)
            computed = any(b.var_name(l) == 'prebuilt_ids' for l in locs)
            if fresh and not computed:
                empties[b.nroot] = empties.get(b.nroot, 0) + 1
                ok = b.nroot in allowed_empty and empties[b.nroot] <= allowed_empty[b.nroot]
                why = 'a fresh empty set (%s)' % ('allowed: exploratory pass / application state' if ok else 'NOT allowed here: values built upstream would be built again')
            else:
                ok = from_param or computed
                why = 'the caller\'s prebuilt set' if ok else 'an unrecognised value'
            ctx.ob('C03.R4', 'prebuilt-arg|%s->%s|%d' % (b.nroot.replace(CG, '').replace(A, ''), c.split('::')[-1], n), ok, b.loc(bb, t),
                   '%s receives %s' % (c.split('::')[-1], why))
    ctx.floor('C03.R4', 'graph (re)construction call sites with a prebuilt-ids argument', n, 8)


def r5_derived_lifecycle(ctx):
    from .compiler_common import derived_inherits
    ctx.rule('C03.R5', 'P7 provenance: a component derived from a registered one (the Ok-matcher of a fallible constructor, the synthetic constructor '
             'of a prebuilt / config type) has the lifecycle of the component it derives from, read through the lifecycle getter and never '
             're-mapped: a transient fallible constructor stays transient (one call per injection site), a singleton stays a singleton.')
    derived_inherits(ctx, 'C03.R5', 'lifecycle', '::Lifecycle', 'lifecycle')


# what decides, for a node of the call graph, between "bind its value to a `let` variable" and "inline the expression into its consumer"
REVIEWED_INLINE_PREDICATES = {
    # kind of node / computation; `?` on the code generation of the node itself (helpers of codegen.rs are looked through)
    'analyses::components::db::ComponentDb::hydrated_component',
    'analyses::components::hydrated::HydratedComponent::computation',
    'analyses::components::hydrated::HydratedComponent::output_type',
    'codegen_utils::codegen_call_block',
    # "the node has no output"
    'computation::Computation::output_type',
    'core::option::Option::is_none', 'core::option::Option::is_some', 'alloc::vec::Vec::is_empty',
    # "this is the last node of the traversal" (find_match_branching_ancestor and the traversal itself, looked through)
    'core::cmp::PartialEq::eq', 'core::cmp::PartialEq::ne',
    'fixedbitset::FixedBitSet::contains',
    'petgraph::graph_impl::NodeIndex::index',
    'petgraph::graph_impl::stable_graph::EdgeReference::weight',
    'petgraph::graph_impl::stable_graph::StableGraph::edges_directed',
    'petgraph::visit::EdgeRef::source',
    'petgraph::visit::IntoNeighborsDirected::neighbors_directed',
    'petgraph::visit::VisitMap::is_visited',
    'petgraph::visit::VisitMap::visit',
    'petgraph::visit::traversal::DfsPostOrder::new',
    'petgraph::visit::traversal::DfsPostOrder::next',
}


def r6_bound_once(ctx):
    ctx.rule('C03.R6', 'P1 + reviewed table: in _codegen_callable_closure_body a computed value is bound to a `let` variable unless it is the last node '
             'of the traversal or has no output; the branches that decide between binding and inlining are fed only by the reviewed predicates. '
             'An inlined fragment is pasted at every consumer: a value that is moved into one component and borrowed by another would be '
             'constructed twice (request-scoped and singleton values are built once).')
    fn = A + 'call_graph::codegen::_codegen_callable_closure_body'
    b = ctx.need('C03.R6', '_codegen_callable_closure_body', ctx.fb.body('pavexc', fn))
    if b is None:
        return
    defs = Defs(b)
    gen = [bb for bb, t in b.calls() if (callee(t) or '').endswith('VariableNameGenerator::generate')]
    heads = [bb for bb, t in b.calls() if (callee(t) or '').split('::')[-1] == 'next' and bb in b.reachable(b.succ(bb))]
    if not ctx.need('C03.R6', 'variable binding site (VariableNameGenerator::generate)', gen):
        return
    V = min(gen)
    found = {}
    n = 0
    for W in sorted(b.live_blocks()):
        t = b.term(W)
        if not t or t['k'] != 'switch' or W == V or V not in b.reachable([W], avoid=heads):
            continue
        succs = list(dict.fromkeys([x[1] for x in t['ts']] + [t['else']]))
        can = [x == V or V in b.reachable([x], avoid=heads) for x in succs]
        if not (any(can) and not all(can)):
            continue
        n += 1
        src = t.get('src')
        pl = op_place(t['d']) if 'd' in t else None
        l = src['l'] if src else (pl['l'] if pl else None)
        if l is None:
            continue
        sl, _ = backward_slice(b, l, defs)
        from .compiler_common import expand_same_file, slice_calls_with_closures
        for c0 in slice_calls_with_closures(b, sl):
            for c in expand_same_file(ctx, 'pavexc', c0, b.file, stop={fn}):
                if c.startswith('pavexc::') or c.startswith('petgraph::') or c.split('::')[-1] in ('eq', 'ne', 'is_none', 'is_some', 'any', 'all', 'count', 'len', 'is_empty', 'contains'):
                    found.setdefault(c.replace('pavexc::compiler::', ''), b.loc(W))
    new = sorted(set(found) - REVIEWED_INLINE_PREDICATES)
    ctx.ob('C03.R6', 'bind-or-inline-decision', not new, found[new[0]] if new else b.loc(V),
           '%d branch(es) decide whether a node is bound to a variable; predicates outside the reviewed table: %s' % (n, new or 'none'))
    ctx.floor('C03.R6', 'branches deciding between binding and inlining', n, 4)


def r7_expanded_once(ctx):
    ctx.rule('C03.R7', 'P1/P2: in build_call_graph the inputs of a node are expanded at most once, and "once" is per NODE: every `input_types()` '
             'expansion site of the main loop is dominated by a membership test on a set keyed by the node index (HashSet<NodeIndex>::contains / '
             'insert) whose "already there" edge cannot reach the expansion. A guard keyed by (node, neighbour) lets a shared request-scoped '
             'node be expanded once per consumer, which gives each of its transient inputs a second node.')
    b = ctx.need('C03.R7', 'build_call_graph', ctx.fb.body('pavexc', A + 'call_graph::core_graph::build_call_graph'))
    if b is None:
        return
    from ..inline import inlined
    b = inlined(ctx.fb, b)
    exp = [(bb, t) for bb, t in b.calls() if (callee(t) or '').endswith('::input_types') and bb in b.reachable(b.succ(bb))]
    if not ctx.need('C03.R7', 'input_types() expansion sites inside the loop of build_call_graph', exp):
        return
    guards = []
    for bb, t in b.calls():
        c = callee(t) or ''
        if c.split('::')[-1] in ('contains', 'insert') and t['aty'] and 'HashSet<petgraph::graph_impl::NodeIndex' in t['aty'][0] and not t['dest'].get('p'):
            der = forward_derived(b, {t['dest']['l']}, through_calls=True)
            for sb in b.live_blocks():
                w = b.term(sb)
                if w and w['k'] == 'switch' and 'enum' not in w and op_place(w['d']) is not None and op_place(w['d'])['l'] in der:
                    zero = [tg for v, tg in w['ts'] if v == '0']
                    if not zero:
                        continue
                    # contains(): present = true edge; insert(): present = false edge
                    present = w['else'] if c.endswith('contains') else zero[0]
                    # an intervening `!` flips the meaning: decide by reachability instead of polarity
                    guards.append((bb, sb, [w['else'], zero[0]]))
    n = 0
    for eb, et in exp:
        ok = False
        for gb, sb, edges in guards:
            if not b.dominates(sb, eb):
                continue
            reach = [eb in b.reachable(e, avoid=[sb]) for e in edges]
            if any(reach) and not all(reach):
                ok = True
        n += 1
        ctx.ob('C03.R7', 'expanded-once|%s' % (callee(et) or '').split('::')[-2], ok, b.loc(eb, et),
               'the expansion of %s inputs is guarded by a per-node-index membership test one of whose outcomes skips it: %s' % ((callee(et) or '').split('::')[-2], ok))
    ctx.floor('C03.R7', 'expansion sites', n, 5)
    # the memory of the guard lasts as long as the graph is being built: the set is created before the fixed-point loop and never emptied
    defs = Defs(b)
    sets = set()
    for gb, sb, edges in guards:
        recv = op_place(b.term(gb)['args'][0])
        if recv is None:
            continue
        sl, locs = backward_slice(b, recv['l'], defs, through_calls=False)
        sets |= {l for l in locs if b.locals[l].startswith('std::collections::hash::set::HashSet<petgraph::graph_impl::NodeIndex') or
                 b.locals[l].startswith('std::collections::HashSet<petgraph::graph_impl::NodeIndex')}
    bad = []
    for l in sorted(sets):
        for xb, j, node in defs.full.get(l, []):
            if xb in b.reachable(b.succ(xb)):
                bad.append('%s is re-created inside a loop at %s' % (b.var_name(l) or '_%d' % l, b.loc(xb, node)))
    for bb, t in b.calls():
        if t['aty'] and 'HashSet<petgraph::graph_impl::NodeIndex' in t['aty'][0] and t['aty'][0].startswith('&mut') and \
                (callee(t) or '').split('::')[-1] in ('clear', 'drain', 'retain', 'remove', 'take', 'replace', 'swap', 'extract_if'):
            bad.append('%s at %s' % ((callee(t) or '').split('::')[-1], b.loc(bb, t)))
    ctx.ob('C03.R7', 'guard-set-outlives-the-fixed-point', bool(sets) and not bad, b.loc(), 'the per-node guard set(s) (%d) are created once, outside every loop of '
           'build_call_graph, and never emptied: %s%s' % (len(sets), bool(sets) and not bad, '' if not bad else ' — NO: ' + '; '.join(bad[:3]) +
           ' (a later pass of the fixed point can then expand an already expanded node again: its transient inputs get a second node)'))


def r8_finished_is_monotone(ctx):
    ctx.rule('C03.R8', 'P3/P6: in call_graph::codegen the set of finished (already emitted) nodes only grows: the `finished` bit set is touched only through '
             'visit / is_visited / contains / clone; nothing resets a bit. A node un-marked on entering a match arm is emitted a second time inside '
             'that arm (the error handler would see another instance of a request-scoped value).')
    ALLOWED = {'visit', 'is_visited', 'contains', 'clone', 'len', 'count_ones', 'is_empty', 'visit_map', 'with_capacity', 'grow', 'ones'}
    n = 0
    for b in ctx.fb.bodies('pavexc'):
        if b.is_promoted or 'analyses::call_graph::codegen' not in b.nid:
            continue
        defs = None
        for bb, t in b.calls():
            if not t['aty'] or 'FixedBitSet' not in t['aty'][0]:
                continue
            pl = op_place(t['args'][0])
            if pl is None:
                continue
            defs = defs or Defs(b)
            sl, _ = backward_slice(b, pl['l'], defs, through_calls=False)
            fields = set()
            for _, _, node in sl:
                rv = node.get('rv')
                if rv:
                    q = rv.get('pl') or op_place(rv.get('op') or {})
                    if q:
                        fields |= {e[2:] for e in q.get('p', []) if e.startswith('f:')}
            fields |= {e[2:] for e in pl.get('p', []) if e.startswith('f:')}
            if 'finished' not in fields:
                continue
            n += 1
            m = (callee(t) or '').split('::')[-1]
            if m not in ALLOWED:
                ctx.ob('C03.R8', 'finished-mutation|%s|%s' % (b.nroot.split('::')[-1], m), False, b.loc(bb, t),
                       '%s is applied to the `finished` set in %s: a finished node can become unfinished' % (callee(t), b.nroot.split('::')[-1]))
    ctx.floor('C03.R8', 'uses of the `finished` set in call_graph::codegen', n, 2)
    ctx.ob('C03.R8', 'finished-only-grows', True, '', '%d uses of the finished set, all monotone' % n, nontrivial=False)


def r9_at_most_once_accounting(ctx):
    ctx.rule('C03.R9', 'P5 reviewed table: which nodes of a call graph count as "a request-scoped constructor that must run at most once per request" is decided '
             'in three places of processing_pipeline::pipeline — `extract_request_scoped_compute_nodes` (what is built upstream and handed down), '
             '`enforce_invariants` (the final count) and `extract_long_lived_inputs` — by the node kind, the component kind and `ComponentDb::lifecycle` / '
             '`hydrated_component` only. Any further question asked of the component database there (where it derives from, whether it is a matcher, '
             'its scope ..) is a new way to leave a constructor out of the accounting: it then runs once per stage and nothing notices, because the '
             'counting check asks the same question.')
    P_ = A + 'processing_pipeline::pipeline::'
    REVIEWED = {'lifecycle', 'hydrated_component'}
    n = 0
    from .compiler_common import family_bodies
    for fn in (P_ + 'extract_request_scoped_compute_nodes', P_ + 'RequestHandlerPipeline::enforce_invariants', P_ + 'extract_long_lived_inputs'):
        bodies = family_bodies(ctx, 'pavexc', [fn]) if ctx.fb.bodies_of_item('pavexc', fn) else []
        if not ctx.need('C03.R9', fn.replace(P_, ''), bodies):
            continue
        asked = {}
        for b in bodies:
            for bb, t in b.calls():
                c = strip_generics(callee(t) or '')
                if '::components::db::ComponentDb::' in c or '::computation_db::' in c.lower() and 'ComputationDb::' in c:
                    asked.setdefault(c.split('::')[-1], b.loc(bb, t))
        n += len(asked)
        new_q = sorted(set(asked) - REVIEWED)
        ctx.ob('C03.R9', 'accounting-questions|%s' % fn.split('::')[-1], not new_q, asked[new_q[0]] if new_q else bodies[0].loc(),
               '%s asks the component database: %s%s' % (fn.split('::')[-1], sorted(asked), '' if not new_q else ' — not reviewed: %s' % new_q))
    ctx.floor('C03.R9', 'component-database questions in the accounting functions', n, 3)


def r10_canonical_keys_cover_the_whole_type(ctx):
    ctx.rule('C03.R10', 'shared with C17.R14: a generic request-scoped constructor is specialised once per CANONICAL type it is asked for; two spellings of one type '
             'that canonicalise differently are two components, each built once per request — the constructor runs twice and the invariant check, which '
             'counts per component id, sees nothing. Every recursive walker of rustdoc_ir::Type (the canonicaliser and the predicates in front of it) '
             'names every variant with nested types.')
    from .c17 import r14_recursive_walkers_are_total
    from ..engine import Ctx
    side = Ctx(ctx.prop, ctx.fb, ctx.tier)
    r14_recursive_walkers_are_total(side)
    for ob in side.obs:
        ctx.ob('C03.R10', ob.key, ob.ok, ob.loc, ob.detail, ob.nontrivial)


UNRECORDING = {'remove', 'remove_entry', 'retain', 'clear', 'drain', 'extract_if', 'take', 'swap_remove', 'shift_remove', 'pop', 'truncate'}


def r11_recorded_lifecycles_are_never_unrecorded(ctx):
    ctx.rule('C03.R11', 'P3 who-may-mutate (grow-only, like C03.R8): the lifecycle a blueprint records for a component (`AuxiliaryData::id2lifecycle`, filled while the '
             'blueprint is walked; a `.lifecycle(..)` override lands there) is what `resolve_annotation_coordinates` later reads to decide between the override '
             'and the annotation\'s default. Nothing in pavexc removes entries from that map (`remove`, `retain`, `clear`, `drain`, `mem::take` ..): an entry '
             'that is moved to another component leaves the first one with the annotation\'s lifecycle — a request-scoped override of a `#[transient]` '
             'constructor is then built once per injection site.')
    n_touch, bad = 0, []
    for b in ctx.fb.bodies('pavexc'):
        if b.is_promoted:
            continue
        defs = None
        for bb, t in b.calls():
            if not t['args']:
                continue
            c = callee(t) or ''
            m = c.split('::')[-1].split('<')[0]
            pl = op_place(t['args'][0])
            if pl is None:
                continue
            fields = [p for p in pl.get('p', []) if p.startswith('f:')]
            if not fields:
                defs = defs or Defs(b)
                for _, _, nd in defs.full.get(pl['l'], []):
                    rv = nd.get('rv')
                    if rv and rv['k'] in ('ref', 'use', 'cfd', 'rawptr'):
                        q = rv.get('pl') or op_place(rv.get('op', {})) or {}
                        fields += [p for p in q.get('p', []) if p.startswith('f:')]
            # a closure captures the field itself (disjoint capture): the receiver is then recognised by its type, a map into Lifecycle
            aty0 = (t.get('aty') or [''])[0]
            by_type = 'Map<' in aty0 and aty0.rstrip('>').rstrip().endswith('Lifecycle') or ('Map<' in aty0 and 'Lifecycle>' in aty0.replace(' ', ''))
            if 'f:id2lifecycle' not in fields and not by_type:
                continue
            n_touch += 1
            if m in UNRECORDING or c.startswith('core::mem::take') or c.startswith('core::mem::replace') or c.startswith('core::mem::swap'):
                bad.append('%s at %s' % (m, b.loc(bb, t)))
    ctx.floor('C03.R11', 'calls on AuxiliaryData::id2lifecycle', n_touch, 3)
    ctx.ob('C03.R11', 'id2lifecycle-only-grows', not bad, bad[0].split(' at ')[1] if bad else '', 'un-recording operations on id2lifecycle: %s (%d calls on the map seen)' % (bad or 'none', n_touch))


def r12_one_binding_per_injection_site(ctx):
    from ..flow import rv_read_locals
    ctx.rule('C03.R12', 'P6/P7 on the code generator: `codegen_call_block` files the variable of every dependency of a call in a map keyed by the dependency\'s TYPE and '
             '`codegen_call` fills the parameters by type. Two injection sites of one transient type are two nodes and two variables; the second `insert` replaces '
             'the first and both parameters receive the same instance ("instances are never shared" fails), silently. Necessary condition decided here: the value '
             'returned by every `insert` into the binding map in the per-dependency loop is inspected (a collision is noticed: refused, or bound by position).')
    item = PX + 'codegen_utils::codegen_call_block'
    bodies = [b for b in ctx.fb.bodies_of_item('pavexc', item) if not b.is_promoted]
    if not ctx.need('C03.R12', 'codegen_call_block', bodies):
        return
    n = 0
    for b in bodies:
        for bb, t in b.calls():
            c = callee(t) or ''
            if not c.endswith('HashMap::insert') and '::insert' not in c:
                continue
            if 'CanonicalType' not in ' '.join(t.get('aty', [])[:2]):
                continue
            # only the exact binding (keyed by the dependency's own type), not the `&T` alias of a `&mut T` one, which must not replace anything (C01.R14)
            n += 1
            d = t['dest']['l']
            read = False
            for xb, j, st in b.all_assigns():
                if d in rv_read_locals(st['rv']):
                    read = True
            for xb in b.live_blocks():
                u = b.term(xb)
                if not u:
                    continue
                if u['k'] in ('call', 'tailcall') and any(op_place(a) is not None and op_place(a)['l'] == d for a in u['args']):
                    read = True
                if u['k'] == 'switch' and ((u.get('src') or {}).get('l') == d or (op_place(u.get('d', {})) or {}).get('l') == d):
                    read = True
            ctx.ob('C03.R12', 'binding-collision-noticed|codegen_call_block|#%d' % n, read, b.loc(bb, t),
                   'the previous binding returned by `insert` is %s' % ('inspected' if read else 'dropped: two dependencies of the same type collapse into one variable'))
    ctx.floor('C03.R12', 'inserts into the binding map keyed by type', n, 1)


def check(ctx):
    r12_one_binding_per_injection_site(ctx)
    r11_recorded_lifecycles_are_never_unrecorded(ctx)
    r10_canonical_keys_cover_the_whole_type(ctx)
    r1_tables(ctx)
    r2_dedup(ctx)
    r3_invariants(ctx)
    r4_prebuilt_threaded(ctx)
    r5_derived_lifecycle(ctx)
    r6_bound_once(ctx)
    r7_expanded_once(ctx)
    r8_finished_is_monotone(ctx)
    r9_at_most_once_accounting(ctx)


CLAUSE += ' Also: no map into Lifecycle is ever shrunk (a recorded lifecycle override is never un-recorded).'
