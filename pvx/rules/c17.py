"""C17 — The type algebra used for dependency matching obeys its laws.

Decided clause (P8): the structural recursions inspect / preserve everything that matters: every comparison function reads,
on both sides, every field of every payload struct except lifetimes and an explicit exemption table; every rebuilding
function rebuilds each payload from the like-named field of its input; CanonicalType has one constructor.
The laws over all type pairs are not decided.
"""
import re
from ..facts import callee, op_place, strip_generics
from ..flow import Defs, backward_slice, rv_operands, slice_calls
from ..tables import enum_switches, switch_arms

LEVEL = 'other'
CLAUSE = ('the template / equivalence comparisons read on both sides every non-lifetime field of every type payload (reference and '
          'pointer mutability, array length, fn-pointer abi/unsafety/arity, path identity), the substitution and canonicalisation '
          'rebuild every payload from the like-named input field and keep the variant, and CanonicalType is built only by canonicalize().')
TRUSTED = ['derived PartialEq compares all fields']

CR = 'rustdoc_ir'
T = 'rustdoc_ir::'
PAYLOADS = {
    T + 'type_reference::TypeReference', T + 'raw_pointer::RawPointer', T + 'array::Array', T + 'slice::Slice', T + 'tuple::Tuple',
    T + 'function_pointer::FunctionPointer', T + 'function_pointer::FunctionPointerInput', T + 'generic::Generic', T + 'path_type::PathType',
}
# (function, struct) -> fields that need not be compared, with the reason
EXEMPT_CMP = {
    ('*', T + 'function_pointer::FunctionPointerInput'): ({'name'}, 'parameter names are not part of a fn-pointer type'),
    (T + 'path_type::PathType::_is_a_resolved_path_type_template_for', T + 'path_type::PathType'):
        ({'rustdoc_id'}, 'explicitly destructured as `rustdoc_id: _`: the id is a cache key, path+package identify the type'),
    (T + 'type_::{impl rustdoc_ir::Type}::_is_a_template_for', T + 'generic::Generic'): ({'name'}, 'the template side binds the name; the concrete side is compared as a whole'),
}
CMP_FUNCS = {
    T + 'type_::{impl rustdoc_ir::Type}::_is_a_template_for': [T + 'type_reference::TypeReference', T + 'raw_pointer::RawPointer', T + 'array::Array', T + 'slice::Slice',
                                             T + 'tuple::Tuple', T + 'function_pointer::FunctionPointer', T + 'function_pointer::FunctionPointerInput'],
    T + 'type_::{impl rustdoc_ir::Type}::_is_equivalent_to': [T + 'type_reference::TypeReference', T + 'raw_pointer::RawPointer', T + 'array::Array', T + 'slice::Slice',
                                            T + 'tuple::Tuple', T + 'function_pointer::FunctionPointer', T + 'function_pointer::FunctionPointerInput',
                                            T + 'generic::Generic'],
    T + 'path_type::PathType::_is_a_resolved_path_type_template_for': [T + 'path_type::PathType'],
    T + 'path_type::PathType::_is_equivalent_to': [T + 'path_type::PathType'],
}
REBUILD_FUNCS = [T + 'type_::{impl rustdoc_ir::Type}::bind_generic_type_parameters', T + 'type_::{impl rustdoc_ir::Type}::_canonicalize']
EXEMPT_REBUILD = {
    (T + 'type_::{impl rustdoc_ir::Type}::_canonicalize', T + 'function_pointer::FunctionPointerInput', 'name'): 'canonical form erases parameter names',
    (T + 'type_::{impl rustdoc_ir::Type}::_canonicalize', T + 'generic::Generic', 'name'): 'canonical form renames generics (bijectively, via the name map keyed by the old name)',
}


def place_field_reads(pl):
    """[(owner adt, field)] for the ADT-owned field projections of a place"""
    out = []
    fo = pl.get('fo')
    if not fo:
        return out
    i = 0
    for el in pl.get('p', []):
        if el.startswith('f:'):
            o = fo[i] if i < len(fo) else ''
            i += 1
            if o:
                out.append((strip_generics(o), el[2:]))
    return out


def all_places(node):
    pls = []
    if 'rv' in node:
        ops, places = rv_operands(node['rv'])
        pls += places + [op_place(o) for o in ops if op_place(o) is not None]
        if 'lhs' in node:
            pass
    elif node.get('k') == 'call':
        pls += [op_place(o) for o in node['args'] if op_place(o) is not None]
    elif node.get('k') == 'switch' and 'src' in node:
        pls.append(node['src'])
    return pls


def field_read_sites(bodies):
    """(owner, field) -> set of (body id, base local) read sites"""
    out = {}
    for b in bodies:
        for bb in b.live_blocks():
            blk = b.blocks[bb]
            nodes = list(blk['st']) + ([blk['term']] if blk['term'] else [])
            for node in nodes:
                for pl in all_places(node):
                    for (o, f) in place_field_reads(pl):
                        out.setdefault((o, f), set()).add((b.nid, pl['l']))
    return out


def adt_fields(ctx, path):
    a = ctx.fb.adt(CR, path)
    if a is None:
        return None
    return [(f['n'], f['ty']) for v in a['variants'] for f in v['fields']]


def is_lifetime_ty(ty):
    s = strip_generics(ty)
    return s.endswith('lifetime::Lifetime') or s.endswith('GenericLifetimeParameter') or s.endswith('NamedLifetime')


def r1_field_coverage(ctx):
    ctx.rule('C17.R1', 'P8 field coverage: in each structural comparison (Type::_is_a_template_for, Type::_is_equivalent_to and the PathType '
             'counterparts, closures included) every field of every payload struct, except lifetime-typed fields and the reasoned exemption '
             'table, is read from at least two distinct bases (both sides of the comparison).')
    for fn, structs in CMP_FUNCS.items():
        bodies = ctx.fb.bodies_of_item(CR, fn)
        if not ctx.need('C17.R1', fn, bodies):
            continue
        ctx.count('comparison_bodies', len(bodies))
        reads = field_read_sites(bodies)
        for s in structs:
            fields = ctx.need('C17.R1', 'ADT ' + s, adt_fields(ctx, s))
            if not fields:
                continue
            ex = set()
            for key in (('*', s), (fn, s)):
                if key in EXEMPT_CMP:
                    ex |= EXEMPT_CMP[key][0]
            for fname, fty in fields:
                if is_lifetime_ty(fty) or fname in ex:
                    continue
                sites = reads.get((s, fname), set())
                n = len(sites)
                ctx.ob('C17.R1', 'compared|%s|%s.%s' % (fn.split('::')[-1] + '@' + fn.split('::')[-2], s.split('::')[-1], fname), n >= 2,
                       bodies[0].loc(), '%s.%s is read from %d distinct base(s) in %s (needs both sides)%s'
                       % (s.split('::')[-1], fname, n, fn, '' if n >= 2 else ': the comparison ignores this field'))
    # the catch-all arm of the two Type comparisons yields false
    for fn in (T + 'type_::{impl rustdoc_ir::Type}::_is_a_template_for', T + 'type_::{impl rustdoc_ir::Type}::_is_equivalent_to'):
        b = ctx.fb.body(CR, fn)
        if b is None:
            continue
        # every switch on the Type discriminant of the *second* level has an `otherwise` that leads to `_0 = false`
        falses = [bb for bb, j, st in b.all_assigns() if st['lhs'] == {'l': 0} and st['rv']['k'] == 'use' and st['rv']['op'].get('int') == '0']
        ctx.ob('C17.R1', 'catch-all-false|%s' % fn.split('::')[-1], bool(falses), b.loc(), 'a `false` result exists for mismatching variants: %s' % bool(falses), nontrivial=False)


# combinators that can discard (part of) the value they are applied to
DROPPERS = {'filter', 'filter_map', 'skip', 'skip_while', 'take', 'take_while', 'step_by', 'retain', 'retain_mut', 'truncate', 'dedup', 'dedup_by',
            'dedup_by_key', 'pop', 'take_if', 'xor', 'find', 'find_map', 'nth', 'last', 'drain', 'split_off'}


def r2_field_preservation(ctx):
    ctx.rule('C17.R2', 'P8 field preservation: in bind_generic_type_parameters and _canonicalize every payload struct that is rebuilt takes each '
             'field from a value derived from the like-named field of a payload of the same struct (copied or recursed into); lifetime '
             'fields and the reasoned exemptions excepted; the value does not pass through a discarding combinator (filter/skip/take/..); '
             'in the arm for variant V the rebuilt Type is variant V.')
    for fn in REBUILD_FUNCS:
        bodies = ctx.fb.bodies_of_item(CR, fn)
        if not ctx.need('C17.R2', fn, bodies):
            continue
        n_aggs = 0
        for b in bodies:
            defs = Defs(b)
            for bb, j, st in b.all_assigns():
                rv = st['rv']
                if rv['k'] != 'agg' or rv.get('ak') != 'adt':
                    continue
                s = strip_generics(rv['adt'])
                if s not in PAYLOADS:
                    continue
                n_aggs += 1
                for fname, o in zip(rv['fields'], rv['ops']):
                    fields = dict(adt_fields(ctx, s) or [])
                    if is_lifetime_ty(fields.get(fname, '')) or (fn, s, fname) in EXEMPT_REBUILD:
                        continue
                    pl = op_place(o)
                    srcs = set()
                    if pl is not None:
                        sl, _ = backward_slice(b, pl['l'], defs)
                        for _, _, node in sl:
                            for q in all_places(node):
                                srcs |= set(place_field_reads(q))
                        srcs |= set(place_field_reads(pl))
                    ok = (s, fname) in srcs
                    droppers = sorted({c.split('::')[-2] + '::' + c.split('::')[-1] for c, _, _ in slice_calls(sl) if c.split('::')[-1] in DROPPERS}) if pl is not None else []
                    if droppers:
                        ctx.ob('C17.R2', 'not-filtered|%s|%s.%s' % (fn.split('::')[-1], s.split('::')[-1], fname), False, b.loc(bb, st),
                               'rebuilt %s.%s passes through %s: part of the input value can be dropped on the way' % (s.split('::')[-1], fname, droppers))
                    # closures read their captured upvars: accept a slice that reaches a closure upvar / argument when the closure body itself
                    # reads the field (FunctionPointerInput inside `.map(|input| ..)`)
                    ctx.ob('C17.R2', 'preserved|%s|%s.%s' % (fn.split('::')[-1], s.split('::')[-1], fname), ok, b.loc(bb, st),
                           'rebuilt %s.%s derives from input fields %s%s' % (s.split('::')[-1], fname, sorted(x[0].split('::')[-1] + '.' + x[1] for x in srcs)[:6],
                                                                           '' if ok else ' — not from the like-named input field (dropped / defaulted / swapped)'))
        ctx.floor('C17.R2', 'payload structs rebuilt in %s' % fn.split('::')[-1], n_aggs, 8)
        # variant in = variant out
        main = ctx.fb.body(CR, fn)
        if main is not None:
            sws = [x for x in enum_switches(main, T + 'Type')]
            if ctx.need('C17.R2', 'match on Type in ' + fn, sws):
                sbb, st = sws[0]
                arms = switch_arms(main, sbb)
                for var, blocks in arms.items():
                    built = set()
                    for bb in blocks:
                        for s2 in main.stmts(bb):
                            rv = s2.get('rv')
                            if rv and rv['k'] == 'agg' and rv.get('ak') == 'adt' and strip_generics(rv['adt']) == T + 'Type':
                                built.add(rv['var'])
                    allowed = {var} | ({'Path', 'TypeAlias'} if var in ('Path', 'TypeAlias') else set())
                    ctx.ob('C17.R2', 'variant-kept|%s|%s' % (fn.split('::')[-1], var), built <= allowed, main.loc(sbb),
                           'arm %s rebuilds Type variant(s) %s' % (var, sorted(built) or '(clone / binding)'))


def r3_canonical_constructor(ctx):
    ctx.rule('C17.R3', 'P3 who-may-construct: CanonicalType(..) is constructed only in Type::canonicalize (and derived impls), from the result '
             'of _canonicalize.')
    n = 0
    for b in ctx.fb.bodies(CR):
        if b.is_promoted:
            continue
        for bb, j, st in b.all_assigns():
            rv = st['rv']
            if rv['k'] == 'agg' and rv.get('ak') == 'adt' and strip_generics(rv['adt']) == T + 'type_::CanonicalType':
                n += 1
                derived = b.raw.get('impl_trait') in ('core::clone::Clone', 'serde_core::de::Deserialize', 'serde::de::Deserialize') or b.raw.get('exp')
                ok = b.nroot == T + 'type_::{impl rustdoc_ir::Type}::canonicalize' or derived
                ctx.ob('C17.R3', 'constructor|%s' % b.nroot.replace(T, ''), ok, b.loc(bb, st), 'CanonicalType constructed in %s' % b.nroot)
    ctx.floor('C17.R3', 'CanonicalType construction sites', n, 1)
    # outside the crate nobody can construct it: the field is private
    a = ctx.fb.adt(CR, T + 'type_::CanonicalType')
    if ctx.need('C17.R3', 'ADT CanonicalType', a):
        vis = [f['vis'] for v in a['variants'] for f in v['fields']]
        ctx.ob('C17.R3', 'private-field', all('Public' not in v for v in vis), '%s:%s' % (a['file'], a['ln']), 'field visibility: %s' % vis)


TY = 'rustdoc_ir::Type'
TEMPLATE_FUNCS = [T + 'type_::{impl rustdoc_ir::Type}::_is_a_template_for', T + 'path_type::PathType::_is_a_resolved_path_type_template_for']
RECURSIVE_TYPES = ('rustdoc_ir::Type', 'rustdoc_ir::path_type::PathType', 'rustdoc_ir::generic_argument::GenericArgument',
                   'rustdoc_ir::type_reference::TypeReference', 'rustdoc_ir::tuple::Tuple', 'rustdoc_ir::slice::Slice', 'rustdoc_ir::array::Array',
                   'rustdoc_ir::raw_pointer::RawPointer', 'rustdoc_ir::function_pointer::FunctionPointer')


def r4_bindings_compared_by_equality(ctx):
    from ..flow import forward_derived
    ctx.rule('C17.R4', 'P1/P3: in the template-matching functions every `bindings.insert(name, ty)` has its previous value compared with '
             'the new one by structural equality (PartialEq on Type) on every path that goes on to report a match, and those functions never '
             'consult the weaker equivalence relation (a parameter bound twice must be bound to the same type, otherwise substitution '
             'cannot reproduce the concrete type).')
    n = 0
    for fn in TEMPLATE_FUNCS:
        bodies = ctx.fb.bodies_of_item(CR, fn)
        if not ctx.need('C17.R4', fn, bodies):
            continue
        for b in bodies:
            for bb, t in b.calls():
                c = callee(t) or ''
                if c.endswith('_is_equivalent_to') or c.endswith('::is_equivalent_to'):
                    ctx.ob('C17.R4', 'weaker-relation|%s' % fn.split('::')[-1], False, b.loc(bb, t),
                           'template matching consults the equivalence-up-to-renaming relation (%s)' % c)
                if c == 'std::collections::hash::map::HashMap::insert' and len(t['aty']) == 3 and strip_generics(t['aty'][2]) == TY:
                    n += 1
                    d = t['dest']
                    derived = forward_derived(b, {d['l']}, through_calls=False) if not d.get('p') else set()
                    # payload moved out of the Option (`previous`)
                    cmp_blocks = []
                    for cb, ct in b.calls():
                        if callee(ct) in ('core::cmp::PartialEq::ne', 'core::cmp::PartialEq::eq') and strip_generics(ct['aty'][0]).lstrip('&') == TY:
                            # one operand derives from the insert's result
                            for a in ct['args']:
                                q = op_place(a)
                                if q is not None:
                                    sl, locs = backward_slice(b, q['l'], through_calls=False)
                                    if locs & derived:
                                        cmp_blocks.append(cb)
                    # on the Some(previous) path every way to leave goes through the comparison
                    some_targets = []
                    for sb in b.live_blocks():
                        w = b.term(sb)
                        if w and w['k'] == 'switch' and strip_generics(w.get('enum', '')) == 'core::option::Option' and w['src']['l'] in derived:
                            some_targets += [tg for nme, tg in w['ts'] if nme == 'Some']
                    rets = set(b.return_blocks())
                    loop_heads = {hb for hb, ht in b.calls() if callee(ht) == 'core::iter::traits::iterator::Iterator::next'}
                    bad = False
                    for tg in some_targets:
                        if tg in cmp_blocks:
                            continue
                        if b.reachable(tg, avoid=cmp_blocks) & (rets | loop_heads):
                            bad = True
                    ok = bool(cmp_blocks) and bool(some_targets) and not bad
                    ctx.ob('C17.R4', 'binding-compared|%s|bb-order-%d' % (fn.split('::')[-1], n), ok, b.loc(bb, t),
                           'previous binding compared with the new one by PartialEq on Type (blocks %s) before the match goes on: %s' % (cmp_blocks, ok))
    ctx.floor('C17.R4', 'bindings.insert sites in the template functions', n, 3)


def r5_no_shortcut_around_recursion(ctx):
    from ..tables import guard_context
    ctx.rule('C17.R5', 'P1: in the per-argument loops of the PathType comparisons, once both arguments are type parameters every path back to '
             'the loop head passes through the recursive comparison or the generic-id registration/binding (no fast path that skips '
             'registering nested generics).')
    GA = 'rustdoc_ir::generic_argument::GenericArgument'
    for fn, must in ((T + 'path_type::PathType::_is_equivalent_to', {T + 'type_::{impl rustdoc_ir::Type}::_is_equivalent_to',
                                                                       T + 'generics_equivalence::UnassignedIdGenerator::id'}),
                     (T + 'path_type::PathType::_is_a_resolved_path_type_template_for', {T + 'type_::{impl rustdoc_ir::Type}::_is_a_template_for',
                                                                                          'std::collections::hash::map::HashMap::insert'})):
        b = ctx.need('C17.R5', fn, ctx.fb.body(CR, fn))
        if b is None:
            continue
        heads = [hb for hb, ht in b.calls() if callee(ht) == 'core::iter::traits::iterator::Iterator::next']
        if not ctx.need('C17.R5', 'loop over generic arguments in ' + fn, heads):
            continue
        walk = {wb for wb, wt in b.calls() if callee(wt) in must}
        # entry blocks of the (TypeParameter, TypeParameter) region
        region = [bb for bb in b.live_blocks() if guard_context(b, bb).get(GA) == {'TypeParameter'}]
        sw = [sb for sb, st in enum_switches(b, GA)]
        # blocks of the region that are direct targets of a GenericArgument switch
        entries = set()
        for sb in sw:
            # only second-level switches: the switch itself already sits under a TypeParameter arm (of the other argument)
            if guard_context(b, sb).get(GA) != {'TypeParameter'}:
                continue
            st = b.term(sb)
            for nme, tg in st['ts']:
                if nme == 'TypeParameter' and tg in region:
                    entries.add(tg)
        ctx.need('C17.R5', '(TypeParameter, TypeParameter) arm in ' + fn, entries)
        bad = [e for e in entries if e not in walk and (b.reachable(e, avoid=walk) & set(heads))]
        # `return false` exits are fine: they never reach the loop head
        ctx.ob('C17.R5', 'no-shortcut|%s' % fn.split('::')[-1], not bad and bool(entries), b.loc(heads[0]),
               'from the (TypeParameter, TypeParameter) arm every path to the next iteration passes %s: %s'
               % (sorted(x.split('::')[-1] for x in must), 'yes' if not bad else 'NO — entry block(s) %s can skip it' % bad))


def r6_render(ctx):
    ctx.rule('C17.R6', 'P8/P3 rendering: Type::render_into (+ GenericArgument::render_into) reads every field of every payload (rustdoc_id '
             'excepted) and never formats a nested type through Display/Debug — nested types are rendered only by the recursive call that '
             'threads the RenderConfig (otherwise crate aliases / lifetime erasure are lost below that node).')
    fns = [T + 'render::{impl rustdoc_ir::Type}::render_into', T + 'generic_argument::GenericArgument::render_into']
    bodies = []
    for fn in fns:
        bs = ctx.fb.bodies_of_item(CR, fn)
        ctx.need('C17.R6', fn, bs)
        bodies += bs
    reads = field_read_sites(bodies)
    for s in sorted(PAYLOADS):
        for fname, fty in adt_fields(ctx, s) or []:
            if (s, fname) == (T + 'path_type::PathType', 'rustdoc_id'):
                continue
            ctx.ob('C17.R6', 'rendered|%s.%s' % (s.split('::')[-1], fname), (s, fname) in reads, bodies[0].loc() if bodies else '',
                   'render_into reads %s.%s: %s' % (s.split('::')[-1], fname, (s, fname) in reads))
    n = 0
    for b in bodies:
        for bb, t in b.calls():
            c = callee(t) or ''
            if c.startswith('core::fmt::rt::Argument::new_'):
                n += 1
                ga = ' '.join(t.get('ga', []))
                hit = [r for r in RECURSIVE_TYPES if r in strip_generics(ga).replace('&', '').split() or ('<' + r + '>') in ga or ga.endswith(r)]
                hit = [r for r in RECURSIVE_TYPES if any(strip_generics(g).lstrip('&') in (r, 'alloc::boxed::Box') and r in g for g in t.get('ga', []))]
                ctx.ob('C17.R6', 'no-display-of-nested-type|%s' % (t.get('ga', ['?'])[-1]), not hit, b.loc(bb, t),
                       'formats a value of type %s through Display/Debug inside the renderer%s' % (t.get('ga'), '' if not hit else ': a nested type bypasses the RenderConfig'),
                       nontrivial=bool(hit))
    ctx.floor('C17.R6', 'format arguments inside the renderer (positive control)', n, 8)
    # one-element tuples: `(T)` is T in parentheses, so the Tuple arm must emit a comma when there is exactly one element
    main = ctx.fb.body(CR, fns[0])
    sws = [x for x in enum_switches(main, T + 'Type')] if main is not None else []
    if ctx.need('C17.R6', 'match on Type in render_into', sws):
        arm = switch_arms(main, sws[0][0]).get('Tuple', set())
        lens = {t['dest']['l'] for bb, t in main.calls() if bb in arm and callee(t) == 'alloc::vec::Vec::len' and not t['dest'].get('p')}
        commas = [bb for bb, t in main.calls() if bb in arm and (callee(t) or '').startswith('core::fmt::Arguments::from_str')
                  and any(isinstance(a, dict) and str(a.get('str', '')).strip() == ',' for a in t['args'])]
        ok = False
        where = main.loc(sws[0][0])
        defs = Defs(main)
        for bb, j, st in main.all_assigns():
            rv = st['rv']
            if bb not in arm or rv['k'] != 'bin' or rv['bop'] != 'Eq':
                continue
            ops = [rv['a'], rv['b']]
            one = [o for o in ops if isinstance(o, dict) and o.get('int') == '1']
            other = [op_place(o) for o in ops if op_place(o) is not None]
            if not one or not other:
                continue
            _, locs = backward_slice(main, other[0]['l'], defs, through_calls=False)
            if not ((locs | {other[0]['l']}) & lens):
                continue
            w = main.term(bb)
            if not w or w['k'] != 'switch':
                continue
            zero = [tg for v, tg in w['ts'] if v == '0']
            for cb in commas:
                if cb in main.reachable(w['else'], avoid=[bb]) and zero and cb not in main.reachable(zero[0], avoid=[bb]):
                    ok = True
                    where = main.loc(bb, st)
        ctx.ob('C17.R6', 'one-element-tuple-keeps-its-comma', ok, where,
               'the Tuple arm writes "," exactly when elements.len() == 1: %s (otherwise `(T,)` is rendered as `(T)`, which parses back as T)' % ok)


def r7_length_before_zip(ctx):
    ctx.rule('C17.R7', 'P1: in the structural comparisons every Iterator::zip over two argument/element/input lists is dominated by an equality '
             'test (== / != on usize) of two `len()` results whose "different" edge cannot reach the zip: zip stops at the shorter list, so without '
             'the arity test trailing elements of the longer side would be ignored (`Vec<T>` would match `Vec<u8, A>`).')
    n = 0
    LEN = ('alloc::vec::Vec::len', 'core::slice::{impl [T]}::len')
    for fn in CMP_FUNCS:
        for b in ctx.fb.bodies_of_item(CR, fn):
            defs = Defs(b)
            lens = {}
            for bb, t in b.calls():
                if callee(t) in LEN and not t['dest'].get('p'):
                    lens[t['dest']['l']] = t['aty'][0]
            tests = []   # (switch block, target taken when the lengths differ, element types)
            for bb, j, st in b.all_assigns():
                rv = st['rv']
                if rv['k'] != 'bin' or rv['bop'] not in ('Eq', 'Ne'):
                    continue
                srcs = []
                for o in (rv['a'], rv['b']):
                    pl = op_place(o)
                    if pl is None:
                        continue
                    _, locs = backward_slice(b, pl['l'], defs, through_calls=False)
                    srcs.append({lens[l] for l in locs | {pl['l']} if l in lens})
                if len(srcs) != 2 or not srcs[0] or not srcs[1]:
                    continue
                w = b.term(bb)
                if not w or w['k'] != 'switch' or 'enum' in w:
                    continue
                zero = [tg for v, tg in w['ts'] if v == '0']
                if not zero:
                    continue
                differ = w['else'] if rv['bop'] == 'Ne' else zero[0]
                tests.append((bb, differ, srcs[0] | srcs[1]))
            for bb, t in b.calls():
                if callee(t) != 'core::iter::traits::iterator::Iterator::zip':
                    continue
                n += 1
                elem = re.sub(r"^.*Iter<'_, |^&alloc::vec::Vec<|>$", '', t['aty'][0])
                ok = False
                why = 'no dominating length equality test'
                for tb, differ, tys in tests:
                    if not b.dominates(tb, bb) or not any(elem in ty for ty in tys):
                        continue
                    if bb in b.reachable(differ, avoid=[tb]):
                        why = 'the zip is reachable although the lengths differ (test at %s)' % b.loc(tb)
                        continue
                    ok = True
                    why = 'lengths compared for equality at %s; the zip is unreachable when they differ' % b.loc(tb)
                    break
                ctx.ob('C17.R7', 'arity|%s|zip#%d' % (b.nid.replace(T, ''), sum(1 for x in ctx.obs if x.key.startswith('arity|%s|' % b.nid.replace(T, ''))) + 1),
                       ok, b.loc(bb, t), 'zip over two lists of %s: %s' % (elem.split('::')[-1], why))
    ctx.floor('C17.R7', 'zip sites in the structural comparisons', n, 6)


def check(ctx):
    r4_bindings_compared_by_equality(ctx)
    r5_no_shortcut_around_recursion(ctx)
    r6_render(ctx)
    r1_field_coverage(ctx)
    r2_field_preservation(ctx)
    r3_canonical_constructor(ctx)
    r7_length_before_zip(ctx)
