"""Shared clause: the comparison that decides whether a file is rewritten looks at the whole content.

persist_if_changed compares SHA-256 digests. A digest that silently leaves part of the content out (the tail of a chunked read, a
prefix only) makes two different contents compare equal: the file is then NOT rewritten although what should be on disk changed
(C10: outdated iff changed; C19: the blueprint the compiler reads is the one the application built)."""
from ..facts import callee, op_place
from ..flow import Defs, backward_slice, slice_calls

PIC = 'persist_if_changed'
READS = {'std::io::Read::read', 'std::io::Read::read_exact', 'std::io::Read::read_to_end', 'std::io::Read::read_to_string', 'std::io::Read::read_buf',
         'std::io::BufRead::fill_buf'}
UPDATE = ('digest::digest::Digest::update', 'digest::Update::update', 'digest::digest::Digest::chain_update')


def whole_content_hashed(ctx, rule):
    n = 0
    for b in ctx.fb.bodies(PIC):
        if b.is_promoted:
            continue
        ups = [(bb, t) for bb, t in b.calls() if callee(t) in UPDATE]
        rds = [(bb, t) for bb, t in b.calls() if callee(t) in READS]
        if not ups:
            continue
        n += 1
        defs = Defs(b)
        fn = b.nid.replace(PIC + '::', '')
        for bb, t in rds:
            m = callee(t).split('::')[-1]
            if m == 'read_exact':
                ctx.ob(rule, 'hash-covers-what-was-read|%s|read_exact' % fn, False, b.loc(bb, t),
                       'chunks are filled with read_exact: when the source ends inside a chunk the call fails with UnexpectedEof and the bytes it had '
                       'already read are lost, so the tail of the content (all of it, when shorter than a chunk) never reaches the hasher')
        plain = [(bb, t) for bb, t in rds if callee(t).split('::')[-1] == 'read']
        for ub, ut in ups:
            pl = op_place(ut['args'][1]) if len(ut['args']) > 1 else None
            sl, _ = backward_slice(b, pl['l'], defs) if pl else ([], set())
            if not plain:
                ctx.ob(rule, 'hash-covers-what-was-read|%s' % fn, True, b.loc(ub, ut), 'the hasher is fed a value the function did not read piecewise')
                continue
            # chunked form: hasher.update(&buffer[..n]) with n the count returned by read()
            idx = [nd for c, _, nd in slice_calls(sl) if c in ('core::ops::index::Index::index', 'core::ops::index::IndexMut::index_mut')]
            bounded = False
            for nd in idx:
                q = op_place(nd['args'][1]) if len(nd['args']) > 1 else None
                rsl, _ = backward_slice(b, q['l'], defs) if q else ([], set())
                if any(c == 'std::io::Read::read' for c, _, _ in slice_calls(rsl)):
                    bounded = True
            in_loop = ub in b.reachable(b.succ(ub)) and all(rb in b.reachable(b.succ(rb)) for rb, _ in plain)
            ctx.ob(rule, 'hash-covers-what-was-read|%s' % fn, bounded and in_loop, b.loc(ub, ut),
                   'the hasher is fed `&buffer[..n]` where n is what read() returned (%s), inside the read loop (%s)' % (bounded, in_loop))
    # whatever the comparison is made of (digests or direct block comparison): no API that silently leaves a tail out
    #   chunks_exact / array_chunks / as_chunks drop the last partial chunk unless `remainder()` is looked at;
    #   read_exact loses the bytes of a short final read
    TAIL_DROPPERS = {'chunks_exact', 'rchunks_exact', 'array_chunks', 'as_chunks', 'chunks_exact_mut'}
    m = 0
    for b in ctx.fb.bodies(PIC):
        if b.is_promoted:
            continue
        fn = b.nid.replace(PIC + '::', '')
        rem = any((callee(t) or '').split('::')[-1] in ('remainder', 'into_remainder') for _, t in b.calls())
        for bb, t in b.calls():
            mname = (callee(t) or '').split('::')[-1]
            if mname in TAIL_DROPPERS:
                m += 1
                ctx.ob(rule, 'compares-everything|%s|%s' % (fn, mname), rem, b.loc(bb, t),
                       '%s iterates whole chunks only; the last `len %% chunk` bytes are %s' % (mname, 'looked at through remainder()' if rem else
                                                                                               'never compared: two contents that differ only there compare equal'))
            if mname == 'read_exact' and not [1 for _, t2 in b.calls() if callee(t2) in UPDATE]:
                m += 1
                ctx.ob(rule, 'compares-everything|%s|read_exact' % fn, False, b.loc(bb, t),
                       'blocks are filled with read_exact: a final block shorter than the buffer is an error / is lost, so the tail of the file is not compared')
    ctx.count('tail_dropping_apis_in_persist_if_changed', m)
    ctx.floor(rule, 'hashing functions in persist_if_changed', n, 0 if m else 1)


def writer_replaces_the_whole_file(ctx, rid, lead=''):
    """shared by C01 (the emitted crate is exactly what the generator produced) and C10 (same input, same bytes)"""
    from ..facts import callee, op_place
    from ..flow import Defs, backward_slice, slice_calls
    ctx.rule(rid, lead + 'P7 provenance of the file handle: in the crate that writes every generated file (persist_if_changed), each `write_all` goes to a handle '
             'that REPLACES the file: `fs::write`, `File::create`, or an `OpenOptions` chain whose `truncate(..)` is the constant `true` (and no '
             '`append(true)`), or the body calls `set_len` after the write. A handle opened without truncation leaves the tail of a longer previous '
             'generation behind: the second, shorter, `lib.rs` / `Cargo.toml` no longer parses although pavexc exits 0.')
    n = 0
    for b in ctx.fb.bodies('persist_if_changed'):
        if b.is_promoted:
            continue
        defs = None
        set_len = any((callee(t) or '').endswith('::set_len') for _, t in b.calls())
        for bb, t in b.calls():
            c = callee(t) or ''
            if not (c.endswith('Write>::write_all') or c.endswith('Write>::write') or c.endswith('::write_all')):
                continue
            if 'File' not in ' '.join(t.get('aty', [])[:1]) and 'File' not in c:
                continue
            n += 1
            defs = defs or Defs(b)
            pl = op_place(t['args'][0])
            sl, _ = backward_slice(b, pl['l'], defs) if pl is not None else ([], None)
            calls = list(slice_calls(sl))
            names = [(x or '').split('::')[-1].split('<')[0] for x, _, _ in calls]
            trunc = [node for x, _, node in calls if (x or '').endswith('OpenOptions::truncate')]
            app = [node for x, _, node in calls if (x or '').endswith('OpenOptions::append')]
            def const_true(node):
                a = node['args'][1] if len(node['args']) > 1 else {}
                return a.get('int') in (1, '1', True)
            ok = ('create' in names and 'open' not in names) or (bool(trunc) and all(const_true(x) for x in trunc)) or set_len
            ok = ok and not any(const_true(x) for x in app)
            ctx.ob(rid, 'handle-replaces-the-file|%s' % b.nid.replace('persist_if_changed::', ''), ok, b.loc(bb, t),
                   'the handle written to is opened through %s; truncate arguments: %s; set_len in the body: %s' % (
                       sorted(set(names)), [x['args'][1] for x in trunc if len(x['args']) > 1], set_len))
    ctx.floor(rid, 'write_all sites on files in persist_if_changed', n, 1)
