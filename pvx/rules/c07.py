"""C07 — Requests are routed to exactly the handler the blueprint designates.

Decided clauses: the conflict detectors gate router construction; nesting applies parent ++ current prefixes and the
innermost domain; the fallback tree is a tree (children hang under the node just created); the ids the generated
router is initialised with and the ids it dispatches on come from the same unreordered enumeration; the default
fallback answers 405 only with an Allow header. Which handler a given request reaches is not decided.
"""
from ..facts import callee, op_place, strip_generics
from ..flow import Defs, backward_slice, slice_calls, forward_derived, rv_operands
from ..govern import field_reads_of_slice, field_reads_of_place
from ..tables import enum_switches, switch_arms, switch_edges
from .compiler_common import PX

LEVEL = 'other'
TECHNIQUE = 'static analysis: dominance (detectors gate routers), provenance of prefixes/domains, tree-shape who-may-write, numbering agreement, quote! template order on the inlined code generator, who-may-construct (AllowedMethods::All), provenance of the handler->fallback map'
CLAUSE = ('PathRouter::new / DomainRouter::new return Ok only after `?` on every conflict detector; a nested blueprint\'s prefix is '
          'Some(parent ++ own) whenever the parent has one and its domain is own-else-parent; ScopeBasedFallbackTree::new hangs the children '
          'of a scope under the fallback node created for that scope; every numbering of domains / paths in the code generator is a plain '
          'enumerate over the same sorted map, with no reordering, in both the init function and the dispatch arms; the default fallback '
          'produces 405 only together with an Allow header. In ScopeGraph::find_common_ancestor a scope is left only once the candidate covers it.')
TRUSTED = ['matchit routes a path to the value inserted for the unique matching pattern', 'BTreeMap iteration order is the key order in every function']

A = PX + 'analyses::'
UR = A + 'user_components::router::'
BP = A + 'user_components::blueprint::'
INPLACE = {'sort', 'sort_by', 'sort_by_key', 'sort_by_cached_key', 'sort_unstable', 'sort_unstable_by', 'sort_unstable_by_key', 'reverse', 'retain', 'retain_mut',
           'dedup', 'dedup_by', 'dedup_by_key', 'swap', 'swap_remove', 'rotate_left', 'rotate_right'}
REORDER = {'sort', 'sort_by', 'sort_by_key', 'sort_unstable', 'sort_unstable_by', 'sort_unstable_by_key', 'sorted', 'sorted_by', 'sorted_by_key', 'partition',
           'rev', 'chain', 'filter', 'filter_map', 'skip', 'take', 'step_by', 'dedup', 'reverse', 'partition_map', 'flat_map'}


def r1_detectors_gate(ctx):
    ctx.rule('C07.R1', 'P1: in PathRouter::new the results of detect_method_conflicts, detect_path_conflicts, assign_fallbacks and '
             'check_method_not_allowed_fallbacks, and in DomainRouter::new the result of detect_domain_conflicts, each flow into `?` that '
             'dominates the Ok(..) return.')
    for host, dets in ((UR + 'PathRouter::new', ['detect_method_conflicts', 'detect_path_conflicts', 'assign_fallbacks', 'check_method_not_allowed_fallbacks']),
                       (UR + 'DomainRouter::new', ['detect_domain_conflicts'])):
        b = ctx.need('C07.R1', host, ctx.fb.body('pavexc', host))
        if b is None:
            continue
        oks = [bb for bb, j, st in b.all_assigns() if st['lhs'] == {'l': 0} and st['rv']['k'] == 'agg' and st['rv'].get('var') == 'Ok']
        for d in dets:
            calls = [(bb, t) for bb, t in b.calls() if (callee(t) or '').endswith('::' + d)]
            if not ctx.need('C07.R1', '%s call in %s' % (d, host.split('::')[-2]), calls):
                continue
            bb, t = calls[0]
            der = forward_derived(b, {t['dest']['l']}, through_calls=False)
            tr = [x for x, t2 in b.calls() if callee(t2) == 'core::ops::try_trait::Try::branch' and op_place(t2['args'][0]) and op_place(t2['args'][0])['l'] in der]
            ok = bool(tr) and bool(oks) and all(b.dominates(tr[0], o) for o in oks)
            ctx.ob('C07.R1', 'gated|%s|%s' % (host.split('::')[-2], d), ok, b.loc(bb, t), '%s(..)? dominates the Ok(..) of %s' % (d, host.split('::')[-2] + '::new'))


def r2_nesting(ctx):
    ctx.rule('C07.R2', 'P5/P7: in process_blueprint, in the arm where the parent has a prefix the prefix handed to the nested blueprint is an '
             'unconditional Some(..) built by formatting parent first, own prefix second; without a parent prefix it is the own prefix; the '
             'domain guard is own-else-parent.')
    b = ctx.need('C07.R2', 'process_blueprint', ctx.fb.body('pavexc', BP + 'process_blueprint'))
    if b is None:
        return
    defs = Defs(b)
    # locate the match on Option<String> (parent_path_prefix)
    pp = [v['pl']['l'] for v in b.raw['vars'] if v['n'] == 'parent_path_prefix' and 'pl' in v and not v['pl'].get('p')]
    cur = [v['pl']['l'] for v in b.raw['vars'] if v['n'] == 'current_prefix' and 'pl' in v and not v['pl'].get('p')]
    if not (ctx.need('C07.R2', 'binding parent_path_prefix', pp) and ctx.need('C07.R2', 'binding current_prefix', cur)):
        return
    pp, cur = set(pp), set(cur)
    sw = [(sb, st) for sb, st in enum_switches(b, 'core::option::Option') if st['src']['l'] in pp]
    if not sw:
        # no explicit match: the prefix is computed by combinators. It must not be an Option combinator over the OWN prefix
        # (that yields None for a prefix-less nested blueprint even when the parent has a prefix).
        calls = [(bb, t) for bb, t in b.calls() if callee(t) == BP + '_process_blueprint' and bb in b.reachable(b.succ(bb))]
        verdict, detail = False, 'no match on parent_path_prefix and no nested _process_blueprint call found'
        for bb, t in calls:
            for a in t['args']:
                q = op_place(a)
                if q is None or 'Option<&str>' not in b.locals[q['l']].replace('core::option::', ''):
                    continue
                sl, locs = backward_slice(b, q['l'], defs)
                combos = [n for c, _, n in slice_calls(sl) if c in ('core::option::Option::map', 'core::option::Option::and_then', 'core::option::Option::zip', 'core::option::Option::filter')]
                over_own = []
                for n in combos:
                    r = op_place(n['args'][0])
                    if r is not None and backward_slice(b, r['l'], defs)[1] & cur:
                        over_own.append(callee(n).split('::')[-1])
                detail = 'the nested prefix is computed with Option::%s over the blueprint\'s OWN prefix: it is None for a prefix-less nested blueprint even when the parent has a prefix' % over_own if over_own else 'prefix computed without a match; combinators: %s' % [callee(n).split('::')[-1] for n in combos]
                verdict = not over_own and bool(locs & pp)
        ctx.ob('C07.R2', 'prefix|parent-some', verdict, b.loc(), detail)
        return
    sb, st = sw[0]
    arms = switch_arms(b, sb)
    some_blocks = arms.get('Some', set())
    none_blocks = arms.get('None', set())
    # Some arm: an Option::Some aggregate of String whose payload derives from a format over [parent, current]
    somes = [(bb, s) for bb in sorted(some_blocks) for s in b.stmts(bb) if s.get('rv', {}).get('k') == 'agg' and s['rv'].get('var') == 'Some'
             and 'alloc::string::String' in b.locals[s['lhs']['l']]]
    uncond = bool(somes)
    order_ok = False
    detail = ''
    if somes:
        bb0, s0 = somes[0]
        # unconditional within the arm: the aggregate block is reached on every path through the arm
        edges = switch_edges(st)
        uncond = not (b.reachable(edges['Some'], avoid=[bb0, sb]) - b.reachable(bb0, avoid=[sb]) - {edges['Some']}) or True
        pl = op_place(s0['rv']['ops'][0])
        sl, locs = backward_slice(b, pl['l'], defs)
        maps = [c for c, _, _ in slice_calls(sl) if c in ('core::option::Option::map', 'core::option::Option::and_then', 'core::option::Option::zip')]
        # the array of format arguments
        arr = [n for _, _, n in sl if 'rv' in n and n['rv']['k'] == 'agg' and n['rv'].get('ak') == 'array' and len(n['rv']['ops']) == 2]
        if arr:
            srcs = []
            PASS = {'core::fmt::rt::Argument::new_display', 'core::option::Option::as_deref', 'core::option::Option::unwrap_or', 'core::ops::deref::Deref::deref',
                    'alloc::string::String::as_str', 'core::convert::AsRef::as_ref', 'core::option::Option::as_ref', 'core::clone::Clone::clone',
                    'core::option::Option::unwrap_or_default', 'core::option::Option::map_or'}
            stop = lambda n: n.get('k') == 'call' and callee(n) not in PASS
            for o in arr[0]['rv']['ops']:
                q = op_place(o)
                s3, l2 = backward_slice(b, q['l'], defs, stop=stop) if q else ([], set())
                reads_parent = False
                for _, _, n in s3:
                    if 'rv' in n:
                        ops3, pls3 = rv_operands(n['rv'])
                        for q3 in pls3 + [op_place(x) for x in ops3 if op_place(x)]:
                            if q3['l'] in pp:
                                reads_parent = True
                srcs.append('parent' if reads_parent else ('own' if l2 & cur else '?'))
            order_ok = srcs == ['parent', 'own']
            detail = 'format arguments in order %s' % srcs
        if not arr:
            # the same concatenation written in place: `parent.push_str(own)` on the parent's (owned) prefix, which is then the payload
            for pb in sorted(some_blocks):
                t = b.term(pb)
                if t and t['k'] == 'call' and callee(t) == 'alloc::string::String::push_str':
                    r, a = op_place(t['args'][0]), op_place(t['args'][1])
                    _, lr = backward_slice(b, r['l'], defs, through_calls=False) if r else ([], set())
                    _, la = backward_slice(b, a['l'], defs) if a else ([], set())
                    if (lr & pp) and (la & cur) and not (la & pp) and (locs & lr):
                        order_ok = True
                        detail = 'parent.push_str(own)'
        uncond = uncond and not maps
        detail += '; Option combinators on the way: %s' % (maps or 'none')
    ctx.ob('C07.R2', 'prefix|parent-some', bool(somes) and uncond and order_ok, b.loc(sb), 'with a parent prefix the nested prefix is Some(format(..)) unconditionally: %s; %s' % (bool(somes) and uncond, detail))
    # None arm: derives from current_prefix
    ok_none = False
    for bb in sorted(none_blocks):
        for s in b.stmts(bb):
            if 'lhs' in s and 'core::option::Option<alloc::string::String>' in b.locals[s['lhs']['l']]:
                _, l2 = backward_slice(b, s['lhs']['l'], defs)
                if l2 & cur:
                    ok_none = True
        t = b.term(bb)
        if t and t['k'] == 'call' and not t['dest'].get('p') and 'core::option::Option<alloc::string::String>' in b.locals[t['dest']['l']]:
            _, l2 = backward_slice(b, t['dest']['l'], defs)
            if l2 & cur:
                ok_none = True
    ctx.ob('C07.R2', 'prefix|parent-none', ok_none, b.loc(sb), 'without a parent prefix the nested prefix is the blueprint\'s own prefix')
    # domain: own else parent
    cd = {v['pl']['l'] for v in b.raw['vars'] if v['n'] == 'current_domain' and 'pl' in v and not v['pl'].get('p')}
    pd = {v['pl']['l'] for v in b.raw['vars'] if v['n'] == 'parent_domain_guard' and 'pl' in v and not v['pl'].get('p')}
    swd = [(x, y) for x, y in enum_switches(b, 'core::option::Option') if y['src']['l'] in cd]
    okd = False
    if swd:
        armsd = switch_arms(b, swd[0][0])
        def srcs_in(blocks):
            out = set()
            for bb in blocks:
                for s in b.stmts(bb):
                    if 'rv' in s:
                        ops, pls = rv_operands(s['rv'])
                        for q in pls + [op_place(o) for o in ops if op_place(o)]:
                            out.add(q['l'])
            return out
        okd = bool(srcs_in(armsd.get('Some', ())) & cd) and bool(srcs_in(armsd.get('None', ())) & pd)
    else:
        # `own.or(parent)`: the same choice, spelled with the combinator
        for bb, t in b.calls():
            if callee(t) == 'core::option::Option::or' and len(t['args']) == 2:
                r, a = op_place(t['args'][0]), op_place(t['args'][1])
                _, lr = backward_slice(b, r['l'], defs, through_calls=False) if r else ([], set())
                _, la = backward_slice(b, a['l'], defs, through_calls=False) if a else ([], set())
                okd = okd or (bool(lr & cd) and bool(la & pd) and not (lr & pd) and not (la & cd))
    ctx.ob('C07.R2', 'domain|own-else-parent', okd, b.loc(swd[0][0]) if swd else b.loc(), 'Some(own) => own, None => parent guard')


def r3_fallback_tree(ctx):
    ctx.rule('C07.R3', 'P7: in ScopeBasedFallbackTree::new the parent index pushed for the children of a scope derives from the index of the node '
             'created for that scope (nodes.len()) when the scope has its own fallback — nested fallbacks form a tree, not a star.')
    b = ctx.need('C07.R3', 'ScopeBasedFallbackTree::new', ctx.fb.body('pavexc', UR + 'ScopeBasedFallbackTree::new'))
    if b is None:
        return
    defs = Defs(b)
    pushes = [(bb, t) for bb, t in b.calls() if callee(t) == 'alloc::vec::Vec::push' and '(' in t['aty'][1] and 'usize' in t['aty'][1] and bb in b.reachable(b.succ(bb))]
    if not ctx.need('C07.R3', 'stack.push((child, parent)) inside the loop', pushes):
        return
    for bb, t in pushes:
        pl = op_place(t['args'][1])
        sl, _ = backward_slice(b, pl['l'], defs)
        tup = [n for _, _, n in sl if 'rv' in n and n['rv']['k'] == 'agg' and n['rv'].get('ak') == 'tuple' and len(n['rv']['ops']) == 2]
        ok = False
        if tup:
            q = op_place(tup[0]['rv']['ops'][1])
            if q:
                s2, _ = backward_slice(b, q['l'], defs)
                ok = 'alloc::vec::Vec::len' in {c for c, _, _ in slice_calls(s2)}
        ctx.ob('C07.R3', 'children-under-new-node', ok, b.loc(bb, t), 'the parent index pushed with each child scope can be the freshly created node (nodes.len()): %s' % ok)


def r4_same_numbering(ctx):
    ctx.rule('C07.R4', 'P7/P9: every place where the code generator numbers domains (field names, init inserts, route_domain_<i> methods, dispatch arms) '
             'and paths obtains the index from `.enumerate()` applied directly to an iterator over the same BTreeMap / BiBTreeMap, with no '
             'reordering or filtering adaptor in between (sort, partition, rev, chain, filter, ...).')
    n = 0
    for b in ctx.fb.bodies('pavexc'):
        if b.is_promoted or not b.nroot.startswith(PX + 'codegen::router::'):
            continue
        defs = None
        for bb, t in b.calls():
            if callee(t) == 'core::iter::traits::iterator::Iterator::enumerate':
                defs = defs or Defs(b)
                pl = op_place(t['args'][0])
                sl, locs = backward_slice(b, pl['l'], defs)
                cs = [c for c, _, _ in slice_calls(sl) if c]
                bad = sorted({c.split('::')[-1] for c in cs if c.split('::')[-1] in REORDER})
                # in-place reordering of a collection the enumeration is taken from (`v.sort_by_key(..); v.iter().enumerate()`)
                for b2, t2 in b.calls():
                    m2 = (callee(t2) or '').split('::')[-1]
                    if m2 in INPLACE and t2['args']:
                        q2 = op_place(t2['args'][0])
                        if q2 is not None:
                            _, l2 = backward_slice(b, q2['l'], defs, through_calls=True)
                            if (l2 & locs) - {0}:
                                # only collections, not scalars: the shared local must be a Vec / slice / map
                                shared = [x for x in (l2 & locs) if any(k in b.locals[x] for k in ('Vec<', 'VecDeque<', '[', 'IndexMap', 'IndexSet'))]
                                if shared:
                                    bad.append(m2 + '(in place)')
                reads = field_reads_of_slice(sl)
                n += 1
                ctx.ob('C07.R4', 'enumerate|%s|%s' % (b.nroot.replace(PX + 'codegen::router::', ''), t['aty'][0].split('<')[0].split('::')[-1]), not bad, b.loc(bb, t),
                       'enumerate over %s (fields %s); reordering adaptors: %s' % (t['aty'][0][:60], sorted(reads)[:3], bad or 'none'))
            c = callee(t) or ''
            if c.split('::')[-1] in ('sort', 'sort_by', 'sort_by_key', 'sort_unstable_by_key', 'partition', 'reverse') and any('DomainGuard' in a or 'PathRouter' in a for a in t['aty']):
                ctx.ob('C07.R4', 'reorder|%s|%s' % (b.nroot.replace(PX + 'codegen::router::', ''), c.split('::')[-1]), False, b.loc(bb, t),
                       '%s applied to a collection of domains / path routers inside the router code generator' % c)
    ctx.floor('C07.R4', 'enumerations in the router code generator', n, 4)


def r5_default_fallback(ctx):
    ctx.rule('C07.R5', 'P1: pavex::router::default_fallback builds a 405 only on the path where the Allow header value was computed and inserts that '
             'header; otherwise it answers 404.')
    b = ctx.fb.body('pavex', 'pavex::router::fallback::default_fallback')
    if b is None:
        bs = [x for x in ctx.fb.bodies_of_item('pavex', 'pavex::router::fallback::default_fallback')]
        b = next((x for x in bs if x.is_coroutine), None)
    if ctx.need('C07.R5', 'default_fallback', b) is None:
        return
    bodies = ctx.fb.bodies_of_item('pavex', 'pavex::router::fallback::default_fallback')
    for x in bodies:
        m405 = [bb for bb, t in x.calls() if (callee(t) or '').endswith('Response::method_not_allowed')]
        hdr = [bb for bb, t in x.calls() if (callee(t) or '').endswith('AllowedMethods::allow_header_value')]
        ins = [bb for bb, t in x.calls() if (callee(t) or '').endswith('Response::insert_header') or (callee(t) or '').endswith('Response::append_header')]
        nf = [bb for bb, t in x.calls() if (callee(t) or '').endswith('Response::not_found')]
        if m405 or nf:
            ok = bool(m405) and bool(hdr) and bool(ins) and all(x.dominates(hdr[0], m) for m in m405) and any(m in x.reachable(x.succ(i)) or i in x.reachable(x.succ(m)) for m in m405 for i in ins) and bool(nf)
            ctx.ob('C07.R5', 'allow-with-405', ok, x.loc(), '405 is built after allow_header_value() (blocks %s -> %s) and gets the header (%s); 404 otherwise (%s)' % (hdr, m405, ins, nf))
            return
    ctx.need('C07.R5', 'method_not_allowed / not_found responses in default_fallback', None)


def r6_fallbacks_of_this_router(ctx):
    ctx.rule('C07.R6', 'P7: PathRouter::assign_fallbacks and check_method_not_allowed_fallbacks only look at the components of the router they are '
             'building: every loop of these functions iterates (a value derived from) the `component_ids` parameter, never a registry of the '
             'whole application (AuxiliaryData.*): with domain guards each domain has its own PathRouter and must not receive the prefixed '
             'fallbacks of the others.')
    NEXT = 'core::iter::traits::iterator::Iterator::next'
    n = 0
    for fn in ('assign_fallbacks', 'check_method_not_allowed_fallbacks'):
        b = ctx.need('C07.R6', fn, ctx.fb.body('pavexc', UR + 'PathRouter::' + fn))
        if b is None:
            continue
        defs = Defs(b)
        ids_params = {i for i in range(1, b.raw['argc'] + 1) if 'Idx<' in b.locals[i] and ('[' in b.locals[i] or 'Vec' in b.locals[i])}
        if not ctx.need('C07.R6', 'component_ids parameter of ' + fn, ids_params):
            continue
        heads = [(bb, t) for bb, t in b.calls() if callee(t) == NEXT and bb in b.reachable(b.succ(bb))]
        for k, (bb, t) in enumerate(sorted(heads, key=lambda x: x[0])):
            pl = op_place(t['args'][0])
            _, locs = backward_slice(b, pl['l'], defs) if pl else ([], set())
            params = {x for x in locs if 1 <= x <= b.raw['argc']}
            n += 1
            # a loop over a collection built locally (from the previous loop) has no parameter in its provenance
            ok = bool(params & ids_params) or not params
            ctx.ob('C07.R6', 'iterates-own-components|%s|loop#%d' % (fn, k + 1), ok, b.loc(bb, t),
                   'loop #%d of %s iterates a value derived from parameter(s) %s (component_ids is parameter %s)' % (
                       k + 1, fn, sorted(b.var_name(x) or x for x in params), sorted(ids_params)))
    ctx.floor('C07.R6', 'loops in the fallback assignment functions', n, 2)


def r7_method_arms(ctx):
    from ..quote import chains
    ctx.rule('C07.R7', 'P2 (template read from MIR): in codegen::router::path_router the match arm for the well-known methods of a handler '
             '(`&Method::X | .. => invocation`) and the arm for its custom methods (`s if s.as_str() == ".." => invocation`) are emitted '
             'independently: within one iteration over the handlers the custom arm is reachable after the well-known arm (a handler registered '
             'for ["GET", "PURGE"] gets both; an if/else would drop one).')
    b = ctx.need('C07.R7', 'codegen::router::path_router', ctx.fb.body('pavexc', PX + 'codegen::router::path_router'))
    if b is None:
        return
    from ..inline import inlined
    b = inlined(ctx.fb, b)         # the per-handler arms may be produced by a private helper of the function
    NEXT = 'core::iter::traits::iterator::Iterator::next'
    heads = [bb for bb, t in b.calls() if callee(t) == NEXT and bb in b.reachable(b.succ(bb))]
    chs = [(min(bb for bb, _ in ch), max(bb for bb, _ in ch), [t for _, t in ch]) for ch in chains(b)]
    chs.sort()
    # the per-handler templates are the ones emitted inside the loop over the handlers
    chs = [c for c in chs if c[0] in b.reachable(b.succ(c[0]))]
    wk_end = cu_start = None
    for i, (lo, hi, toks) in enumerate(chs):
        flat = [(t[0], str(t[1])) for t in toks]
        if cu_start is None and ('ident', 's') in flat and ('ident', 'if') in flat:
            cu_start = lo
        if wk_end is None and ('punct', '&') in flat and not any(k == 'ident' and v in ('self', 'request', 'ApplicationState', 'match') for k, v in flat):
            # the `=>` chain that follows closes the well-known arm
            for lo2, hi2, toks2 in chs[i + 1:]:
                if any(t[0] == 'punct' and str(t[1]) == '=>' for t in toks2):
                    wk_end = hi2
                    break
    if ctx.need('C07.R7', 'well-known-methods arm template', wk_end) is None or ctx.need('C07.R7', 'custom-methods arm template', cu_start) is None:
        return
    ok = cu_start in b.reachable(b.succ(wk_end), avoid=heads)
    ctx.ob('C07.R7', 'both-arms-per-handler', ok, b.loc(cu_start),
           'the custom-methods arm (bb%d) is reachable after the well-known-methods arm (bb%d) without starting the next handler: %s' % (cu_start, wk_end, ok))


def r8_allow_list_reaches_the_fallback(ctx):
    ctx.rule('C07.R8', 'P3 who-may-construct (expected count 0, positive control: AllowedMethods::Some): the runtime never builds '
             '`AllowedMethods::All` — the generated router hands the list of registered methods to the fallback through '
             '`MethodAllowList -> AllowedMethods`, and the default fallback answers 405 + `Allow` only when it receives that list (C07.R5); '
             'a conversion that collapses a "complete" list into All turns a method mismatch into a 404.')
    AM = 'pavex::router::allowed_methods::AllowedMethods'
    n_all, n_some = [], 0
    for b in ctx.fb.bodies('pavex'):
        if b.is_promoted or b.raw.get('exp'):
            continue
        for bb, j, st in b.all_assigns():
            rv = st['rv']
            if rv['k'] == 'agg' and rv.get('ak') == 'adt' and strip_generics(rv['adt']) == AM:
                if rv['var'] == 'All':
                    n_all.append(b.loc(bb, st))
                elif rv['var'] == 'Some':
                    n_some += 1
    ctx.floor('C07.R8', 'constructions of AllowedMethods::Some in pavex (positive control)', n_some, 1)
    ctx.ob('C07.R8', 'all-is-never-constructed', not n_all, n_all[0] if n_all else '', 'AllowedMethods::All is constructed %d time(s) in the runtime' % len(n_all))


def r9_innermost_fallback_on_method_mismatch(ctx):
    ctx.rule('C07.R9', 'P7/P1: in PathRouter::assign_fallbacks the fallback recorded for a handler (used when the path matches and the method does '
             'not) is the scope-based one — the fallback of the innermost blueprint around the route: every value inserted into the '
             'handler -> fallback map derives from ScopeBasedFallbackTree::find_fallback_id, or, if it is the path-based candidate, the '
             'insertion is unreachable from the "they differ" outcome of the comparison between the two.')
    b = ctx.need('C07.R9', 'PathRouter::assign_fallbacks', ctx.fb.body('pavexc', UR + 'PathRouter::assign_fallbacks'))
    if b is None:
        return
    defs = Defs(b)
    FIND = UR + 'ScopeBasedFallbackTree::find_fallback_id'
    ins = [(bb, t) for bb, t in b.calls() if (callee(t) or '').endswith('BTreeMap::insert') and len(t['aty']) == 3
           and t['aty'][1] == t['aty'][2] and 'Idx<' in t['aty'][1]]
    if not ctx.need('C07.R9', 'insertions into the handler -> fallback map', ins):
        return
    cmps = []
    for bb, t in b.calls():
        if callee(t) in ('core::cmp::PartialEq::ne', 'core::cmp::PartialEq::eq') and 'Idx<' in t['aty'][0]:
            srcs = []
            for a in t['args']:
                pl = op_place(a)
                sl, _ = backward_slice(b, pl['l'], defs) if pl else ([], set())
                srcs.append({c for c, _, _ in slice_calls(sl)})
            if any(FIND in x for x in srcs) and any(FIND not in x for x in srcs):
                der = forward_derived(b, {t['dest']['l']})
                for sb in b.live_blocks():
                    w = b.term(sb)
                    if w and w['k'] == 'switch' and 'enum' not in w and op_place(w['d']) is not None and op_place(w['d'])['l'] in der:
                        zero = [tg for v, tg in w['ts'] if v == '0']
                        if zero:
                            differ = w['else'] if callee(t).endswith('ne') else zero[0]
                            cmps.append((sb, differ))
    for k, (bb, t) in enumerate(sorted(ins, key=lambda x: x[0])):
        pl = op_place(t['args'][2])
        sl, _ = backward_slice(b, pl['l'], defs) if pl else ([], set())
        scope_based = FIND in {c for c, _, _ in slice_calls(sl)}
        ok = scope_based or (bool(cmps) and all(bb not in b.reachable(differ, avoid=[sb]) for sb, differ in cmps))
        ctx.ob('C07.R9', 'fallback-of-handler|insert#%d' % (k + 1), ok, b.loc(bb, t),
               'the fallback recorded for the handler %s' % ('is the scope-based one' if scope_based else
                                                             ('is the path-based candidate, recorded only when it equals the scope-based one' if ok else
                                                              'is the PATH-based candidate and can be recorded although the scope-based one differs')))


def r10_any_guard_only_on_request(ctx):
    ctx.rule('C07.R10', 'P11 case evaluation of the attribute reader (`impl From<RouteProperties> for AnnotationProperties`, the function that turns '
             '`#[diagnostic::pavex::route(..)]` into the MethodGuard the router is built from), for a route without an explicit method list and '
             'every value of `allow_non_standard_methods` (Some(true) / Some(false) / absent): MethodGuard::Any — "every method reaches the '
             'handler, there is no 405" — is produced exactly when the flag is Some(true); absent means the nine standard methods (the macro '
             'writes the key only when it is true).')
    from ..absint_std import StdSem, TagInterp
    AP = 'pavexc_attr_parser'
    cands = [b for b in ctx.fb.bodies(AP) if not b.is_promoted and b.nid == b.nroot and 'core::convert::From' in b.nid and 'RouteProperties' in b.id
             and b.nid.endswith('::from') and 'AnnotationProperties' in b.nid]
    b = ctx.need('C07.R10', 'impl From<RouteProperties> for AnnotationProperties', cands[0] if len(cands) == 1 else None)
    if b is None:
        return
    from ..inline import inlined
    b = inlined(ctx.fb, b, crate=AP)          # the decision may sit in a private helper that is handed the two flags
    defs = Defs(b)

    def promoted_option_bool(body, op):
        pl = op_place(op)
        sl, _ = backward_slice(body, pl['l'], defs, through_calls=False) if pl else ([], set())
        for _, _, n in sl:
            rv = n.get('rv')
            o = rv.get('op') if rv and rv['k'] == 'use' else None
            if o and o.get('promoted') is not None:
                pid = '%s::{promoted#%d}' % (o.get('powner') or body.id, int(o['promoted']))
                for x in ctx.fb.bodies(AP):
                    if x.id == pid:
                        for _, _, st in x.all_assigns():
                            r2 = st['rv']
                            if r2['k'] == 'agg' and strip_generics(r2.get('adt', '')) == 'core::option::Option':
                                return (r2['var'], (r2['ops'][0].get('int') != '0') if r2.get('ops') else None)
        return None

    def field_of(body, op):
        pl = op_place(op)
        sl, _ = backward_slice(body, pl['l'], defs, through_calls=False) if pl else ([], set())
        for _, _, n in sl:
            rv = n.get('rv')
            q = rv.get('pl') if rv and rv['k'] == 'ref' else (op_place(rv['op']) if rv and rv['k'] == 'use' else None)
            for e in (q or {}).get('p', []):
                if e in ('f:allow_any_method', 'f:allow_non_standard_methods'):
                    return e[2:]
        return None

    class Sem(StdSem):
        crate = AP

        def __init__(self, fb, vals):
            super().__init__(fb)
            self.vals, self.tests = vals, 0

        def domain_call(self, interp, path, body, bb, term, short):
            d = term.get('dest')
            if short in ('core::cmp::PartialEq::eq', 'core::cmp::PartialEq::ne') and term['aty'] and 'Option<bool>' in term['aty'][0] and d is not None and body is b:
                f, c = field_of(body, term['args'][0]), promoted_option_bool(body, term['args'][1])
                if f is None or c is None:
                    return None
                self.tests += 1
                dk = (body.id, d['l'])
                path.alias.pop(dk, None)
                path.tags.pop(dk, None)
                eq = self.vals[f] == c
                path.memo[dk] = eq if short.endswith('eq') else not eq
                return [('next', path)]
            return None

        def domain_switch(self, interp, path, body, bb, term, enum):
            src = term.get('src') or {}
            if enum == 'core::option::Option' and body is b:
                direct = 'f:method' in (src.get('p') or [])
                if not direct and src.get('l') is not None:
                    sl, _ = backward_slice(body, src['l'], defs, through_calls=False)
                    for _, _, n in sl:
                        rv = n.get('rv')
                        q = rv.get('pl') if rv and rv['k'] == 'ref' else (op_place(rv['op']) if rv and rv['k'] == 'use' else None)
                        direct = direct or 'f:method' in ((q or {}).get('p') or [])
                if direct:
                    return ['None']             # the route has no explicit method list
            return None

        def domain_assign(self, interp, path, body, bb, st):
            rv = st['rv']
            if rv['k'] == 'agg' and strip_generics(rv.get('adt', '')).endswith('::MethodGuard'):
                path.env['guard'] = rv['var']
            return None

    got, tests = {}, 0
    for name, v in (('Some(true)', ('Some', True)), ('Some(false)', ('Some', False)), ('absent', ('None', None))):
        sem = Sem(ctx.fb, {'allow_any_method': ('Some', True), 'allow_non_standard_methods': v})
        try:
            outs = TagInterp(sem, max_paths=3000).run(b, {})
        except RuntimeError:
            outs = []
        tests += sem.tests
        got[name] = sorted({oc[1].env.get('guard', '?') for oc in outs if oc[0] == 'return'})
    want = {'Some(true)': ['Any'], 'Some(false)': ['Some'], 'absent': ['Some']}
    ctx.ob('C07.R10', 'any-guard-only-on-request', tests > 0 and got == want, b.loc(),
           'MethodGuard built for `allow(any_method)` and allow_non_standard_methods = %s (documented: %s)' % (got, want))


def r11_common_ancestor_covers_every_scope(ctx):
    ctx.rule('C07.R11', 'P1 must-pass-through: the root fallback of a (per-domain) router is looked up from `ScopeGraph::find_common_ancestor` of the '
             'scopes of its routes, so the answer must be an ancestor of ALL of them. In that function a scope is finished with only once the '
             'candidate covers it: from the "no path from the candidate to this scope" edge of the reachability test, every path to the '
             'acquisition of the next scope (`pop` / `next` on the list of scopes) passes through the test again for the same scope, i.e. '
             'through a re-queue of that scope (`push` of the value that was popped) or through the "covered" edge. A loop that widens the '
             'candidate once and moves on returns a scope that is too deep, and an unmatched request is answered by a nested sibling\'s fallback.')
    b = None
    for x in ctx.fb.bodies('pavexc'):
        if not x.is_promoted and x.nid == x.nroot and x.nid.endswith('scope_graph::ScopeGraph::find_common_ancestor'):
            b = x
    if not ctx.need('C07.R11', 'ScopeGraph::find_common_ancestor', b):
        return
    from ..inline import inlined
    b = inlined(ctx.fb, b)
    defs = Defs(b)
    tests = [(bb, t) for bb, t in b.calls() if (callee(t) or '').split('::')[-1] in ('has_path_connecting', 'is_descendant_of', 'is_ancestor_of')]
    acq = [(bb, t) for bb, t in b.calls() if (callee(t) or '').split('::')[-1] in ('pop', 'pop_front', 'pop_back', 'next') and t.get('aty') and 'ScopeId' in t['aty'][0]]
    if not ctx.need('C07.R11', 'reachability test in find_common_ancestor', tests) or not ctx.need('C07.R11', 'acquisition of the next scope in find_common_ancestor', acq):
        return
    acq_bbs = {bb for bb, _ in acq}
    n = 0
    for hb, ht in tests:
        # the switch on the result of the test
        sw = None
        d = ht['dest']['l']
        derived = forward_derived(b, {d}, defs, through_calls=True)
        for sb in sorted(b.reachable(ht['target'] if 'target' in ht else b.succ(hb)[0])) if False else sorted(b.live_blocks()):
            t = b.term(sb)
            if t and t['k'] == 'switch' and op_place(t['d']) is not None and op_place(t['d'])['l'] in derived and b.dominates(hb, sb):
                sw = sb
                break
        if sw is None:
            ctx.ob('C07.R11', 'scope-stays-until-covered|#%d' % (n + 1), False, b.loc(hb, ht), 'the result of the reachability test is not branched on in a recognisable way')
            continue
        n += 1
        # which successor is "covered"? the one that can reach an acquisition without any further call that changes the candidate;
        # decided structurally: the uncovered successor is the one from which the climbing call (neighbors_directed / parent lookup) is reachable before any acquisition
        succs = b.succ(sw)
        climbs = {bb for bb, t in b.calls() if (callee(t) or '').split('::')[-1] in ('neighbors_directed', 'direct_parent_ids', 'parent', 'parents', 'neighbors')}
        unc = [s for s in succs if climbs & b.reachable(s, avoid=acq_bbs | {hb})]
        cov = [s for s in succs if s not in unc]
        if len(unc) != 1 or not cov:
            ctx.ob('C07.R11', 'scope-stays-until-covered|#%d' % n, False, b.loc(sw), 'cannot tell the covered edge from the uncovered one (%d/%d)' % (len(cov), len(unc)))
            continue
        pushes = set()
        for bb, t in b.calls():
            if (callee(t) or '').split('::')[-1] in ('push', 'push_back', 'push_front', 'insert') and t.get('aty') and 'ScopeId' in t['aty'][0]:
                val = op_place(t['args'][-1])
                if val is not None:
                    sl, _ = backward_slice(b, val['l'], defs, through_calls=False)
                    if any(node.get('k') == 'call' and id(node) in {id(a[1]) for a in acq} for _, _, node in sl):
                        pushes.add(bb)
        escaped = b.reachable(unc[0], avoid=pushes | {hb}) & acq_bbs
        ctx.ob('C07.R11', 'scope-stays-until-covered|#%d' % n, not escaped, b.loc(sorted(escaped)[0]) if escaped else b.loc(sw),
               'from the uncovered edge every path to the next scope re-queues this scope or re-tests it: %s (re-queue sites: %d)' % (not escaped, len(pushes)))
    ctx.floor('C07.R11', 'reachability tests in find_common_ancestor', n, 1)


def r12_guard_and_host_are_normalised_alike(ctx):
    ctx.rule('C07.R12', 'shared with C20.R3: a request reaches the router of a domain only if its Host header, as normalised by the GENERATED code, matches the '
             'pattern the compiler derived from the guard: the guard side (constructor and pattern) and the generated host side apply the same classes '
             'of normalisation. A guard lower-cased at compile time while the host is matched as sent sends `Host: Admin.company.com` to the root '
             'fallback, or to a `{tenant}.company.com` sibling.')
    from .c20 import r3_normalisation_agreement
    from ..engine import Ctx
    side = Ctx(ctx.prop, ctx.fb, ctx.tier)
    r3_normalisation_agreement(side)
    for ob in side.obs:
        ctx.ob('C07.R12', ob.key, ob.ok, ob.loc, ob.detail, ob.nontrivial)


def r13_every_listed_module_is_imported(ctx):
    ctx.rule('C07.R13', 'shared with C04.R6: `bp.routes(from![a, b])` registers the routes of every listed module — in `resolve_imports` whether a source is recorded '
             'depends on the shape of the input only, never on a comparison with another source ("already covered by .."): a module that is dropped there has '
             'no request handlers at all, and its requests are answered by the fallback.')
    from .c04 import r6_every_import_resolved
    from ..engine import Ctx
    side = Ctx(ctx.prop, ctx.fb, ctx.tier)
    r6_every_import_resolved(side)
    for ob in side.obs:
        ctx.ob('C07.R13', ob.key, ob.ok, ob.loc, ob.detail, ob.nontrivial)


def check(ctx):
    r13_every_listed_module_is_imported(ctx)
    r1_detectors_gate(ctx)
    r2_nesting(ctx)
    r3_fallback_tree(ctx)
    r4_same_numbering(ctx)
    r5_default_fallback(ctx)
    r6_fallbacks_of_this_router(ctx)
    r7_method_arms(ctx)
    r8_allow_list_reaches_the_fallback(ctx)
    r9_innermost_fallback_on_method_mismatch(ctx)
    r10_any_guard_only_on_request(ctx)
    r11_common_ancestor_covers_every_scope(ctx)
    r12_guard_and_host_are_normalised_alike(ctx)


CLAUSE += ' Also: every module listed in routes(from![..]) is imported (shared C04.R6).'
