#!/usr/bin/env bash
# Builds the verification machinery offline and warms the dependency cache of the analysis target dir.
set -euo pipefail
cd "$(dirname "$0")"
export CARGO_NET_OFFLINE=true
( cd engine/facts && cargo +nightly build --offline --release 2>&1 | tail -3 )
# warm: one extraction of the current tree (also proves the whole pipeline works)
python3 -c 'from pvx.engine import ensure_facts; print(ensure_facts()[1])'
