"""C10 — Code generation is deterministic, cache-independent and idempotent.

Decided clauses: R1 hash-order audit of everything reachable from build / codegen / persist; R2 a single guarded file
writer; R3 check-mode purity (every write goes through the AppWriter, whose check arm writes nothing and uses the same
change predicate); R4 the documentation cache reads back exactly the key columns it writes; R5 parallel collection keeps
order. Byte equality across runs is not decided.
"""
import re

from ..facts import callee, callee_resolved, op_place, strip_generics
from ..flow import Defs, backward_slice, slice_calls, forward_derived, slice_strs
from ..tables import guard_context, enum_switches, switch_edges
from .compiler_common import PX, cg

LEVEL = 'other'
TECHNIQUE = 'static analysis: hash-iteration audit with order-insensitive-consumer inference and a reviewed table keyed by function family, who-may-write the file system (family), case evaluation of persist_if_changed (Ok(false)/Ok(true)/Err), SQL/cache-key table agreement, hashing covers what was read'
CLAUSE = ('every iteration over a randomly-seeded hash container reachable from App::build/codegen/diagnostic_representation/persist is '
          'consumed order-insensitively or is in the reviewed table; all file mutation is confined to persist_if_changed (open-for-write '
          'only on the has-changed branch); every write of the generator goes through AppWriter, whose check arm reaches no writer and uses '
          'the same change predicate; the third-party doc cache filters its SELECT on exactly the columns of its primary key / INSERT; '
          'rayon pipelines end in order-preserving collects. Hash-order audit of the documentation layer with a reviewed table; Crate::get_item_id_by_path leaves the loop over the re-exports early only with the item found.')
TRUSTED = ['BTreeMap/BTreeSet/sorted iteration is deterministic; FxHash has a fixed seed', 'rayon indexed collect preserves order', 'SQLite compares the bound key columns exactly']

ROOTS = {PX + 'app::App::build', PX + 'app::App::codegen', PX + 'app::App::diagnostic_representation',
         PX + 'generated_app::GeneratedApp::persist', PX + 'app::AppDiagnostics::persist_flat'}
ORDER_METHODS = {'iter', 'iter_mut', 'into_iter', 'keys', 'values', 'values_mut', 'drain', 'into_keys', 'into_values', 'left_values', 'right_values'}
RANDOM_PREFIXES = ('std::collections::hash::map::HashMap<', 'std::collections::hash::set::HashSet<', 'bimap::hash::BiHashMap<',
                   'hashbrown::map::HashMap<', 'hashbrown::set::HashSet<')
INSENSITIVE_TERMINALS = {'any', 'all', 'count', 'sum', 'min', 'max', 'len', 'is_empty', 'contains', 'contains_key', 'sorted', 'sorted_by', 'sorted_by_key',
                         'sorted_unstable', 'sorted_unstable_by_key', 'min_by_key', 'max_by_key'}
ADAPTORS = {'map', 'filter', 'filter_map', 'chain', 'cloned', 'copied', 'into_iter', 'iter', 'flat_map', 'flatten', 'zip', 'enumerate', 'rev', 'peekable',
            'by_ref', 'inspect', 'map_while', 'take_while', 'skip_while', 'quote_into_iter', 'bitor', 'check', 'deref', 'as_ref', 'borrow', 'clone', 'to_owned'}
ORDERED_COLLECT = ('alloc::collections::btree::', 'std::collections::hash::', 'bimap::hash::', 'bimap::btree::', 'hashbrown::')

# Reviewed sites: (function suffix, method) -> reason. A site not auto-discharged and not listed here is a violation.
REVIEWED = {
    ('components::db::ComponentDb::bind_generic_type_parameters', 'into_iter'): 'loop body only inserts into another HashMap (a set of bindings)',
    ('constructibles::ConstructibleDb::verify_singleton_ambiguity', 'iter'): 'loop body only fills a HashMap keyed by type',
    ('constructibles::ConstructibleDb::verify_singleton_ambiguity', 'into_iter'): 'emits one diagnostic per ambiguous type: diagnostic order only, never reaches generated files',
    ('constructibles::ConstructiblesInScope::get_or_try_bind', 'into_iter'): 'formats the bindings inside an assertion message (panic text only)',
    ('error_handlers::ErrorHandlersInScope::get_or_try_bind', 'into_iter'): 'formats the bindings inside an assertion message (panic text only)',
    ('framework_items::FrameworkItemDb::iter', 'iter'): 'hands out (id, type) pairs: callers intern one component per framework item or test membership; ids come from the item table, not from the visit order',
    ('processing_pipeline::codegen::CodegenedRequestHandlerPipeline::entrypoint_invocation', 'iter'): '`find` with a predicate on the (unique) type of a bijective map, or `fold` into a panic message',
    ('processing_pipeline::pipeline::RequestHandlerPipeline::new', 'into_iter'): 'loop bodies insert into sets/maps that are only queried by key (prebuilt_ids.contains, type2cloning_indexes.get) or build a debug message',
    ('processing_pipeline::pipeline::RequestHandlerPipeline::enforce_invariants', 'into_iter'): 'panic / debug output only',
    ('user_components::annotations::register_imported_components', 'iter'): '`find`/`any` with a predicate that identifies one re-exported item',
    ('codegen::collect_package_ids', 'right_values'): 'loop body only inserts package ids into a set',
    ('codegen::collect_package_ids', 'into_iter'): 'loop body only inserts package ids into a set',
    ('codegen::collect_package_ids', 'values'): 'loop body only inserts package ids into a set',
    ('codegen_utils::codegen_call', 'keys'): 'formats the bound types inside a panic message',
    ('codegen_utils::codegen_call', 'into_iter'): 'formats the bound types inside a panic message',
    ('call_graph::borrow_checker::assign_order::{impl analyses::call_graph::borrow_checker::ordered_call_graph::OrderedCallGraph}::order', 'iter'): 'sorted_by_key(position) right after',
}


# number of order-sensitive sites reviewed per key (a further site under the same key is a new, unreviewed one)
REVIEWED_COUNT = {
    ('processing_pipeline::codegen::CodegenedRequestHandlerPipeline::entrypoint_invocation', 'iter'): 5,
    ('processing_pipeline::pipeline::RequestHandlerPipeline::new', 'into_iter'): 3,
    ('codegen::collect_package_ids', 'right_values'): 2,
    ('codegen_utils::codegen_call', 'keys'): 2,
}


REVIEWED_FN, REVIEWED_FN_COUNT = {}, {}
for (_f, _m), _r in REVIEWED.items():
    REVIEWED_FN[_f] = (REVIEWED_FN[_f] + '; ' + _r) if _f in REVIEWED_FN and _r not in REVIEWED_FN[_f] else REVIEWED_FN.get(_f, _r)
    REVIEWED_FN_COUNT[_f] = REVIEWED_FN_COUNT.get(_f, 0) + REVIEWED_COUNT.get((_f, _m), 1)


def _is_random(ty):
    t = ty.lstrip('&').replace('mut ', '')
    if 'FxBuildHasher' in t or 'FxHasher' in t or 'BuildHasherDefault<rustc_hash' in t:
        return False
    return t.startswith(RANDOM_PREFIXES)


def _consumers(b, t):
    """terminal consumers of the iterator produced by call t (method names / collect targets)"""
    der = forward_derived(b, {t['dest']['l']}, through_calls=False)
    terminals = []
    work = [t['dest']['l']]
    seen_locals = set()
    seen_calls = set()
    while work:
        l = work.pop()
        if l in seen_locals:
            continue
        seen_locals.add(l)
        dl = forward_derived(b, {l})
        for bb2, t2 in b.calls():
            if id(t2) in seen_calls or t2 is t:
                continue
            if any(op_place(a) and op_place(a)['l'] in dl for a in t2['args']):
                seen_calls.add(id(t2))
                c = callee(t2) or '?'
                m = c.split('::')[-1]
                if m in ADAPTORS and not t2['dest'].get('p'):
                    work.append(t2['dest']['l'])
                elif m == 'collect' or m == 'from_iter' or m == 'extend':
                    tgt = (t2.get('ga') or ['?'])[-1]
                    terminals.append(('collect', tgt))
                else:
                    terminals.append((m, c))
    return terminals


from .compiler_common import family_items


def r1_hash_order(ctx):
    ctx.rule('C10.R1', 'P3+P4+P7 hash-order audit: every call of an order-exposing method (iter, into_iter, keys, values, drain, left/right_values, '
             'for-loops) on a randomly seeded HashMap/HashSet/BiHashMap in pavexc bodies reachable from App::build, App::codegen, '
             'App::diagnostic_representation, GeneratedApp::persist. Auto-discharged when every terminal consumer of the iterator is order '
             'insensitive (collect into BTree*/Hash* containers, any/all/count/sum/min/max, sorted*); otherwise the site must be in the reviewed '
             'table (function, method -> reason). FxHash containers are exempt (fixed seed).')
    g, _ = cg(ctx)
    reach = g.reachable(ROOTS)
    n = auto = 0
    reviewed_seen = {}
    for b in ctx.fb.bodies('pavexc'):
        if b.is_promoted or b.nroot not in reach:
            continue
        for bb, t in b.calls():
            c = callee(t) or ''
            m = c.split('::')[-1]
            if m not in ORDER_METHODS or not t['aty'] or not _is_random(t['aty'][0]):
                continue
            n += 1
            terms = _consumers(b, t)
            sens = []
            for kind, what in terms:
                if kind == 'collect':
                    if not strip_generics(what).lstrip('&').startswith(ORDERED_COLLECT) and not what.startswith(ORDERED_COLLECT):
                        sens.append('collect<%s>' % what[:50])
                elif kind not in INSENSITIVE_TERMINALS:
                    sens.append(kind)
            fn = b.nroot.replace(PX, '').replace('analyses::', '')
            recv = t['aty'][0].lstrip('&').split('<')[0].split('::')[-1]
            if terms and not sens:
                auto += 1
                ctx.ob('C10.R1', 'site|%s|%s|%s' % (fn, m, recv), True, b.loc(bb, t),
                       'iteration over %s consumed only by order-insensitive sinks %s' % (recv, sorted({k if k != 'collect' else 'collect<' + w.split('<')[0].split('::')[-1] + '>' for k, w in terms})))
            else:
                # the review is of what the function does with the visit order, whichever order-exposing method it spells and whichever private
                # helper of it the loop now lives in
                key = fn
                if key not in REVIEWED_FN:
                    for r in REVIEWED_FN:
                        full = [x.nroot for x in ctx.fb.bodies('pavexc') if not x.is_promoted and x.nroot.replace(PX, '').replace('analyses::', '') == r][:1]
                        if full and b.nroot in family_items(ctx, 'pavexc', full):
                            key = r
                            break
                reason = REVIEWED_FN.get(key)
                if reason is not None:
                    reviewed_seen[key] = reviewed_seen.get(key, 0) + 1
                ctx.ob('C10.R1', 'site|%s|%s|%s' % (fn, m, recv), reason is not None, b.loc(bb, t),
                       'iteration over a randomly seeded %s flows into order-sensitive consumer(s) %s: %s' % (
                           recv, sorted(set(sens))[:5] or '(escapes the function)', ('reviewed — ' + reason) if reason else
                           'NOT REVIEWED: the order of a random-seeded hash container can reach the generated output'))
    for key, cnt in sorted(reviewed_seen.items()):
        lim = REVIEWED_FN_COUNT.get(key, 1)
        ctx.ob('C10.R1', 'reviewed-count|%s' % key, cnt <= lim, '', '%d order-sensitive site(s) in %s (and its private helpers), %d reviewed' % (cnt, key, lim),
               nontrivial=False)
    ctx.count('hash_iteration_sites', n)
    ctx.count('auto_discharged', auto)
    ctx.floor('C10.R1', 'hash iteration sites in the generator\'s reach', n, 20)


FS_MUT = re.compile(r'^(fs_err|std::fs)::(write|copy|rename|remove_file|remove_dir|remove_dir_all|create_dir|create_dir_all|hard_link|set_permissions)$|'
                    r'^(fs_err|std::fs)::(file::)?File::(create|create_new)$|^(fs_err|std::fs)::(open_options::)?OpenOptions::(write|append|truncate|create|create_new)$|'
                    r'^std::io::Write::write_all$|^std::io::Write::write$')
PIC = 'persist_if_changed::'


def r2_single_writer(ctx):
    ctx.rule('C10.R2', 'P3/P1: in pavexc, the `generate` path of pavexc_cli and persist_if_changed, file-system mutation happens only inside '
             'persist_if_changed::{persist_if_changed, copy_if_changed} (plus create_dir_all for directories); in persist_if_changed the open '
             'for writing is reachable only on the has-changed branch, so an unchanged file keeps its mtime.')
    n = 0
    # the writers and the private helpers they were split into (functions of the crate all of whose callers are in the family)
    writers = {PIC + 'persist_if_changed', PIC + 'copy_if_changed'}
    callers = {}
    for b in ctx.fb.bodies('persist_if_changed'):
        if not b.is_promoted:
            for bb, t in b.calls():
                c = callee(t) or ''
                if c.startswith('persist_if_changed::') and c != b.nroot:
                    callers.setdefault(c, set()).add(b.nroot)
    fam = set(writers)
    changed = True
    while changed:
        changed = False
        for h, cs in callers.items():
            if h not in fam and cs and cs <= fam:
                fam.add(h)
                changed = True
    for crate, ctype in (('pavexc', 'Rlib'), ('pavexc', 'Executable'), ('persist_if_changed', 'Rlib')):
        if (crate, ctype) not in ctx.fb.available():
            ctx.need('C10.R2', 'facts for %s/%s' % (crate, ctype), None)
            continue
        for b in ctx.fb.bodies(crate, ctype):
            if b.is_promoted:
                continue
            for bb, t in b.calls():
                c = callee(t) or ''
                if not FS_MUT.match(c):
                    continue
                if c.startswith('std::io::Write::') and not any(('fs_err::file::File' in a or 'std::fs::File' in a) for a in t['aty'][:1]):
                    continue
                n += 1
                ok = b.nroot in fam or c.endswith('create_dir_all')
                # the CLI has other sub-commands; only `generate` matters here, but no other writer exists today
                ctx.ob('C10.R2', 'fs-mutation|%s|%s' % (b.nroot.replace(PX, ''), c.split('::')[-1]), ok, b.loc(bb, t),
                       '%s in %s%s' % (c, b.nroot, '' if b.nroot in writers or not ok else ' (private helper of the writers)'))
    ctx.floor('C10.R2', 'file-system mutation sites (positive control)', n, 4)
    p = ctx.need('C10.R2', 'persist_if_changed', ctx.fb.body('persist_if_changed', PIC + 'persist_if_changed'))
    if p is not None:
        # P11 case evaluation: the writer is interpreted for every outcome of the comparison (Ok(false) / Ok(true) / Err); a file-system
        # mutation (in the function or in a helper of its family) is reached iff the outcome is not Ok(false)
        from ..absint_std import StdSem, TagInterp
        CMP = (PIC + 'has_changed_file2buffer', PIC + 'has_changed_file2file')

        class Sem(StdSem):
            crate = 'persist_if_changed'

            def __init__(self, fb, tag, pay):
                super().__init__(fb)
                self.tag, self.payv, self.cmp, self.wrote = tag, pay, 0, False

            def domain_call(self, interp, path, body, bb, term, short):
                d = term.get('dest')
                dk = (body.id, d['l']) if d is not None and not d.get('p') else None
                if short in CMP and dk is not None:
                    self.cmp += 1
                    path.alias.pop(dk, None)
                    path.memo.pop(dk, None)
                    path.tags[dk] = self.tag
                    path.pay.pop(dk, None)
                    if self.payv is not None:
                        path.pay[dk] = self.payv
                    return [('next', path)]
                if FS_MUT.match(short):
                    self.wrote = True
                return None

            def descend_into(self, short):
                return short in fam and short not in CMP

        got = {}
        ncmp = 0
        for name, tag, pay in (('Ok(false)', 'res:Ok', False), ('Ok(true)', 'res:Ok', True), ('Err', 'res:Err', None)):
            sem = Sem(ctx.fb, tag, pay)
            TagInterp(sem).run(p, {})
            got[name] = sem.wrote
            ncmp += sem.cmp
        ctx.ob('C10.R2', 'write-only-if-changed', ncmp > 0 and got == {'Ok(false)': False, 'Ok(true)': True, 'Err': True}, p.loc(),
               'persist_if_changed interpreted for each outcome of has_changed_file2buffer: a file-system mutation is reached under %s '
               '(required: never when the content is unchanged, always when it differs or cannot be compared)' % got)


def r3_check_mode(ctx):
    ctx.rule('C10.R3', 'P3/P6: everything the generator persists goes through AppWriter::persist_if_changed (no direct call of '
             'persist_if_changed::* from pavexc outside AppWriter); in AppWriter the CheckOnly arm reaches no writer and evaluates '
             'has_changed_file2buffer on the same (path, content); verify() fails iff something was recorded as outdated.')
    AW = 'pavexc::persistence::AppWriter::'
    n = 0
    for crate, ctype in (('pavexc', 'Rlib'), ('pavexc', 'Executable')):
        for b in ctx.fb.bodies(crate, ctype):
            if b.is_promoted:
                continue
            for bb, t in b.calls():
                c = callee(t) or ''
                if c in (PIC + 'persist_if_changed', PIC + 'copy_if_changed'):
                    n += 1
                    ok = b.nroot == AW + 'persist_if_changed'
                    ctx.ob('C10.R3', 'direct-writer|%s' % b.nroot.replace(PX, ''), ok, b.loc(bb, t),
                           '%s called from %s%s' % (c, b.nroot, '' if ok else ': this write happens in --check mode too and is not recorded as outdated'))
    ctx.floor('C10.R3', 'calls of the raw writer in pavexc (positive control)', n, 1)
    w = ctx.need('C10.R3', 'AppWriter::persist_if_changed', ctx.fb.body('pavexc', AW + 'persist_if_changed'))
    if w is not None:
        from ..inline import inlined
        w = inlined(ctx.fb, w)          # an arm may have been given a name (`Self::record_if_outdated(outdated, path, content)`)
        MODE = 'pavexc::persistence::WriterMode'
        raw = [bb for bb, t in w.calls() if callee(t) == PIC + 'persist_if_changed']
        pred = [bb for bb, t in w.calls() if callee(t) == PIC + 'has_changed_file2buffer']
        ok_raw = bool(raw) and all(guard_context(w, bb).get(MODE) in ({'Update'},) for bb in raw)
        ok_pred = bool(pred) and all(guard_context(w, bb).get(MODE) == {'CheckOnly'} for bb in pred)
        ctx.ob('C10.R3', 'check-arm-writes-nothing', ok_raw and ok_pred, w.loc(),
               'raw writer only under WriterMode::Update (%s); CheckOnly evaluates has_changed_file2buffer (%s)' % (ok_raw, ok_pred))
        # same arguments
        same = False
        if raw and pred:
            a1 = [op_place(a) for a in w.term(raw[0])['args']]
            a2 = [op_place(a) for a in w.term(pred[0])['args']]
            defs = Defs(w)
            def roots(pl):
                if pl is None:
                    return None
                _, l = backward_slice(w, pl['l'], defs, through_calls=False)
                return frozenset(x for x in l if 1 <= x <= w.raw['argc'])
            same = [roots(x) for x in a1] == [roots(x) for x in a2]
        ctx.ob('C10.R3', 'same-predicate-inputs', same, w.loc(), 'both arms are applied to the same (path, content) parameters')
        # what is recorded as outdated is decided by that predicate alone: anything else makes --check disagree with a normal run
        from ..govern import controlling_switches
        from .compiler_common import expand_same_file
        rec = [bb for bb, t in w.calls() if (callee(t) or '').split('::')[-1] == 'insert' and t['aty'] and 'PathBuf' in t['aty'][0] and guard_context(w, bb).get(MODE) == {'CheckOnly'}]
        if ctx.need('C10.R3', 'recording of an outdated path in the CheckOnly arm', rec):
            defs_w = Defs(w)
            extra = set()
            for sb, st in controlling_switches(w, rec[0]):
                if 'enum' in st and strip_generics(st['enum']) == MODE:
                    continue
                pl = op_place(st['d']) if 'd' in st else None
                src = st.get('src')
                l = src['l'] if src else (pl['l'] if pl else None)
                if l is None:
                    continue
                sl, _ = backward_slice(w, l, defs_w)
                for c, _, _ in slice_calls(sl):
                    c = strip_generics(c or '')
                    if c in (PIC + 'has_changed_file2buffer', 'core::ops::try_trait::Try::branch') or c.split('::')[-1] in ('deref', 'deref_mut', 'as_ref', 'borrow'):
                        continue
                    extra.add(c)
            ctx.ob('C10.R3', 'outdated-iff-changed', not extra, w.loc(rec[0]),
                   'in --check mode a file is recorded as outdated exactly when has_changed_file2buffer says so; other conditions involved: %s' % (sorted(extra) or 'none'))
    v = ctx.need('C10.R3', 'AppWriter::verify', ctx.fb.body('pavexc', AW + 'verify'))
    if v is not None:
        emp = [bb for bb, t in v.calls() if (callee(t) or '').endswith('::is_empty')]
        ctx.ob('C10.R3', 'verify-iff-outdated', bool(emp), v.loc(), 'verify() tests `outdated.is_empty()` to decide between Ok and Err')


def r4_cache_key(ctx):
    ctx.rule('C10.R4', 'P9: in rustdoc_processor::cache::third_party the columns compared in the SELECT ... WHERE, the columns of the INSERT and the '
             'PRIMARY KEY of the table agree, and the SELECT has no ORDER BY / LIMIT fallback that would return a row for a different key.')
    RP = 'rustdoc_processor'
    sqls = []
    for b in ctx.fb.bodies(RP):
        if b.is_promoted or 'cache::third_party' not in b.nid:
            continue
        defs = None
        for bb, t in b.calls():
            for a in t['args']:
                s = a.get('str')
                if s is None and op_place(a):
                    defs = defs or Defs(b)
                    sl, _ = backward_slice(b, op_place(a)['l'], defs, through_calls=False)
                    ss = [x for x in slice_strs(ctx.fb, b, sl) if not x.startswith('const:')]
                    s = ss[0] if len(ss) == 1 else None
                if s and re.search(r'\b(SELECT|INSERT|CREATE TABLE)\b', s, re.I) and 'rustdoc_3d_party_crates_cache' in s:
                    sqls.append((re.sub(r'\s+', ' ', s), b, bb, t))
    sel = [x for x in sqls if x[0].upper().startswith('SELECT')]
    ins = [x for x in sqls if x[0].upper().startswith('INSERT')]
    cre = [x for x in sqls if 'CREATE TABLE' in x[0].upper()]
    ctx.floor('C10.R4', 'SQL statements on rustdoc_3d_party_crates_cache', len(sqls), 3)
    if not (ctx.need('C10.R4', 'SELECT on the cache table', sel) and ctx.need('C10.R4', 'CREATE TABLE of the cache table', cre)):
        return
    pk = re.search(r'PRIMARY KEY\s*\(([^)]*)\)', cre[0][0], re.I)
    pkcols = {c.strip() for c in pk.group(1).split(',')} if pk else set()
    for s, b, bb, t in sel:
        where = s.upper().split(' WHERE ')[-1] if ' WHERE ' in s.upper() else ''
        wcols = {m.lower() for m in re.findall(r'(\w+)\s*(?:=|IS)\s*\?', where)}
        extra = [k for k in ('ORDER BY', 'LIMIT', ' OR ', ' LIKE ') if k in where]
        ok = bool(pkcols) and {c.lower() for c in pkcols} == wcols and not extra
        ctx.ob('C10.R4', 'select-on-full-key', ok, b.loc(bb, t), 'SELECT compares %s; PRIMARY KEY is %s; fallbacks: %s' % (sorted(wcols), sorted(pkcols), extra or 'none'))
    for s, b, bb, t in ins:
        m = re.search(r'\(([^)]*)\)\s*VALUES', s, re.I)
        icols = {c.strip().lower() for c in m.group(1).split(',')} if m else set()
        ctx.ob('C10.R4', 'insert-covers-key', {c.lower() for c in pkcols} <= icols, b.loc(bb, t), 'INSERT writes %d columns including the whole key: %s' % (len(icols), {c.lower() for c in pkcols} <= icols))


def r4b_source_hash_covers_src(ctx, rid='C10.R4b', lead=''):
    import re as _re
    ctx.rule(rid, lead + 'P9 constant: the source checksum that keys the documentation cache of a path dependency covers every file under `src/` '
             '(default include pattern `src/**`, no extension filter): `include!` / `include_str!` can pull any of them into the documentation, '
             'and a file left out of the hash lets a warm cache serve documentation generated from its old contents.')
    bodies = ctx.fb.bodies_of_item('rustdoc_processor', 'rustdoc_processor::cache::checksum::get_file_paths')
    if not ctx.need(rid, 'rustdoc_processor::cache::checksum::get_file_paths', bodies):
        return
    strs = set()
    for b in bodies:
        for bb, blk in enumerate(b.blocks):
            nodes = list(blk['st']) + ([blk['term']] if blk['term'] else [])
            for node in nodes:
                ops = []
                if 'rv' in node:
                    from ..flow import rv_operands
                    ops = rv_operands(node['rv'])[0]
                elif node.get('k') == 'call':
                    ops = node['args']
                for o in ops:
                    if isinstance(o, dict) and 'str' in o:
                        strs.add(o['str'])
                    elif isinstance(o, dict) and o.get('promoted') is not None:
                        from ..flow import promoted_strs
                        strs |= set(promoted_strs(ctx.fb, b, int(o['promoted'])))
    whole = sorted(x for x in strs if _re.match(r'^src/\*\*(/\*)?$', x))
    ctx.ob(rid, 'src-fully-hashed', bool(whole), bodies[0].loc(), 'include patterns among the constants of get_file_paths: %s; covering all of src/: %s' % (
        sorted(x for x in strs if '/' in x or '*' in x)[:6], whole or 'NONE'))


def r5_parallel(ctx):
    ctx.rule('C10.R5', 'P3: every rayon parallel pipeline in rustdoc_processor ends in `collect` (indexed, order preserving) or an order-insensitive '
             'reduction; no `for_each` over a parallel iterator that appends to shared ordered state.')
    n = 0
    for b in ctx.fb.bodies('rustdoc_processor'):
        if b.is_promoted:
            continue
        for bb, t in b.calls():
            c = callee(t) or ''
            if c.startswith('rayon::') and c.split('::')[-1] in ('into_par_iter', 'par_iter', 'par_iter_mut', 'par_bridge'):
                n += 1
                terms = [k for k, w in _consumers(b, t)]
                bad = [k for k in terms if k in ('for_each', 'for_each_with', 'for_each_init') or k == 'par_bridge']
                ok = not bad and c.split('::')[-1] != 'par_bridge'
                ctx.ob('C10.R5', 'rayon|%s' % b.nroot.replace('rustdoc_processor::', ''), ok, b.loc(bb, t),
                       '%s pipeline ends in %s' % (c.split('::')[-1], sorted(set(terms))[:6]))
    ctx.floor('C10.R5', 'rayon entry points', n, 2)


def r6_manifest_is_overwritten(ctx):
    ctx.rule('C10.R6', 'P7/P3: GeneratedManifest::overwrite treats the manifest found on disk as write-only for the sections it owns: every use of '
             'the existing document (and of anything obtained from it) is an IndexMut::index_mut whose result is assigned a freshly built item; no '
             'accessor that reads or edits what is already there (get/get_mut/as_table*/insert/entry/remove/extend/sort*). Otherwise the '
             'generated manifest depends on the previous generation (a dependency that is no longer needed survives).')
    fn = 'pavexc::compiler::generated_app::GeneratedManifest::overwrite'
    bodies = ctx.fb.bodies_of_item('pavexc', fn)
    main = ctx.need('C10.R6', 'GeneratedManifest::overwrite', ctx.fb.body('pavexc', fn))
    if main is None:
        return
    from ..flow import forward_derived
    n_idx = 0
    for b in bodies:
        if b is main:
            seeds = {2}
        else:
            continue
        derived = forward_derived(b, seeds, through_calls=True)
        # only values that are (references into) the document: toml_edit types
        for bb, t in b.calls():
            if not t['args']:
                continue
            pl = op_place(t['args'][0])
            if pl is None or pl['l'] not in derived:
                continue
            ty = t['aty'][0] if t['aty'] else ''
            if 'toml_edit' not in ty:
                continue
            c = callee(t) or ''
            ok = c == 'core::ops::index::IndexMut::index_mut'
            if ok:
                n_idx += 1
            ctx.ob('C10.R6', 'existing-manifest-use|%s' % c.split('::')[-1] + ('|%d' % n_idx if ok else ''), ok, b.loc(bb, t),
                   '%s is applied to the existing manifest (%s)%s' % (c, ty.replace('&mut ', '&mut '), '' if ok else ': the previous contents are read or edited in place'))
    ctx.floor('C10.R6', 'index_mut assignments into the existing manifest', n_idx, 3)


def r7_cacheability(ctx):
    ctx.rule('C10.R7', 'P7 must-depend: in PavexIndexer::index the `can_cache_indexes` flag of the result depends on every phase that can report a '
             'diagnostic: for each call that is handed the diagnostic sink (directly or inside the visitor), the flag derives from '
             'DiagnosticSink::len() evaluated after that call, or from a value that call returns or mutates, read after it. A crate whose '
             'annotations are broken must not be cached as fully processed: the cold run would report the error and every warm run would not.')
    fn = '<pavexc::rustdoc::indexer::PavexIndexer as rustdoc_processor::indexing::CrateIndexer>::index'
    b = ctx.need('C10.R7', 'PavexIndexer::index', ctx.fb.body('pavexc', fn))
    if b is None:
        return
    from ..flow import forward_derived, rv_operands
    defs = Defs(b)
    LEN = 'pavexc::diagnostic::sink::DiagnosticSink::len'
    seeds = set()
    for bb, j, st in b.all_assigns():
        rv = st['rv']
        if rv['k'] == 'ref' and 'f:diagnostic_sink' in rv['pl'].get('p', []) and not st['lhs'].get('p'):
            seeds.add(st['lhs']['l'])
    if not ctx.need('C10.R7', 'reads of self.diagnostic_sink', seeds):
        return
    derived = set(seeds)
    while True:
        # copies / references / aggregates that hold the sink (the visitor struct)
        more = forward_derived(b, derived, through_calls=False)
        for bb, j, st in b.all_assigns():
            rv = st['rv']
            if rv['k'] == 'agg' and not st['lhs'].get('p') and any(op_place(o) is not None and op_place(o)['l'] in more for o in rv['ops']):
                more.add(st['lhs']['l'])
        if more == derived:
            break
        derived = more
    flag = None
    for bb, j, st in b.all_assigns():
        rv = st['rv']
        if rv['k'] == 'agg' and rv.get('ak') == 'adt' and 'can_cache_indexes' in rv.get('fields', []):
            flag = op_place(rv['ops'][rv['fields'].index('can_cache_indexes')])
    if ctx.need('C10.R7', 'IndexResult { can_cache_indexes, .. }', flag) is None:
        return
    sl, _ = backward_slice(b, flag['l'], defs)
    nodes = [(nbb, node) for nbb, _, node in sl]
    n = 0
    for cb, t in b.calls():
        c = callee(t) or ''
        if c == LEN or not any(op_place(a) is not None and op_place(a)['l'] in derived for a in t['args']):
            continue
        if c.startswith('core::') and c.split('::')[-1] in ('deref', 'borrow', 'as_ref', 'clone'):
            continue
        n += 1
        # what the call can change: its destination and everything it got by `&mut`
        touched = set()
        if t.get('dest') is not None:
            touched.add(t['dest']['l'])
        for a in t['args']:
            pl = op_place(a)
            if pl is None:
                continue
            asl, _ = backward_slice(b, pl['l'], defs, through_calls=False)
            for _, _, nd in asl:
                rv = nd.get('rv')
                if rv and rv['k'] == 'ref' and rv['bk'] == 'mut':
                    touched.add(rv['pl']['l'])
        ok = False
        how = 'nothing the flag is computed from is evaluated after this call'
        for nbb, node in nodes:
            if nbb == cb or not b.dominates(cb, nbb):
                continue
            if node.get('k') == 'call' and callee(node) == LEN:
                ok, how = True, 'DiagnosticSink::len() is evaluated after it (%s)' % b.loc(nbb, node)
                break
            if 'rv' in node:
                ops, pls = rv_operands(node['rv'])
                rd = {q['l'] for q in pls} | {op_place(o)['l'] for o in ops if op_place(o) is not None}
                if rd & touched:
                    ok, how = True, 'a value this call returns or mutates is read after it (%s)' % b.loc(nbb, node)
                    break
        ctx.ob('C10.R7', 'flag-depends-on|%s' % c.split('::')[-2] + '::' + c.split('::')[-1], ok, b.loc(cb, t),
               '%s can report diagnostics; can_cache_indexes: %s' % (c.split('::')[-1], how))
    ctx.floor('C10.R7', 'calls that are handed the diagnostic sink', n, 2)


def r8_comparison_covers_everything(ctx):
    ctx.rule('C10.R8', 'P7: "outdated iff changed" needs the comparison to see the whole content: the digests persist_if_changed compares hash '
             'everything that was read (`&buffer[..n]` for the n bytes read() returned, in the read loop; no read_exact whose short tail is dropped).')
    from .persist_common import whole_content_hashed
    whole_content_hashed(ctx, 'C10.R8')


SORTS = {'sort', 'sort_by', 'sort_by_key', 'sort_unstable', 'sort_unstable_by', 'sort_unstable_by_key', 'sort_by_cached_key'}


def _sorted_after(b, defs, start_local):
    """the value in `start_local` (an iterator over a hash container) is collected into a Vec that is sorted before anything else looks at it:
    -> the block of the sort call, or None"""
    der = forward_derived(b, {start_local}, defs, through_calls=True)
    for bb, t in b.calls():
        m = (callee(t) or '').split('::')[-1]
        if m in SORTS and t['args']:
            q = op_place(t['args'][0])
            if q is None:
                continue
            sl, locs = backward_slice(b, q['l'], defs, through_calls=True)
            if locs & der:
                return bb
    return None


DOC_LAYER = ('rustdoc_processor', 'rustdoc_resolver', 'rustdoc_ir', 'rustdoc_ext', 'pavexc_annotations', 'pavexc_attr_parser')
# order-sensitive iterations over randomly seeded hash containers in the documentation layer: (crate, function suffix) -> (sites, reason)
DOC_REVIEWED = {
    ('rustdoc_processor', 'indexing::re_exports::ExternalReExports::iter'): (1,
        'hands the re-exports out in hash order; every consumer is reviewed: pavexc `register_imported_components` (C10.R1 table, `find`/`any` '
        'on a predicate that identifies one re-export) and `Crate::get_item_id_by_path`, which sorts them (most specific prefix first) before it '
        'looks behind any — both decided by the clauses below'),
    ('rustdoc_resolver', 'resolve_type::skip_default'): (1, '`find` on a predicate that identifies the one item whose canonical path is alloc::alloc::Global'),
    ('rustdoc_resolver', '<GenericBindings as core::fmt::Debug>::fmt'): (3, 'Debug output only'),
    ('rustdoc_ir', 'generics_equivalence::UnassignedIdGenerator::into_sorted_iter'): (1, 'collected into a Vec that is sorted by id on the next line'),
}


def r9_doc_layer_hash_order(ctx):
    from ..govern import controlling_switches
    ctx.rule('C10.R9', 'P3+P7 hash-order audit of the documentation layer (rustdoc_processor, rustdoc_resolver, rustdoc_ir, the annotation parsers): the same '
             'audit as C10.R1 — an iteration over a randomly seeded HashMap / HashSet whose order can reach a result is auto-discharged when all its '
             'consumers are order insensitive, and otherwise has to be in the reviewed table, with a count. Plus the clause the review of '
             '`ExternalReExports::iter` rests on: in `Crate::get_item_id_by_path` the loop over the re-exports is left early only WITH the item — '
             'the `return` inside the loop is governed by the Ok-of-Ok test of the nested lookup. Several prefixes can match one path (`pub use '
             'dep_a::*` next to `pub use dep_b::sub`); returning the answer of the first matching one, found or not, made `facade::sub::x` resolve '
             'or not depending on the hash seed (37 / 27 out of 64 identical runs, repaired in af1a772).')
    n = 0
    seen = {}
    for crate in DOC_LAYER:
        try:
            bodies = ctx.fb.bodies(crate)
        except KeyError:
            continue
        for b in bodies:
            if b.is_promoted:
                continue
            for bb, t in b.calls():
                c = callee(t) or ''
                m = c.split('::')[-1]
                if m not in ORDER_METHODS or not t['aty'] or not _is_random(t['aty'][0]):
                    continue
                n += 1
                terms = _consumers(b, t)
                sens = []
                for kind, what in terms:
                    if kind == 'collect':
                        if not strip_generics(what).lstrip('&').startswith(ORDERED_COLLECT) and not what.startswith(ORDERED_COLLECT):
                            sens.append('collect<%s>' % what[:50])
                    elif kind not in INSENSITIVE_TERMINALS:
                        sens.append(kind)
                fn = b.nroot.replace(crate + '::', '')
                if terms and not sens:
                    ctx.ob('C10.R9', 'site|%s|%s|%s' % (crate, fn, m), True, b.loc(bb, t), 'consumed only by order-insensitive sinks')
                    continue
                if sens and all(x.startswith('collect<alloc::vec::Vec') for x in sens) and not t['dest'].get('p'):
                    sb_ = _sorted_after(b, Defs(b), t['dest']['l'])
                    if sb_ is not None:
                        ctx.ob('C10.R9', 'site|%s|%s|%s' % (crate, fn, m), True, b.loc(bb, t), 'collected into a Vec that is sorted (%s) before it is used' % b.loc(sb_))
                        continue
                rev = DOC_REVIEWED.get((crate, fn))
                seen[(crate, fn)] = seen.get((crate, fn), 0) + 1
                ctx.ob('C10.R9', 'site|%s|%s|%s' % (crate, fn, m), rev is not None, b.loc(bb, t),
                       'iteration over a randomly seeded hash container flows into %s: %s' % (sorted(set(sens))[:4] or '(escapes the function)',
                       ('reviewed — ' + rev[1]) if rev else 'NOT REVIEWED: the hash order can reach what pavexc resolves, and through it the generated code'))
    for k, cnt in sorted(seen.items()):
        lim = DOC_REVIEWED.get(k, (0, ''))[0]
        if k in DOC_REVIEWED:
            ctx.ob('C10.R9', 'reviewed-count|%s|%s' % k, cnt <= lim, '', '%d order-sensitive site(s), %d reviewed' % (cnt, lim), nontrivial=False)
    ctx.floor('C10.R9', 'hash iteration sites in the documentation layer', n, 5)
    # the clause behind the review of ExternalReExports::iter
    b = None
    for x in ctx.fb.bodies('rustdoc_processor'):
        if not x.is_promoted and x.nid == x.nroot and x.nid.endswith('queries::Crate::get_item_id_by_path'):
            b = x
    if not ctx.need('C10.R9', 'rustdoc_processor::queries::Crate::get_item_id_by_path', b):
        return
    its = [(bb, t) for bb, t in b.calls() if strip_generics(callee(t) or '').endswith('ExternalReExports::iter')]
    if not its:
        ctx.ob('C10.R9', 're-exports-loop-left-only-with-the-item', True, b.loc(), 'get_item_id_by_path no longer iterates ExternalReExports::iter', nontrivial=False)
        return
    defs = Defs(b)
    der = forward_derived(b, {its[0][1]['dest']['l']}, defs, through_calls=True)
    nexts = [(bb, t) for bb, t in b.calls() if (callee(t) or '').endswith('Iterator::next') and op_place(t['args'][0]) is not None and op_place(t['args'][0])['l'] in der
             and 'ExternalReExport' in (t['aty'][0] if t.get('aty') else '')]
    sb_ = _sorted_after(b, defs, its[0][1]['dest']['l'])
    ok_sorted = sb_ is not None and bool(nexts) and all(b.dominates(sb_, nb) for nb, _ in nexts)
    ctx.ob('C10.R9', 're-exports-visited-in-a-fixed-order', ok_sorted, b.loc(sb_) if sb_ is not None else b.loc(its[0][0], its[0][1]),
           'the re-exports handed out in hash order are collected and sorted before the loop that looks behind them: %s (a named re-export that shadows a glob '
           're-export both lead to an item: which one answered depended on the hash seed — 143 / 113 of 256 identical runs, repaired in c114d4e)' % ok_sorted)
    if not ctx.need('C10.R9', 'loop over the re-exports in get_item_id_by_path', nexts):
        return
    hb = nexts[0][0]
    loop = {x for x in b.reachable(b.succ(hb)) if hb in b.reachable(b.succ(x))} | {hb}
    # the switch on the Option returned by next(): its None edge is the regular exit
    regular = set()
    for sb in loop:
        w = b.term(sb)
        if w and w['k'] == 'switch' and 'enum' in w and strip_generics(w['enum']) == 'core::option::Option' and w['src']['l'] == nexts[0][1]['dest']['l']:
            e = switch_edges(w)
            if 'None' in e:
                regular.add(e['None'])
    bad, n_exit = [], 0
    rets = set(b.return_blocks())
    for x in sorted(loop):
        for s2 in b.succ(x):
            if s2 in loop or s2 in regular:
                continue
            if not (b.reachable(s2) & rets):
                continue      # a panic edge
            n_exit += 1
            inner_ok = False
            for sb, w in controlling_switches(b, x) + ([(x, b.term(x))] if (b.term(x) or {}).get('k') == 'switch' else []):
                if 'enum' in w and strip_generics(w['enum']) == 'core::result::Result' and 'd:Ok' in (w['src'].get('p') or []):
                    e = switch_edges(w)
                    if e.get('Ok') is not None and (x in b.reachable(e['Ok'], avoid=[sb]) or e['Ok'] == s2 or x == sb and e['Ok'] == s2):
                        inner_ok = True
            if not inner_ok:
                bad.append(b.loc(x))
    ctx.ob('C10.R9', 're-exports-loop-left-only-with-the-item', n_exit > 0 and not bad, bad[0] if bad else b.loc(hb),
           'early exits from the loop over the re-exports: %d, each governed by the Ok(Ok(_)) test of the nested lookup: %s' % (n_exit, n_exit > 0 and not bad))


def check(ctx):
    from .persist_common import writer_replaces_the_whole_file
    writer_replaces_the_whole_file(ctx, 'C10.R10', '')
    r8_comparison_covers_everything(ctx)
    r1_hash_order(ctx)
    r2_single_writer(ctx)
    r3_check_mode(ctx)
    r4_cache_key(ctx)
    r4b_source_hash_covers_src(ctx)
    r5_parallel(ctx)
    r6_manifest_is_overwritten(ctx)
    r7_cacheability(ctx)
    r9_doc_layer_hash_order(ctx)


CLAUSE += ' Also: the writer replaces the whole file (shared C01.R15).'
