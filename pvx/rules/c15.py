"""C15 — Typed request data equals what the client encoded, or a clean error.

Decided clauses: percent-decoding happens exactly once and nothing else rewrites the raw value; typed parsing uses the parser
of exactly the requested type (no lossy casts); the content-type gates accept exactly the documented media types and
dominate deserialisation; the extractor modules contain no panic site. Round-trip equality is not decided.
"""
from ..boolpaths import states_at
from ..facts import callee, op_place, strip_generics
from ..flow import Defs, backward_slice, slice_calls, slice_strs, rv_operands

LEVEL = 'other'
TECHNIQUE = 'static analysis: provenance of decoded values and parse targets (generic helpers inlined with type substitution), case evaluation of the content-type gates and of the extractors by abstract interpretation, panic-site audit with guarded-subtraction discharge, JSON end() dominance'
CLAUSE = ('path parameters are percent-decoded by exactly one call whose input is the raw segment itself and whose output is handed on '
          'unmodified; each typed path value is produced by str::parse of exactly the visited type with no numeric cast; JSON / form '
          'bodies are deserialised only after a content-type gate that accepts application/json|application/*+json resp. '
          'application/x-www-form-urlencoded; the request extractor modules contain no panic, unwrap, expect or arithmetic assert.')
TRUSTED = ['percent_encoding, serde, serde_json, serde_html_form, mime and matchit do what their names say']

CR = 'pavex'
RQ = 'pavex::request::'
PCT = ('percent_encoding::',)


def r1_decode_once(ctx):
    ctx.rule('C15.R1', 'P7/P3/P4 decode-once: EncodedParamValue::decode calls percent_decode_str on a value that is the raw field itself (no call '
             'in between) and returns decode_utf8 of it (no call after, besides the error mapping); percent_encoding functions are called '
             'nowhere else in pavex::request; PathParams::extract calls decode() once per loop iteration and hands the decoded value to the '
             'deserializer; the path deserializer module calls neither decode nor any percent_encoding function.')
    dec = ctx.need('C15.R1', 'EncodedParamValue::decode', ctx.fb.body(CR, RQ + 'path::raw_path_params::EncodedParamValue::decode'))
    if dec is not None:
        defs = Defs(dec)
        pc = [(bb, t) for bb, t in dec.calls() if callee(t) == 'percent_encoding::percent_decode_str']
        ctx.ob('C15.R1', 'one-decode-call', len(pc) == 1, dec.loc(), 'percent_decode_str is called %d time(s) in decode()' % len(pc))
        if pc:
            bb, t = pc[0]
            pl = op_place(t['args'][0])
            sl, _ = backward_slice(dec, pl['l'], defs)
            calls = [c for c, _, _ in slice_calls(sl)]
            ctx.ob('C15.R1', 'raw-input-unmodified', not calls, dec.loc(bb, t),
                   'the input of percent_decode_str is the raw segment with no call on the way: %s' % (calls or 'none'))
        # what is returned
        # (the error side — an `Err(..)` built by hand or inside map_err — may copy the raw segment; only the success value matters here)
        rsl, _ = backward_slice(dec, 0, defs, stop=lambda n: 'rv' in n and n['rv']['k'] == 'agg' and n['rv'].get('var') == 'Err'
                                and strip_generics(n['rv'].get('adt', '')) == 'core::result::Result')
        rcalls = {c for c, _, _ in slice_calls(rsl)}
        allowed = {'percent_encoding::percent_decode_str', 'percent_encoding::PercentDecode::decode_utf8', 'core::result::Result::map_err'}
        extra = sorted(c for c in rcalls if c not in allowed)
        ctx.ob('C15.R1', 'decoded-output-unmodified', 'percent_encoding::PercentDecode::decode_utf8' in rcalls and not extra, dec.loc(),
               'decode() returns decode_utf8(percent_decode_str(raw)) with no further transformation: extra calls %s' % extra)
    n = 0
    for b in ctx.fb.bodies(CR):
        if b.is_promoted or not b.nid.startswith(RQ):
            continue
        for bb, t in b.calls():
            c = callee(t) or ''
            if c.startswith(PCT) or c.startswith('form_urlencoded::') or c in ('alloc::str::{impl str}::replace', 'alloc::str::{impl str}::replacen'):
                n += 1
                ok = (b.nroot == RQ + 'path::raw_path_params::EncodedParamValue::decode' and c.startswith(PCT)) or \
                     (b.nroot == RQ + 'query::query_params::parse' and c == 'form_urlencoded::parse')
                ctx.ob('C15.R1', 'decoder-site|%s|%s' % (b.nroot.replace(RQ, ''), c.split('::')[-1]), ok, b.loc(bb, t),
                       '%s called in %s' % (c, b.nroot))
    ctx.floor('C15.R1', 'percent-decoding call sites in pavex::request (positive control)', n, 2)
    ex = ctx.need('C15.R1', 'PathParams::extract', ctx.fb.body(CR, RQ + 'path::path_params::PathParams::extract'))
    if ex is not None:
        from ..inline import inlined, closures_of
        DEC = RQ + 'path::raw_path_params::EncodedParamValue::decode'
        ex = inlined(ctx.fb, ex)
        parts = [ex] + [inlined(ctx.fb, c) for c in closures_of(ctx.fb, ex)]
        sites = [(x, bb) for x in parts for bb, t in x.calls() if callee(t) == DEC]
        des = [bb for bb, t in ex.calls() if callee(t) in ('serde_core::de::Deserialize::deserialize', 'serde::de::Deserialize::deserialize')]
        per_param, before = False, False
        if len(sites) == 1 and des:
            x, bb = sites[0]
            if x is ex:
                per_param = bb in ex.reachable(ex.succ(bb))                      # inside the per-parameter loop
                before = bb not in ex.reachable(ex.succ(des[0]))
            else:
                # inside a closure handed to an iterator adaptor over the parameters (map / filter_map / try_for_each ..)
                uses = [cb for cb, j, st in ex.all_assigns() if st['rv']['k'] == 'agg' and st['rv'].get('ak') == 'closure'
                        and strip_generics(st['rv'].get('def', '')) == x.nid]
                ads = [cb for cb, t in ex.calls() if (callee(t) or '').startswith('core::iter::traits::iterator::Iterator::')
                       and any('{closure' in a for a in t['aty'])]
                per_param = bool(uses) and any(a in ex.reachable([u]) for u in uses for a in ads)
                before = bool(uses) and not any(u in ex.reachable(ex.succ(des[0])) for u in uses)
        ctx.ob('C15.R1', 'decode-once-per-parameter', len(sites) == 1 and per_param and before and bool(des),
               sites[0][0].loc(sites[0][1]) if sites else ex.loc(),
               'decode() has %d call site(s) in PathParams::extract, its closures and private helpers; it runs once per parameter (loop body or '
               'iterator-adaptor closure): %s; before T::deserialize: %s' % (len(sites), per_param, before))
    for b in ctx.fb.bodies(CR):
        if b.is_promoted or not b.nid.startswith(RQ + 'path::deserializer'):
            continue
        for bb, t in b.calls():
            c = callee(t) or ''
            if c.endswith('EncodedParamValue::decode') or c.startswith(PCT):
                ctx.ob('C15.R1', 'deserializer-decodes-again|%s' % b.nroot.split('::')[-1], False, b.loc(bb, t), 'the path deserializer calls %s' % c)
    ctx.count('deserializer_bodies', sum(1 for b in ctx.fb.bodies(CR) if b.nid.startswith(RQ + 'path::deserializer') and not b.is_promoted))


PRIMS = ['bool', 'i8', 'i16', 'i32', 'i64', 'i128', 'u8', 'u16', 'u32', 'u64', 'u128', 'f32', 'f64', 'char']


def r2_typed_parse(ctx):
    ctx.rule('C15.R2', 'P9/P7 value table: in `impl Deserializer for ValueDeserializer`, deserialize_<T> hands Visitor::visit_<T> a value that is '
             'str::parse::<T> of the decoded string for exactly that T, with no numeric cast on the way.')
    n = 0
    for ty in PRIMS:
        roots = [b for b in ctx.fb.bodies(CR) if not b.is_promoted and b.nid.startswith('<' + RQ + 'path::deserializer::ValueDeserializer')
                 and b.nid.endswith('::deserialize_' + ty)]
        if not ctx.need('C15.R2', 'ValueDeserializer::deserialize_' + ty, roots):
            continue
        from ..inline import inlined
        b = inlined(ctx.fb, roots[0])      # private (possibly generic) helpers inlined, their type parameters substituted
        defs = Defs(b)
        vis = [(bb, t) for bb, t in b.calls() if (callee(t) or '').startswith(('serde_core::de::Visitor::visit_', 'serde::de::Visitor::visit_'))]
        if not ctx.need('C15.R2', 'visit_* call in deserialize_' + ty, vis):
            continue
        n += 1
        bb, t = vis[0]
        vname = callee(t).split('::')[-1]
        pl = op_place(t['args'][1]) if len(t['args']) > 1 else None
        sl, _ = backward_slice(b, pl['l'], defs) if pl else ([], set())
        parses = [nd for c, _, nd in slice_calls(sl) if c == 'core::str::{impl str}::parse']
        pty = [g for nd in parses for g in nd.get('ga', [])]
        casts = [nd['rv']['ck'] for _, _, nd in sl if 'rv' in nd and nd['rv']['k'] == 'cast' and nd['rv']['ck'] in ('IntToInt', 'FloatToInt', 'IntToFloat', 'FloatToFloat')]
        ok = vname == 'visit_' + ty and pty == [ty] and not casts
        ctx.ob('C15.R2', 'typed-parse|%s' % ty, ok, b.loc(bb, t),
               'deserialize_%s -> %s(str::parse::<%s>), numeric casts: %s' % (ty, vname, ','.join(pty) or '?', casts or 'none'))
    ctx.floor('C15.R2', 'typed value deserializers checked', n, 14)


def _mime_test(body, defs, t):
    """which component of the parsed Mime a comparison call tests: 'T' (type_), 'U' (subtype), 'S' (suffix) or None"""
    c = callee(t) or ''
    if not t['args']:
        return None
    pl = op_place(t['args'][0])
    if pl is None:
        return None
    names = {x for x, _, _ in slice_calls(backward_slice(body, pl['l'], defs)[0])}
    if c.startswith('core::cmp::PartialEq::eq') or c.startswith('core::cmp::PartialEq::ne'):
        if 'mime::Mime::type_' in names:
            return 'T'
        if 'mime::Mime::subtype' in names:
            return 'U'
        if 'mime::Mime::suffix' in names:
            return 'S'
    if c in ('core::option::Option::is_some_and', 'core::option::Option::map_or', 'core::option::Option::is_none_or') and 'mime::Mime::suffix' in names:
        return 'S'
    return None


def _ct_rule(ctx, fn, want_subtypes, allow_suffix):
    from ..absint_std import StdSem, TagInterp
    from ..inline import inlined, closures_of
    b = ctx.need('C15.R3', fn, ctx.fb.body(CR, fn))
    if b is None:
        return
    short = fn.split('::')[-1]
    module = RQ + 'body::'          # the gate's own module and its siblings (a shared content-type helper lives next to them)
    dcache = {}

    class Sem(StdSem):
        crate = CR

        def __init__(self, fb, vals):
            super().__init__(fb)
            self.vals, self.tests = vals, set()

        def domain_call(self, interp, path, body, bb, term, short_):
            if body.id not in dcache:
                dcache[body.id] = Defs(body)
            k = _mime_test(body, dcache[body.id], term)
            d = term.get('dest')
            if k is None or d is None or d.get('p'):
                return None
            dk = (body.id, d['l'])
            self.tests.add(k)
            path.alias.pop(dk, None)
            path.tags.pop(dk, None)
            v = self.vals[k]
            path.memo[dk] = (not v) if short_.startswith('core::cmp::PartialEq::ne') else v
            return [('next', path)]

        def descend_into(self, short_):
            return short_.startswith(module)

    ok_under, tests, n = [], set(), 0
    for T in (True, False):
        for U in (True, False):
            for S in (True, False):
                sem = Sem(ctx.fb, {'T': T, 'U': U, 'S': S})
                outs = TagInterp(sem).run(b, {})
                n += len(outs)
                tests |= sem.tests
                if any(oc[0] == 'return' and oc[1].tags.get((b.id, 0)) != 'res:Err' for oc in outs):
                    ok_under.append({'T': T, 'U': U, 'S': S})
    bad = [v for v in ok_under if not (v['T'] and (v['U'] or (allow_suffix and v['S'])))]
    need = {'T', 'U'} | ({'S'} if allow_suffix else set())
    ctx.ob('C15.R3', 'gate|%s' % short, bool(ok_under) and not bad and need <= tests, b.loc(),
           '%s interpreted (%d paths) for every outcome of the comparisons on the parsed Mime (tested: %s): a non-Err result is produced under %d '
           'valuation(s), all with type==application and (subtype matches%s): %s%s'
           % (short, n, sorted(tests), len(ok_under), ' or +suffix matches' if allow_suffix else '', not bad, '' if not bad else ' — offending valuations %s' % bad))
    # the constants compared (in the function, its private helpers inlined, and their closures)
    ib = inlined(ctx.fb, b)
    parts = [ib] + closures_of(ctx.fb, ib)
    # .. and the functions of the body module reachable from the gate, also as function values (`check(headers, is_json)`)
    from ..callgraph import CallGraph
    if ('cg', id(ctx.fb)) not in dcache:
        dcache[('cg', id(ctx.fb))] = CallGraph(ctx.fb, [(CR, 'Rlib')])
    for f in sorted(dcache[('cg', id(ctx.fb))].reachable({fn})):
        if f.startswith(module) and f != fn:
            for x in ctx.fb.bodies_of_item(CR, f):
                if not x.is_promoted and x.nid not in {y.nid for y in parts} and x.nroot not in ib.raw.get('extra_roots', []):
                    parts.append(x)
    for name, want in (('T', {'application', 'const:mime::APPLICATION'}), ('U', want_subtypes)):
        for x in parts:
            defs = Defs(x)
            for bb, t in x.calls():
                if _mime_test(x, defs, t) != name or len(t['args']) < 2:
                    continue
                pl = op_place(t['args'][1])
                sl, _ = backward_slice(x, pl['l'], defs) if pl else ([], set())
                strs = set(slice_strs(ctx.fb, x, sl))
                ctx.ob('C15.R3', 'constant|%s|%s' % (short, name), bool(strs & want), x.loc(bb, t),
                       'compared against %s (documented: one of %s)' % (sorted(strs), sorted(want)))
    if allow_suffix:
        strs = set()
        for x in parts[1:]:
            for bb, t in x.calls():
                for a in t['args']:
                    pl = op_place(a)
                    if pl:
                        sl, _ = backward_slice(x, pl['l'])
                        strs |= set(slice_strs(ctx.fb, x, sl))
        ctx.ob('C15.R3', 'constant|%s|S' % short, bool(strs & {'json', 'const:mime::JSON'}), b.loc(), 'suffix compared against %s' % sorted(strs))


DESER = ('serde_json::', 'serde_path_to_error::', 'serde_html_form::', 'serde_urlencoded::')


def _gate_cases(ctx, b, gate):
    """P11: the extractor interpreted for each outcome of the content-type gate -> {outcome: a deserialisation call is reached}"""
    from ..absint_std import StdSem, TagInterp
    module = gate.rsplit('::', 1)[0] + '::'

    class Sem(StdSem):
        crate = CR

        def __init__(self, fb, tag):
            super().__init__(fb)
            self.tag, self.gates, self.deser = tag, 0, False

        def domain_call(self, interp, path, body, bb, term, short_):
            d = term.get('dest')
            if short_ == gate and d is not None and not d.get('p'):
                dk = (body.id, d['l'])
                self.gates += 1
                path.alias.pop(dk, None)
                path.memo.pop(dk, None)
                path.tags[dk] = self.tag
                return [('next', path)]
            if short_.startswith(DESER):
                self.deser = True
            return None

        def descend_into(self, short_):
            return short_.startswith(module) and short_ != gate

    out, gates = {}, 0
    for name, tag in (('Ok', 'res:Ok'), ('Err', 'res:Err')):
        sem = Sem(ctx.fb, tag)
        TagInterp(sem).run(b, {})
        out[name] = sem.deser
        gates += sem.gates
    return out, gates


def r3_content_type(ctx):
    ctx.rule('C15.R3', 'P11 case evaluation: check_json_content_type (private helpers entered) produces a non-Err result only under valuations with '
             'type == "application" and (subtype == "json" or suffix == "json"); check_urlencoded_content_type only with type == application and '
             'subtype == x-www-form-urlencoded; the constants compared are the documented ones; JsonBody::extract / UrlEncodedBody::extract, '
             'interpreted for each outcome of the gate, reach a deserialisation call (serde_json / serde_path_to_error / serde_html_form, '
             'directly or in a private helper) when the gate says Ok and never when it says Err.')
    _ct_rule(ctx, RQ + 'body::json::check_json_content_type', {'json', 'const:mime::JSON'}, True)
    _ct_rule(ctx, RQ + 'body::url_encoded::check_urlencoded_content_type', {'const:mime::WWW_FORM_URLENCODED', 'x-www-form-urlencoded'}, False)
    for item, gate in ((RQ + 'body::json::JsonBody::extract', RQ + 'body::json::check_json_content_type'),
                       (RQ + 'body::url_encoded::UrlEncodedBody::extract', RQ + 'body::url_encoded::check_urlencoded_content_type')):
        b = ctx.need('C15.R3', item, ctx.fb.body(CR, item))
        if b is None:
            continue
        got, gates = _gate_cases(ctx, b, gate)
        ctx.ob('C15.R3', 'gate-dominates-deserialisation|%s' % item.split('::')[-2], gates > 0 and got == {'Ok': True, 'Err': False}, b.loc(),
               'deserialisation reached when the content-type gate returns Ok / Err: %s (gate evaluated %d time(s))' % (got, gates))


PANICS = ('core::panicking::', 'core::option::unwrap_failed', 'core::option::expect_failed', 'core::result::unwrap_failed')
UNWRAPS = {'core::option::Option::unwrap', 'core::option::Option::expect', 'core::result::Result::unwrap', 'core::result::Result::expect',
           'core::result::Result::unwrap_err', 'core::result::Result::expect_err'}


def r4_no_panic(ctx):
    ctx.rule('C15.R4', 'P3 audit: no body under pavex::request::{path,query,body} calls a panic entry point, unwrap/expect, slices a str by a byte range, or contains an '
             'arithmetic/bounds Assert terminator (`debug_assert!`s, which release builds do not contain, are not counted); positive control: the same '
             'query finds such sites elsewhere in pavex.')
    mods = (RQ + 'path::', RQ + 'query::', RQ + 'body::', '<' + RQ + 'path::', '<' + RQ + 'query::', '<' + RQ + 'body::')
    inside, outside, bodies, discharged = 0, 0, 0, 0
    for b in ctx.fb.bodies(CR):
        if b.is_promoted:
            continue
        target = b.nid.startswith(mods)
        if target:
            bodies += 1
        sites = []
        for bb, t in b.calls():
            c = callee(t) or ''
            if c.startswith(PANICS) or c in UNWRAPS:
                if (t.get('mo') or '') in ('debug_assert', 'debug_assert_eq', 'debug_assert_ne'):
                    continue        # a stated belief of the developers that is compiled out of the builds users run (`-C debug-assertions=off`)
                sites.append((bb, t, c))
            elif c in ('core::ops::index::Index::index', 'core::ops::index::IndexMut::index_mut') and t['aty'] and \
                    t['aty'][0].replace('&mut ', '&') in ('&str', '&alloc::string::String') and len(t['aty']) > 1 and 'Range' in t['aty'][1]:
                # `s[a..b]` panics when a bound is not on a char boundary (or out of range)
                sites.append((bb, t, 'str-slice-by-byte-range'))
        adefs = None
        for bb in b.live_blocks():
            t = b.term(bb)
            if t and t['k'] == 'assert':
                if target and t.get('msg') == 'Overflow':
                    # a checked subtraction right after `if small > big { return Err }` cannot underflow (pvx.arith)
                    from ..arith import sub_is_guarded
                    adefs = adefs or Defs(b)
                    if sub_is_guarded(b, adefs, bb):
                        discharged += 1
                        continue
                sites.append((bb, t, 'Assert(%s)' % t['msg']))
        for bb, t, c in sites:
            if target:
                inside += 1
                ctx.ob('C15.R4', 'panic-site|%s|%s' % (b.nroot.replace(RQ, ''), c.split('::')[-1]), False, b.loc(bb, t),
                       '%s in %s: malformed input must yield the documented error, never a panic' % (c, b.nroot))
            else:
                outside += 1
    ctx.count('extractor_bodies_scanned', bodies)
    ctx.count('checked_subtractions_discharged_by_a_dominating_comparison', discharged)
    ctx.count('panic_sites_elsewhere_in_pavex', outside)
    ctx.ob('C15.R4', 'no-panic-sites', inside == 0, '', '%d panic/unwrap/assert site(s) in %d extractor bodies' % (inside, bodies))
    ctx.floor('C15.R4', 'extractor bodies scanned', bodies, 100)
    ctx.floor('C15.R4', 'panic sites found elsewhere in pavex (positive control)', outside, 5)


# calls that hand a string on without changing its value
PURE_ACCESS = {'deref', 'deref_mut', 'as_ref', 'borrow', 'as_bytes', 'as_str', 'clone', 'to_owned', 'to_string', 'into', 'from', 'into_owned',
               'as_deref', 'parse', 'map_err', 'branch', 'from_residual', 'into_bytes', 'into_string', 'into_boxed_str'}


def r5_value_untouched(ctx):
    ctx.rule('C15.R5', 'P7 provenance: in the path deserializer every value handed to str::parse or to a string/bytes visitor method derives from the '
             'decoded parameter through value-preserving accessors only (deref/as_ref/as_bytes/clone/to_owned/..): no trimming, case folding, '
             'replacing or splitting between what the client encoded and what the field receives.')
    from ..inline import inlined
    n = 0
    for b in ctx.fb.bodies(CR):
        if b.is_promoted or 'request::path::deserializer' not in b.nid:
            continue
        b = inlined(ctx.fb, b)
        defs = Defs(b)
        for bb, t in b.calls():
            c = callee(t) or ''
            if c == 'core::str::{impl str}::parse':
                i = 0
            elif c.startswith(('serde_core::de::Visitor::visit_', 'serde::de::Visitor::visit_')) and c.split('::')[-1] in (
                    'visit_str', 'visit_borrowed_str', 'visit_string', 'visit_bytes', 'visit_borrowed_bytes', 'visit_byte_buf', 'visit_char'):
                i = 1
            else:
                continue
            if len(t['args']) <= i or op_place(t['args'][i]) is None:
                continue
            n += 1
            # (the error side of a parse — an `Err(..)` built by hand — is not what the visitor receives)
            sl, _ = backward_slice(b, op_place(t['args'][i])['l'], defs, stop=lambda nd: 'rv' in nd and nd['rv']['k'] == 'agg' and nd['rv'].get('var') == 'Err'
                                   and strip_generics(nd['rv'].get('adt', '')) == 'core::result::Result')
            other = sorted({x for x, _, _ in slice_calls(sl) if x.split('::')[-1] not in PURE_ACCESS})
            ctx.ob('C15.R5', 'untouched|%s|%s' % (b.nid.split('::')[-1].rstrip('>'), c.split('::')[-1]), not other, b.loc(bb, t),
                   'value handed to %s derives from the decoded parameter through %s' % (c.split('::')[-1], other and ('a REWRITING call: %s' % other) or 'accessors only'))
    ctx.floor('C15.R5', 'parse / string-visitor sites in the path deserializer', n, 20)
    # JSON: the recursion limit of serde_json is what turns a deeply nested body into an error instead of a stack overflow
    bad = []
    uses = 0
    for b in ctx.fb.bodies(CR):
        if b.is_promoted:
            continue
        for bb, t in b.calls():
            c = callee(t) or ''
            if c.startswith('serde_json::'):
                uses += 1
                if c.split('::')[-1] == 'disable_recursion_limit':
                    bad.append(b.loc(bb, t))
    ctx.floor('C15.R5', 'serde_json calls in pavex (positive control)', uses, 2)
    # a hand-driven serde_json::Deserializer must be asked whether anything is left after the value
    ext = [b for b in ctx.fb.bodies(CR) if not b.is_promoted and b.nid.endswith('request::body::json::JsonBody::extract')]
    if ctx.need('C15.R5', 'JsonBody::extract', ext):
        b = inlined(ctx.fb, ext[0], keep={RQ + 'body::json::check_json_content_type'})
        de = [bb for bb, t in b.calls() if (callee(t) or '').startswith('serde_path_to_error::') and (callee(t) or '').endswith('::deserialize') or (callee(t) or '').endswith('Deserialize::deserialize')]
        end = [bb for bb, t in b.calls() if (callee(t) or '').startswith('serde_json::de::Deserializer') and (callee(t) or '').endswith('::end')]
        # every Ok(..) built after the value was deserialized (the function's result, or that of the private helper it was moved into)
        oks = [bb for bb, j, st in b.all_assigns() if st['rv']['k'] == 'agg' and st['rv'].get('var') == 'Ok' and 'inl' not in st
               and strip_generics(st['rv'].get('adt', '')) == 'core::result::Result' and de and bb in b.reachable(b.succ(de[0]))]
        ok = bool(de) and bool(end) and bool(oks) and all(b.dominates(end[0], o) for o in oks) and b.dominates(de[0], end[0])
        ctx.ob('C15.R5', 'json-document-consumed-entirely', ok, b.loc(de[0]) if de else b.loc(),
               'Deserializer::end() is called after the value was deserialized and dominates the Ok result: %s (otherwise `{..} trailing` is accepted as if it were `{..}`)' % ok)
    ctx.ob('C15.R5', 'json-recursion-limit-kept', not bad, bad[0] if bad else '',
           'serde_json::Deserializer::disable_recursion_limit is called %d time(s) in pavex (a body nested deeper than the stack aborts the process instead '
           'of yielding ExtractJsonBodyError)' % len(bad))


def r6_errors_not_discarded(ctx):
    ctx.rule('C15.R6', 'P3 who-may-call (expected count 0; positive control: the same adaptors on std errors exist in the body-limit code): inside '
             'pavex::request::{path,query,body} no call discards a Result that carries one of the extractors\' own errors — `.ok()`, '
             '`.unwrap_or*()`, `.err()` on it, or an iterator adaptor that flattens it (`flat_map` / `flatten` / `filter_map` / `map_while` over '
             'items of type Result<_, pavex::request::..Error>, which silently drops every `Err`). Malformed input must surface as the documented '
             'error, not as a missing parameter.')
    mods = (RQ + 'path::', RQ + 'query::', RQ + 'body::', '<' + RQ + 'path::', '<' + RQ + 'query::', '<' + RQ + 'body::')
    n_ctrl, bad, n_seen = 0, 0, 0
    for b in ctx.fb.bodies(CR):
        if b.is_promoted or not b.nid.startswith(mods):
            continue
        for bb, t in b.calls():
            c = callee(t) or ''
            m = c.split('::')[-1]
            own = lambda ty: 'core::result::Result<' in ty and RQ in ty.split('core::result::Result<', 1)[1] and 'rror' in ty
            n_seen += 1 if (c.startswith('core::result::Result::') or (t['aty'] and own(t['aty'][0]))) else 0
            if c.startswith('core::result::Result::') and m in ('ok', 'err', 'unwrap_or', 'unwrap_or_default', 'unwrap_or_else'):
                n_ctrl += 1
                if t['aty'] and own(t['aty'][0]):
                    bad += 1
                    ctx.ob('C15.R6', 'error-discarded|%s|%s' % (b.nroot.replace(RQ, ''), m), False, b.loc(bb, t),
                           'Result::%s on `%s`: the extraction error is thrown away' % (m, t['aty'][0][:120]))
            elif c.startswith('core::iter::traits::iterator::Iterator::') and m in ('flat_map', 'flatten', 'filter_map', 'map_while', 'find_map'):
                n_ctrl += 1
                if any(own(g) for g in t.get('ga', [])) or (t['aty'] and m == 'flatten' and own(t['aty'][0])):
                    bad += 1
                    ctx.ob('C15.R6', 'error-discarded|%s|%s' % (b.nroot.replace(RQ, ''), m), False, b.loc(bb, t),
                           'Iterator::%s over items of type %s: a Result iterates over its Ok value only, so every Err is silently dropped'
                           % (m, [g[:110] for g in t.get('ga', []) if own(g)][:1]))
    # positive control: the rule sees the calls made on Results in these modules at all (how many of them are of the discarding kind is
    # the maintainers' business: an `.ok()` on a header-parsing result may come and go)
    ctx.floor('C15.R6', 'calls on a Result (or taking one of the extractors\' own Results) in the extractor modules', n_seen, 10)
    ctx.ob('C15.R6', 'no-extraction-error-discarded', bad == 0, '', '%d discarding call(s) on the extractors\' own errors (of %d adaptor calls looked at)' % (bad, n_ctrl))


def r7_request_head_is_what_hyper_parsed(ctx):
    ctx.rule('C15.R7', 'P7 provenance of what the extractors are FED: every request goes through `RequestHead::from(http::request::Parts)` before any extractor '
             'sees it. Each field of the RequestHead (target, method, version, headers) is the like-named part of the request as hyper parsed it, moved — no '
             'call in between (no "normalisation" of the target). A target rebuilt from `path()` for absolute-form / HTTP/2 requests drops the query string: '
             '`QueryParams` then sees nothing, optional fields silently become None and malformed input is accepted.')
    from .c19 import IDENTITY_CONVERSIONS
    bodies = [b for b in ctx.fb.bodies(CR) if not b.is_promoted and b.nid.startswith('<pavex::request::request_head::RequestHead as core::convert::From') and b.nid.endswith('::from') and b.raw['argc'] == 1 and 'http::request::Parts' in b.locals[1]]
    if not ctx.need('C15.R7', 'RequestHead: From<http::request::Parts>', bodies):
        return
    from ..inline import inlined
    b = inlined(ctx.fb, bodies[0])
    defs = Defs(b)
    n = 0
    for bb, j, st in b.all_assigns():
        rv = st['rv']
        if rv['k'] != 'agg' or rv.get('ak') != 'adt' or not strip_generics(rv['adt']).endswith('request_head::RequestHead'):
            continue
        for fname, o in zip(rv.get('fields', []), rv['ops']):
            n += 1
            pl = op_place(o)
            sl, locs = backward_slice(b, pl['l'], defs) if pl is not None else ([], set())
            cs = sorted({(c or '?').split('::')[-1].split('<')[0] for c, _, _ in slice_calls(sl)})
            bad = [c for c in cs if c not in IDENTITY_CONVERSIONS]
            from_parts = 1 in locs or (pl is not None and pl['l'] == 1)
            ctx.ob('C15.R7', 'request-head-field|%s' % fname, from_parts and not bad, b.loc(bb, st),
                   'RequestHead.%s comes from the parsed request: %s, through %s%s' % (fname, from_parts, cs or 'a plain move', '' if not bad else ' — NOT identity conversions: %s' % bad))
    ctx.floor('C15.R7', 'fields of the RequestHead built from the parsed request', n, 3)


def check(ctx):
    r1_decode_once(ctx)
    r2_typed_parse(ctx)
    r3_content_type(ctx)
    r4_no_panic(ctx)
    r5_value_untouched(ctx)
    r6_errors_not_discarded(ctx)
    r7_request_head_is_what_hyper_parsed(ctx)
